"""C06 -- performance MIDI export and import preserve notes, controls and timing.

Implementation under test: partitura/io/exportmidi.py (save_performance_midi),
partitura/io/importmidi.py (load_performance_midi, adjust_time), partitura/io/__init__.py
(load_performance).

(a) generated performances (Performance / PerformedPart / list input, with and without
    merge_tracks_save) are saved; the mido messages of the result are compared with the Gallina
    model (Model/C06.save, vm_compute) and -- direct oracle -- loaded back (with and without
    merge_tracks) and compared with the original: notes (pitch, velocity, channel, track,
    onset/offset = times rounded to the nearest tick), controls, programs, key/time signatures,
    other meta events, id order.
(b) hand-built mido.MidiFile objects with arbitrary set_tempo sequences in any track are loaded;
    the result is compared with the model (Model/C06.load: ticks exact, seconds 1e-9) and with a
    direct Python oracle (pairing by definition, integration of the tempo step function ordered
    by tick with exact rationals, id order).
(a) also covers performances with a history (items carrying stale tick annotations; performances
    loaded, sliced, moved in time by the library itself) and numpy scalar types.
(d) Performance(...) renumbers tracks (Model/C06_perf.sanitize); (e) load_performance against
    load_performance_midi, first_note_at_zero (Model/C06_perf.rs_notes / rs_times); (f) the conversion
    functions called directly.
"""
import json
import math
import os
import re
import warnings
from fractions import Fraction as F

import core
from core import cz, cq, clist, ctuple, cbool

EXPECT_MIN = 44
PAIRS = [(480, 500000), (96, 600000), (1000, 333333), (1, 10 ** 6), (4, 250000), (384, 250000), (960, 1000000)]
KEYNAMES = ["Cb", "Gb", "Db", "Ab", "Eb", "Bb", "F", "C", "G", "D", "A", "E", "B", "F#", "C#",
            "Abm", "Ebm", "Bbm", "Fm", "Cm", "Gm", "Dm", "Am", "Em", "Bm", "F#m", "C#m", "G#m", "D#m", "A#m"]
TEMPI = [500000, 600000, 250000, 333333, 1000000, 750000]
BPMS = [100, 60, 200, 125, 96, 80, 240, 50, 75, 150, 62.5, 37.5]
REL = F(1, 10 ** 9)


def rhe(fr):
    f = math.floor(fr)
    r = fr - f
    if r < F(1, 2):
        return f
    if r > F(1, 2):
        return f + 1
    return f if f % 2 == 0 else f + 1


def tick_exact(ppq, mpq, t):
    """(nearest tick of the float t -- half to even at an exact tie --, comparable?).  Near-ties of the
    float evaluation of 10**6 * ppq * t / mpq are not comparable (DESIGN 2.4, same rule as c12.py)."""
    exact = F(10 ** 6) * ppq * F(t) / mpq
    frac = exact - math.floor(exact)
    if frac != F(1, 2) and abs(frac - F(1, 2)) < F(1, 2 ** 20):
        return rhe(exact), False
    fl = 10 ** 6 * ppq * float(t) / mpq
    if F(fl) != exact and abs(F(fl) - exact) > abs(frac - F(1, 2)) / 2:
        return rhe(exact), False
    return rhe(exact), True


def tick_cands(ppq, mpq, t):
    """the nearest ticks of t: one, or the two neighbours when t is exactly half way (C06 says
    'rounded to the nearest tick'; which neighbour is taken at a tie is not part of the property)"""
    exact = F(10 ** 6) * ppq * F(t) / mpq
    fl = math.floor(exact)
    if exact - fl == F(1, 2):
        return (fl, fl + 1)
    return (rhe(exact),)


def kuhn(adj, n_right):
    """maximum bipartite matching; adj[i] = admissible right vertices of left vertex i.
    -> (match_left, match_right) with -1 for unmatched"""
    ml = [-1] * len(adj)
    mr = [-1] * n_right

    def aug(i, seen):
        for j in adj[i]:
            if j in seen:
                continue
            seen.add(j)
            if mr[j] == -1 or aug(mr[j], seen):
                ml[i], mr[j] = j, i
                return True
        return False

    for i in range(len(adj)):
        aug(i, set())
    return ml, mr


def match_items(exp, got):
    """exp: [(fields, [admissible tick tuples])], got: [(fields, tick tuple)] -> (unmatched exp, unmatched got)"""
    adj = [[j for j, (f, t) in enumerate(got) if f == e[0] and t in e[1]] for e in exp]
    ml, mr = kuhn(adj, len(got))
    return [exp[i] for i in range(len(exp)) if ml[i] == -1], [got[j] for j in range(len(got)) if mr[j] == -1]


# ----------------------------------------------------------------------------
# Coq printing of messages


class Intern:
    def __init__(self):
        self.tab = {}

    def __call__(self, key):
        return self.tab.setdefault(key, len(self.tab))


def meta_key(d):
    """canonical hashable form of an 'other meta' dict / mido MetaMessage attributes"""
    return tuple(sorted((k, str(v)) for k, v in d.items() if k not in ("time", "time_tick", "track")))


def c_msg(m, intern):
    """mido message -> Coq msg term"""
    t = m.type
    if t == "note_on":
        return "(NoteOn %s %s %s)" % (cz(m.channel), cz(m.note), cz(m.velocity))
    if t == "note_off":
        return "(NoteOff %s %s %s)" % (cz(m.channel), cz(m.note), cz(m.velocity))
    if t == "control_change":
        return "(CC %s %s %s)" % (cz(m.channel), cz(m.control), cz(m.value))
    if t == "program_change":
        return "(PC %s %s)" % (cz(m.channel), cz(m.program))
    if t == "set_tempo":
        return "(Tempo %s)" % cz(m.tempo)
    if t == "key_signature":
        return "(KeySig %s)" % cz(KEYNAMES.index(str(m.key)))
    if t == "time_signature":
        return "(TimeSig %s %s)" % (cz(m.numerator), cz(m.denominator))
    if t == "end_of_track":
        return "EndOfTrack"
    if m.is_meta:
        return "(Meta %s)" % cz(intern(meta_key(vars(m))))
    return "Other"


def c_track(track, intern):
    return clist([ctuple([cz(m.time), c_msg(m, intern)]) for m in track])


# ----------------------------------------------------------------------------
# (a) generated performances


def edge_keys(rng):
    """neighbouring channels and the ends of the pitch range: (channel, pitch) pairs that only a key made of both
    numbers in full keeps apart (channel c pitch 127 / channel c+1 pitch 0, pitches 100 or 28 apart, ...)"""
    c = rng.randint(0, 14)
    return [c, c + 1], rng.sample([0, 127, 1, 126], 2) + rng.sample([100, 28, 27, 99, 64], 2)


def gen_perf(rng):
    ppq, mpq = rng.choice(PAIRS) if rng.random() < 0.85 else (rng.randint(1, 2000), rng.randint(1000, 2 * 10 ** 6))
    kind = rng.choice(["perf", "perf", "list", "list", "pp"])
    nparts = 1 if kind == "pp" else rng.choice([1, 2, 2, 3])
    ms = rng.random() < 0.3
    ml = rng.random() < 0.3
    grid = rng.choice([128, 128, 16, 8, 1000])  # 1/128 s gives exact .5 ticks at 960 ticks/s
    span = rng.choice([2, 8, 30]) * grid

    def time():
        r = rng.random()
        if r < 0.75:
            return rng.randint(0, span) / float(grid)
        if r < 0.9:  # exactly on / half way between ticks
            k = rng.randint(0, 2000)
            den = F(mpq, 10 ** 6 * ppq).denominator
            if den & (den - 1) == 0:  # seconds per tick is dyadic: the float is the exact position
                return (k + rng.choice([0, 0.5, 0.5, 0.25])) * mpq / (1e6 * ppq)
            return rng.randint(0, 30 * 128) / 128.0  # 1/128 s: exact .5 ticks at 960, 480*2, 160 ticks per second
        return rng.random() * rng.choice([1, 10, 100])

    parts = []
    for k in range(nparts):
        pool = rng.choice([[0], [0], [0, 1], [1], [0, 2], [3, 5], [0, 1, 2]])
        chans = rng.sample(range(16), rng.choice([1, 2, 3]))
        pitches = rng.sample(range(128), rng.choice([1, 2, 4, 8]))
        if rng.random() < 0.3:
            chans, pitches = edge_keys(rng)
        notes = []
        for i in range(rng.choice([1, 1, 2, 3, 5, 8, 12])):
            on = time()
            off = on + rng.choice([0, 0, rng.randint(0, 64) / float(grid), rng.random() * 3])
            notes.append(dict(midi_pitch=rng.choice(pitches), note_on=on, note_off=off, velocity=rng.randint(1, 127),
                              channel=rng.choice(chans), track=rng.choice(pool)))
        if rng.random() < 0.3:
            notes.sort(key=lambda n: n["note_on"])
        ntr = sorted({n["track"] for n in notes})
        ctrls = [dict(number=rng.randint(0, 127), value=rng.randint(0, 127), time=time(), channel=rng.choice(chans + [rng.randint(0, 15)]),
                      track=rng.choice(pool)) for _ in range(rng.choice([0, 0, 1, 2, 5, 9]))]
        progs = [dict(program=rng.randint(0, 127), time=time(), channel=rng.choice(chans), track=rng.choice(pool))
                 for _ in range(rng.choice([0, 0, 0, 1, 2]))]
        keys = [dict(time=time(), fifths=rng.randint(-7, 7), mode=rng.choice(["major", "minor"]), track=rng.choice(ntr))
                for _ in range(rng.choice([0, 0, 1, 2]))]
        tsigs = [dict(time=time(), beats=rng.randint(1, 12), beat_type=rng.choice([1, 2, 4, 8, 16]), track=rng.choice(ntr))
                 for _ in range(rng.choice([0, 0, 1, 2]))]
        metas = []
        for _ in range(rng.choice([0, 0, 1, 2])):
            ty = rng.choice(["text", "marker", "lyrics", "cue_marker", "track_name", "copyright"])
            d = dict(type=ty, time=time(), track=rng.choice(ntr))
            d["name" if ty == "track_name" else "text"] = "m%d" % rng.randint(0, 5)
            metas.append(d)
        parts.append(dict(notes=notes, ctrls=ctrls, progs=progs, keys=keys, tsigs=tsigs, metas=metas))
    case = dict(ppq=ppq, mpq=mpq, kind=kind, ms=ms, ml=ml, parts=parts, file=rng.random() < 0.12,
                via_load_performance=rng.random() < 0.5, again=rng.random() < 0.3)
    # the scalar types of the items: Python numbers, or what numpy code hands over -- single precision times and
    # 32-bit integers (the dtypes of partitura's performance note arrays; half of these cases build the notes with
    # PerformedPart.from_note_array), or numpy doubles / 64-bit integers
    case["num"] = rng.choice(["py"] * 7 + ["f4", "f4", "f8"])
    if case["file"] and rng.random() < 0.4:
        case["file"] = "object"
    case["single"] = rng.random() < 0.5  # a Performance of one part is given the part itself, not a list
    if case["num"] == "f4":
        import numpy as np

        case["na"] = rng.random() < 0.5
        for part in parts:
            for n in part["notes"]:
                if rng.random() < 0.5:  # longer performances: single precision has 24 bits
                    n["note_off"] += 1000.0 - n["note_on"] % 1000.0 + n["note_on"]
                    n["note_on"] = n["note_off"] - rng.random() * 3
                a = np.float32(n["note_on"])
                d = np.float32(max(np.float32(n["note_off"]) - a, 0))
                n["note_on"], n["note_off"] = float(a), float(np.float32(a + d))
            for name in ("ctrls", "progs", "keys", "tsigs", "metas"):
                for x in part[name]:
                    x["time"] = float(np.float32(x["time"] * rng.choice([1, 1, 100])))
    if rng.random() < 0.35:
        annotate_ticks(rng, case)
    return case


def annotate_ticks(rng, case):
    """History in the data (class c1): the items of a performed part that was loaded from a MIDI file (or sliced)
    carry their position in ticks (note_on_tick / note_off_tick / time_tick) next to the times in seconds, in
    the resolution the part carries (PerformedPart.ppq / .mpq).  The annotation is either the nearest tick of
    the time in that resolution, or stale (times were edited after loading, the file had another tempo):
    C06 speaks of the times in seconds only."""
    case["history"] = "annotated"
    for part in case["parts"]:
        r = rng.random()
        if r < 0.55:
            part["ppq"], part["mpq"] = case["ppq"], case["mpq"]  # the part's resolution is the export's
        elif r < 0.8:
            pass  # PerformedPart defaults (480, 500000)
        else:
            part["ppq"], part["mpq"] = rng.choice(PAIRS)
        pq, mq = part.get("ppq", 480), part.get("mpq", 500000)
        mode = rng.choice(["consistent", "offset", "scaled", "random", "random"])
        p_item = rng.choice([0.5, 1, 1])
        off = rng.choice([1, 7, 480])
        fac = rng.choice([F(6, 5), F(1, 2), F(2)])

        def tick(t):
            k = rhe(F(10 ** 6) * pq * F(t) / mq)
            if mode == "consistent":
                return k
            if mode == "offset":
                return k + off
            if mode == "scaled":
                return rhe(k * fac)
            return rng.randint(0, 5000)

        for n in part["notes"]:
            if rng.random() < p_item:
                a = tick(n["note_on"])
                b = tick(n["note_off"])
                n["note_on_tick"], n["note_off_tick"] = a, max(a, b)
        for name in ("ctrls", "progs", "keys", "tsigs", "metas"):
            for x in part[name]:
                if rng.random() < p_item:
                    x["time_tick"] = tick(x["time"])


def stale_at_export_resolution(case):
    """some item carries a tick annotation that is not a nearest tick of its time although its part has the
    resolution of the exported file"""
    for part in case["parts"]:
        if (part.get("ppq", 480), part.get("mpq", 500000)) != (case["ppq"], case["mpq"]):
            continue
        for n in part["notes"]:
            for a, b in (("note_on", "note_on_tick"), ("note_off", "note_off_tick")):
                if b in n and n[b] not in tick_cands(case["ppq"], case["mpq"], n[a]):
                    return True
        for name in ("ctrls", "progs", "keys", "tsigs", "metas"):
            for x in part[name]:
                if "time_tick" in x and x["time_tick"] not in tick_cands(case["ppq"], case["mpq"], x["time"]):
                    return True
    return False


def perf_to_parts(pps):
    """the items of loaded / processed PerformedPart objects as a case's parts: every key the items carry that
    C06 names, plus the tick annotations and the resolution of the part"""
    parts = []
    for pp in pps:
        notes = []
        for n in pp.notes:
            d = dict(midi_pitch=int(n["midi_pitch"]), note_on=float(n["note_on"]), note_off=float(n["note_off"]),
                     velocity=int(n["velocity"]), channel=int(n["channel"]), track=int(n["track"]))
            for k in ("note_on_tick", "note_off_tick"):
                if n.get(k) is not None:
                    d[k] = int(n[k])
            notes.append(d)

        def tt(x, d):
            if x.get("time_tick") is not None:
                d["time_tick"] = int(x["time_tick"])
            return d

        ctrls = [tt(c, dict(number=int(c["number"]), value=int(c["value"]), time=float(c["time"]), channel=int(c["channel"]), track=int(c["track"])))
                 for c in pp.controls]
        progs = [tt(c, dict(program=int(c["program"]), time=float(c["time"]), channel=int(c["channel"]), track=int(c["track"]))) for c in pp.programs]
        keys = [tt(c, dict(time=float(c["time"]), fifths=int(c["fifths"]), mode=str(c["mode"]), key_name=str(c.get("key_name", "")), track=int(c["track"])))
                for c in pp.key_signatures]
        tsigs = [tt(c, dict(time=float(c["time"]), beats=int(c["beats"]), beat_type=int(c["beat_type"]), track=int(c["track"]))) for c in pp.time_signatures]
        metas = []
        for m in pp.meta_other:
            if m.get("type") == "end_of_track":
                continue
            d = {k: (v if isinstance(v, (int, str)) else float(v)) for k, v in m.items() if k not in ("time", "time_tick", "track")}
            metas.append(tt(m, dict(d, time=float(m["time"]), track=int(m["track"]))))
        part = dict(notes=notes, ctrls=ctrls, progs=progs, keys=keys, tsigs=tsigs, metas=metas)
        if getattr(pp, "ppq", None) is not None and getattr(pp, "mpq", None) is not None:
            part["ppq"], part["mpq"] = int(pp.ppq), int(pp.mpq)
        part["ptrack"] = int(getattr(pp, "track", 0) or 0)
        parts.append(part)
    return parts


def gen_history(rng, workdir):
    """History by the library itself (class c2): a generated MIDI file (any tempo map) is loaded with
    load_performance_midi / load_performance (with or without silence removal), the result possibly moved in
    time, stretched or sliced, and then handed to the exporter -- most of the time with the ppq / mpq the loaded
    parts carry.  -> case (its parts hold the items as they are at that moment) or None"""
    import partitura
    from partitura.io.importmidi import load_performance_midi
    from partitura.utils.music import slice_ppart_by_time

    src = gen_midi(rng)
    if rng.random() < 0.5:  # one tempo for the whole file, not the default one
        m = rng.choice([600000, 250000, 400000, 750000, 1000000, 480000])
        src["tracks"] = [[(d, s) for d, s in tr if s[0] != "tempo"] for tr in src["tracks"]]
        src["tracks"][0].insert(0, (0, ("tempo", m)))
    how = rng.choice(["midi", "midi", "midi", "silence", "slice"])
    try:
        if how == "silence":
            path = os.path.join(workdir, "hist.mid")
            build_midi(src).save(path)
            perf = partitura.load_performance(path, default_bpm=src["bpm"], merge_tracks=src["merge"], first_note_at_zero=True)
        else:
            perf = load_performance_midi(build_midi(src), default_bpm=src["bpm"], merge_tracks=src["merge"])
        pps = list(perf.performedparts)
        if how == "slice":
            a = rng.choice([0, 0.25, 0.5, 1.0])
            pps = [slice_ppart_by_time(pp, a, a + rng.choice([1.0, 4.0, 100.0]), clip_note_off=rng.random() < 0.5) for pp in pps]
    except Exception:
        return None
    parts = [p for p in perf_to_parts(pps) if p["notes"]]
    if not parts:
        return None
    edit = rng.choice(["none", "none", "shift", "shift", "stretch"])
    if edit != "none":
        d = rng.choice([1.0, 0.5, 2.25, 10.0])
        f = rng.choice([0.5, 2.0, 1.25])
        for part in parts:
            for n in part["notes"]:
                for k in ("note_on", "note_off"):
                    n[k] = n[k] + d if edit == "shift" else n[k] * f
            for name in ("ctrls", "progs", "keys", "tsigs", "metas"):
                for x in part[name]:
                    x["time"] = x["time"] + d if edit == "shift" else x["time"] * f
    if "ppq" in parts[0] and rng.random() < 0.65:
        ppq, mpq = parts[0]["ppq"], parts[0]["mpq"]
    else:
        ppq, mpq = rng.choice(PAIRS)
    kind = rng.choice(["perf", "perf", "list", "list", "pp"])
    if kind == "pp":
        parts = parts[:1]
    case = dict(ppq=ppq, mpq=mpq, kind=kind, ms=rng.random() < 0.25, ml=rng.random() < 0.25, parts=parts, file=rng.random() < 0.1,
                via_load_performance=rng.random() < 0.5, again=rng.random() < 0.2, history="%s,%s" % (how, edit))
    # a time that is a near-tie of the rounding cannot be compared: leave the item out
    for part in case["parts"]:
        part["notes"] = [n for n in part["notes"] if tick_exact(ppq, mpq, n["note_on"])[1] and tick_exact(ppq, mpq, n["note_off"])[1]]
        for name in ("ctrls", "progs", "keys", "tsigs", "metas"):
            part[name] = [x for x in part[name] if tick_exact(ppq, mpq, x["time"])[1]]
    case["parts"] = [p for p in case["parts"] if p["notes"]]
    if not case["parts"]:
        return None
    return case


def build_parts(case):
    import partitura.performance as P

    import numpy as np

    num = case.get("num", "py")
    # "int" / "i4" / "i8": whole seconds held in Python / numpy integers
    FT = {"py": lambda v: v, "f4": np.float32, "f8": np.float64, "int": int, "i4": lambda v: np.int32(int(v)), "i8": lambda v: np.int64(int(v))}[num]
    IT = {"py": lambda v: v, "f4": np.int32, "f8": np.int64, "int": lambda v: v, "i4": np.int32, "i8": np.int64}[num]

    def conv(d):
        return {k: (FT(v) if k in ("time", "note_on", "note_off") else IT(v) if isinstance(v, int) and not isinstance(v, bool) else v)
                for k, v in d.items()}

    pps = []
    for part in case["parts"]:
        kw = {k: part[k] for k in ("ppq", "mpq") if k in part}
        if "ptrack" in part:
            kw["track"] = part["ptrack"]
        items = dict(controls=[conv(c) for c in part["ctrls"]], programs=[conv(p) for p in part["progs"]],
                     key_signatures=[conv(k) for k in part["keys"]], time_signatures=[conv(t) for t in part["tsigs"]],
                     meta_other=[dict(m, time=FT(m["time"])) for m in part["metas"]])
        if case.get("na"):
            na = np.array([(n["note_on"], np.float32(n["note_off"]) - np.float32(n["note_on"]), n["midi_pitch"], n["velocity"], n["track"], n["channel"], "x%d" % i)
                           for i, n in enumerate(part["notes"])],
                          dtype=[("onset_sec", "f4"), ("duration_sec", "f4"), ("pitch", "i4"), ("velocity", "i4"), ("track", "i4"), ("channel", "i4"), ("id", "U256")])
            pp = P.PerformedPart.from_note_array(na)
            for k, v in list(items.items()) + list(kw.items()):
                setattr(pp, k, v)
            pps.append(pp)
        else:
            notes = [dict(conv(n), id="x%d" % i) for i, n in enumerate(part["notes"])]
            pps.append(P.PerformedPart(notes, **items, **kw))
    if case["kind"] == "perf":
        perf = P.Performance(pps[0] if len(pps) == 1 and case.get("single") else pps)
        # Performance renumbers the tracks of notes, controls and programs only; keep every signature /
        # meta event on a (renumbered) track of a note of its part
        for pp in pps:
            for lst in (pp.key_signatures, pp.time_signatures, pp.meta_other):
                for j, x in enumerate(lst):
                    x["track"] = pp.notes[j % len(pp.notes)]["track"]
        return perf, pps
    if case["kind"] == "pp":
        return pps[0], pps
    return pps, pps


def make_exclusive(case):
    """Drop notes so that no two notes of one (file track, channel, pitch) -- of one (channel, pitch)
    when tracks are merged on either side -- overlap or touch at tick resolution (closed tick
    intervals pairwise disjoint, whichever neighbour a time exactly between two ticks is rounded
    to).  Returns False when some time is a near-tie of the rounding."""
    ppq, mpq = case["ppq"], case["mpq"]
    merged = case["ms"] or case["ml"]
    taken = {}

    def interval(n):
        return min(tick_cands(ppq, mpq, n["note_on"])), max(tick_cands(ppq, mpq, n["note_off"]))

    for k, part in enumerate(case["parts"]):
        keep = []
        for n in part["notes"]:
            if not (tick_exact(ppq, mpq, n["note_on"])[1] and tick_exact(ppq, mpq, n["note_off"])[1]):
                return False
            a, b = interval(n)
            ftrack = 0 if merged else ((k, n["track"]) if case["kind"] == "perf" else n["track"])
            key = (ftrack, n["channel"], n["midi_pitch"])
            if all(b < x or y < a for x, y in taken.get(key, [])):
                taken.setdefault(key, []).append((a, b))
                keep.append(n)
        if not keep:  # keep at least one note per part
            n = part["notes"][0]
            n["midi_pitch"] = (max([p for (_, _, p) in taken] or [0]) + 1 + k) % 128
            ftrack = 0 if merged else ((k, n["track"]) if case["kind"] == "perf" else n["track"])
            if (ftrack, n["channel"], n["midi_pitch"]) in taken:
                return False
            taken[(ftrack, n["channel"], n["midi_pitch"])] = [interval(n)]
            keep = [n]
        part["notes"] = keep
        used = {n["track"] for n in keep}
        for lst in (part["keys"], part["tsigs"], part["metas"]):
            for x in lst:
                if x["track"] not in used:
                    x["track"] = sorted(used)[0]
        for lst in (part["ctrls"], part["progs"], part["keys"], part["tsigs"], part["metas"]):
            for x in lst:
                if not tick_exact(ppq, mpq, x["time"])[1]:
                    return False
    return True


def c_item(track, t, msg):
    return "(mkPI %s %s %s)" % (cz(track), core.cfloat_q(t), msg)


def c_ppart(pp, intern):
    """a PerformedPart as it stands (the fields the exporter reads) -> Coq ppart term"""
    import partitura.utils as U

    metas = [c_item(m.get("track", 0), m["time"], "(Meta %s)" % cz(intern(meta_key(m)))) for m in pp.meta_other]
    keys = [c_item(k.get("track", 0), k["time"], "(KeySig %s)" % cz(KEYNAMES.index(
        U.fifths_mode_to_key_name(k.get("fifths", 0), k.get("mode", None))))) for k in pp.key_signatures]
    tsigs = [c_item(t.get("track", 0), t["time"], "(TimeSig %s %s)" % (cz(t.get("beats", 4)), cz(t.get("beat_type", 4)))) for t in pp.time_signatures]
    ctrls = [c_item(c.get("track", 0), c["time"], "(CC %s %s %s)" % (cz(c.get("channel", 1)), cz(c["number"]), cz(c["value"]))) for c in pp.controls]
    notes = ["(mkPN %s %s %s %s %s %s)" % (cz(n.get("track", 0)), cz(n.get("channel", 1)), cz(n["midi_pitch"]), cz(n["velocity"]),
                                           core.cfloat_q(n["note_on"]), core.cfloat_q(n["note_off"])) for n in pp.notes]
    progs = [c_item(p.get("track", 0), p["time"], "(PC %s %s)" % (cz(p.get("channel", 1)), cz(int(p["program"])))) for p in pp.programs]
    return "(mkPP %s %s %s %s %s %s)" % (clist(metas), clist(keys), clist(tsigs), clist(ctrls), clist(notes), clist(progs))


def term_save(case, pps, mf, intern):
    """the exporter's input as it stands at save time (track numbers possibly renumbered by
    Performance) and the messages of the returned MidiFile"""
    parts = [c_ppart(pp, intern) for pp in pps]
    return ctuple([cz(case["ppq"]), cz(case["mpq"]), cbool(case["ms"]), clist(parts), clist([c_track(t, intern) for t in mf.tracks])])


def observe_perf(perf):
    """everything C06 names, from a loaded Performance"""
    out = []
    for k, pp in enumerate(perf.performedparts):
        out.append(dict(
            notes=[dict(id=n["id"], pitch=int(n["midi_pitch"]), vel=int(n["velocity"]), ch=int(n["channel"]), track=int(n["track"]),
                        on_tick=int(n["note_on_tick"]), off_tick=int(n["note_off_tick"]), on=float(n["note_on"]), off=float(n["note_off"]))
                   for n in pp.notes],
            ctrls=[dict(tick=int(c["time_tick"]), t=float(c["time"]), number=int(c["number"]), value=int(c["value"]), ch=int(c["channel"]),
                        track=int(c["track"])) for c in pp.controls],
            progs=[dict(tick=int(p["time_tick"]), t=float(p["time"]), program=int(p["program"]), ch=int(p["channel"]), track=int(p["track"]))
                   for p in pp.programs],
            keys=[dict(tick=int(x["time_tick"]), t=float(x["time"]), name=str(x["key_name"]), fifths=int(x["fifths"]), mode=str(x["mode"]),
                       track=int(x["track"])) for x in pp.key_signatures],
            tsigs=[dict(tick=int(x["time_tick"]), t=float(x["time"]), beats=int(x["beats"]), beat_type=int(x["beat_type"]), track=int(x["track"]))
                   for x in pp.time_signatures],
            metas=[dict(tick=int(x["time_tick"]), t=float(x["time"]), key=meta_key(x), type=str(x.get("type")), track=int(x["track"]))
                   for x in pp.meta_other]))
    return out


def id_order(notes):
    """the notes of one part in the order of their ids: by the number an id ends in when every id has
    one (n0, n1, ..., n10 -- not alphabetically), in list order otherwise"""
    nums = []
    for n in notes:
        m = re.search(r"(\d+)$", str(n["id"]))
        if not m:
            return list(notes)
        nums.append(int(m.group(1)))
    return [n for _, _, n in sorted(zip(nums, range(len(notes)), notes), key=lambda x: x[:2])]


def oracle_ids(obs):
    """ids are distinct within a part and run along (onset, pitch, offset, channel, track)"""
    bad = []
    for k, p in enumerate(obs):
        ids = [str(n["id"]) for n in p["notes"]]
        if len(set(ids)) != len(ids) or any(n["id"] is None for n in p["notes"]):
            bad.append("part %d: note ids %s are not distinct" % (k, ids[:8]))
            continue
        keys = [(n["on_tick"], n["pitch"], n["off_tick"], n["ch"], n["track"]) for n in id_order(p["notes"])]
        if keys != sorted(keys):
            j = [i for i in range(len(keys) - 1) if keys[i] > keys[i + 1]][0]
            bad.append("part %d: ids not assigned in order of (onset, pitch, offset, channel, track): %s gets %s, %s gets %s"
                       % (k, keys[j], id_order(p["notes"])[j]["id"], keys[j + 1], id_order(p["notes"])[j + 1]["id"]))
    return bad


def expected_groups(case):
    """What has to come back, grouped by the track it has to come back on.  Groups: everything (tracks
    merged on either side); (part, track number) for a Performance (whose constructor renumbers the
    tracks so that no number is shared between parts: only consistency is asked -- notes, controls and
    programs of one (part, track) stay together and apart from the others); the track number for a
    PerformedPart / list.  Items are (fields, admissible tick tuples)."""
    ppq, mpq = case["ppq"], case["mpq"]
    merged = case["ms"] or case["ml"]
    perf = case["kind"] == "perf"
    G = {}

    def cands(t):
        return tick_cands(ppq, mpq, t)

    for k, part in enumerate(case["parts"]):
        def grp(tr, k=k):
            key = 0 if merged else ((k, tr) if perf else (tr,))
            return G.setdefault(key, dict(notes=[], ctrls=[], progs=[], keys=[], tsigs=[], metas=[], dflt=set()))

        for n in part["notes"]:
            grp(n["track"])["notes"].append(((n["midi_pitch"], n["velocity"], n["channel"]),
                                             [(a, b) for a in cands(n["note_on"]) for b in cands(n["note_off"])]))
        for c in part["ctrls"]:
            grp(c["track"])["ctrls"].append(((c["number"], c["value"], c["channel"]), [(a,) for a in cands(c["time"])]))
        for x in part["progs"]:
            grp(x["track"])["progs"].append(((int(x["program"]), x["channel"]), [(a,) for a in cands(x["time"])]))
        if not part["progs"]:  # the exporter's documented default: program 0 may be added on the part's (channel, track) pairs
            for x in part["notes"] + part["ctrls"]:
                grp(x["track"])["dflt"].add(x["channel"])
        for name in ("keys", "tsigs", "metas"):
            for j, x in enumerate(part[name]):
                # build_parts puts the j-th signature / meta event of a Performance's part on the track of its (j mod n)-th note
                tr = part["notes"][j % len(part["notes"])]["track"] if perf else x["track"]
                if name == "keys":
                    f = (x.get("fifths", 0), "minor" if x.get("mode") in ("minor", -1) else "major")
                elif name == "tsigs":
                    f = (x.get("beats", 4), x.get("beat_type", 4))
                else:
                    f = meta_key(x)
                grp(tr)[name].append((f, [(a,) for a in cands(x["time"])]))
    return G


def observed_tracks(obs):
    """the loaded items by the track number they carry"""
    T = {}

    def tr(t):
        return T.setdefault(t, dict(notes=[], ctrls=[], progs=[], keys=[], tsigs=[], metas=[]))

    for p in obs:
        for n in p["notes"]:
            tr(n["track"])["notes"].append(((n["pitch"], n["vel"], n["ch"]), (n["on_tick"], n["off_tick"])))
        for c in p["ctrls"]:
            tr(c["track"])["ctrls"].append(((c["number"], c["value"], c["ch"]), (c["tick"],)))
        for x in p["progs"]:
            tr(x["track"])["progs"].append(((x["program"], x["ch"]), (x["tick"],)))
        for x in p["keys"]:
            tr(x["track"])["keys"].append(((x["fifths"], x["mode"]), (x["tick"],)))
        for x in p["tsigs"]:
            tr(x["track"])["tsigs"].append(((x["beats"], x["beat_type"]), (x["tick"],)))
        for x in p["metas"]:
            if x["type"] != "end_of_track":
                tr(x["track"])["metas"].append((x["key"], (x["tick"],)))
    return T


WHAT = dict(notes="notes (pitch, velocity, channel | on tick, off tick)", ctrls="control changes (number, value, channel | tick)",
            progs="program changes (program, channel | tick)", keys="key signatures (fifths, mode | tick)",
            tsigs="time signatures (beats, beat type | tick)", metas="other meta events")


def show(items):
    return [(f, t[0] if isinstance(t, list) else t) for f, t in items[:3]]


def group_failures(g, o, gname, tname):
    """the group g of the original against what was loaded with track number tname"""
    bad = []
    for name in ("notes", "ctrls", "keys", "tsigs", "metas"):
        miss, extra = match_items(g[name], o[name])
        if miss or extra:
            bad.append("%s of %s differ after save->load (track %s): missing %s, unexpected %s" % (WHAT[name], gname, tname, show(miss), show(extra)))
    miss, extra = match_items(g["progs"], o["progs"])
    extra = [(f, t) for f, t in extra if not (f[0] == 0 and f[1] in g["dflt"])]
    if miss or extra:
        bad.append("%s of %s differ after save->load (track %s): missing %s, unexpected %s" % (WHAT["progs"], gname, tname, show(miss), show(extra)))
    return bad


EMPTY = dict(notes=[], ctrls=[], progs=[], keys=[], tsigs=[], metas=[], dflt=set())


def oracle_roundtrip(case, obs, tmap):
    """load(save(p)) against p, by the property's words; tmap: saved_track_numbers"""
    ppq, mpq = case["ppq"], case["mpq"]
    merged = case["ms"] or case["ml"]
    bad = []

    def sec(tick):
        return F(tick) * mpq / (10 ** 6 * ppq)

    for p in obs:
        for n in p["notes"]:
            for a, b in ((n["on"], n["on_tick"]), (n["off"], n["off_tick"])):
                if abs(F(a) - sec(b)) > REL * max(1, sec(b)):
                    bad.append("note time %r s is not tick %d * mpq / (10^6 ppq) = %s" % (a, b, float(sec(b))))
        for x in p["ctrls"] + p["progs"] + p["keys"] + p["tsigs"] + p["metas"]:
            if abs(F(x["t"]) - sec(x["tick"])) > REL * max(1, sec(x["tick"])):
                bad.append("event time %r s is not tick %d * mpq / (10^6 ppq) = %s" % (x["t"], x["tick"], float(sec(x["tick"]))))
    G = expected_groups(case)
    T = observed_tracks(obs)
    # the same track: everything on track 0 when tracks are merged on either side; otherwise the number
    # the items carry when the exporter is called (one file track per number, so numbers 0..n-1 -- what a
    # Performance always has -- come back as they are; other numbers of a PerformedPart / list by rank)
    numbers = sorted(set(tmap.values()))
    want = {g: (0 if merged else numbers.index(tmap[g])) for g in G}
    for g in sorted(G, key=lambda g: (want[g], str(g))):
        gname = "all tracks" if merged else ("part %d track %d" % g if case["kind"] == "perf" else "track %d" % g[0])
        bad += group_failures(G[g], T.get(want[g], EMPTY), gname, want[g])
    for t in sorted(T):
        if t not in want.values():
            bad.append("items with track number %d after save->load; expected track numbers %s" % (t, sorted(set(want.values()))))
    return bad + oracle_ids(obs)


def canon(obs):
    """the observed items of every part, as sorted lists (ticks, not seconds)"""
    return [dict(notes=sorted((n["pitch"], n["vel"], n["ch"], n["track"], n["on_tick"], n["off_tick"]) for n in p["notes"]),
                 ctrls=sorted((c["number"], c["value"], c["ch"], c["track"], c["tick"]) for c in p["ctrls"]),
                 progs=sorted((x["program"], x["ch"], x["track"], x["tick"]) for x in p["progs"]),
                 keys=sorted((x["fifths"], x["mode"], x["track"], x["tick"]) for x in p["keys"]),
                 tsigs=sorted((x["beats"], x["beat_type"], x["track"], x["tick"]) for x in p["tsigs"]),
                 metas=sorted((x["key"], x["track"], x["tick"]) for x in p["metas"] if x["type"] != "end_of_track"))
            for p in obs]


def saved_track_numbers(case, pps):
    """group (see expected_groups) -> the track number its items carry when the exporter is called.  For a
    Performance these are the numbers its constructor gave (sanitize_track_numbers); whatever they are, the
    notes, controls and programs of one (part, track) must have got one number and different pairs
    different numbers."""
    merged = case["ms"] or case["ml"]
    tmap, bad = {}, []
    for k, (part, pp) in enumerate(zip(case["parts"], pps)):
        for name, built in (("notes", pp.notes), ("ctrls", pp.controls), ("progs", pp.programs)):
            for x, y in zip(part[name], built):
                g = (k, x["track"]) if case["kind"] == "perf" else (x["track"],)
                tmap.setdefault(g, set()).add(int(y["track"]))
    inconsistent = {str(g): sorted(v) for g, v in tmap.items() if len(v) != 1}
    if inconsistent:
        bad.append("Performance(...) gave the notes / controls / programs of one (part, track) different track numbers: %s" % inconsistent)
    nums = [min(v) for v in tmap.values()]
    if len(set(nums)) != len(nums):
        bad.append("Performance(...) gave two (part, track) pairs the same track number: %s" % {str(g): sorted(v) for g, v in tmap.items()})
    out = {g: min(v) for g, v in tmap.items()}
    if merged:
        out = {0: 0}
    return out, bad


def run_perf_case(case, workdir=None):
    """-> (failures, extra) ; extra carries what the correspondence needs"""
    from partitura.io.exportmidi import save_performance_midi
    from partitura.io.importmidi import load_performance_midi
    import partitura

    try:
        inp, pps = build_parts(case)
    except Exception as e:
        return ["building the performance raised %s: %s" % (type(e).__name__, e)], None
    tmap, bad = saved_track_numbers(case, pps)
    if bad:
        return bad, None
    try:
        mf = save_performance_midi(inp, None, mpq=case["mpq"], ppq=case["ppq"], merge_tracks_save=case["ms"])
    except Exception as e:
        return ["save_performance_midi(%s input, merge_tracks_save=%s) raised %s: %s" % (case["kind"], case["ms"], type(e).__name__, e)], None
    if mf is None or mf.ticks_per_beat != case["ppq"]:
        return ["save_performance_midi(out=None) returned %r" % (mf,)], None
    try:
        src = mf
        if case.get("file") and workdir:
            path = os.path.join(workdir, "rt.mid")
            if case.get("file") == "object":  # a file-like object instead of a file name
                import io
                buf = io.BytesIO()
                r = save_performance_midi(inp, buf, mpq=case["mpq"], ppq=case["ppq"], merge_tracks_save=case["ms"])
                with open(path, "wb") as f:
                    f.write(buf.getvalue())
            else:
                r = save_performance_midi(inp, path, mpq=case["mpq"], ppq=case["ppq"], merge_tracks_save=case["ms"])
            if r is not None:
                return ["save_performance_midi(out=<file>) returned %r instead of None" % (r,)], None
            src = path
        if src is not mf and case.get("via_load_performance"):
            perf = partitura.load_performance(src, merge_tracks=case["ml"])
        else:
            perf = load_performance_midi(src, merge_tracks=case["ml"])
    except Exception as e:
        return ["loading the saved file raised %s: %s" % (type(e).__name__, e)], None
    obs = observe_perf(perf)
    bad = oracle_roundtrip(case, obs, tmap)
    if not bad and case.get("again"):
        # second leg: the loaded Performance is a performance like any other (its times are on ticks
        # already): saving and loading it once more has to return the same items
        try:
            mf2 = save_performance_midi(perf, None, mpq=case["mpq"], ppq=case["ppq"], merge_tracks_save=False)
            obs2 = observe_perf(load_performance_midi(mf2, merge_tracks=False))
        except Exception as e:
            return ["saving / loading the loaded performance again raised %s: %s" % (type(e).__name__, e)], None
        a, b = canon(obs), canon(obs2)
        for k in range(min(len(a), len(b))):
            # a loaded part without program changes may get the exporter's default program 0 on its channels
            extra = list(b[k]["progs"])
            for x in a[k]["progs"]:
                if x in extra:
                    extra.remove(x)
            chans = {n[2] for n in a[k]["notes"]} | {c[2] for c in a[k]["ctrls"]}
            if not a[k]["progs"] and all(x[0] == 0 and x[1] in chans for x in extra):
                b[k]["progs"] = a[k]["progs"]
        if a != b:
            diff = [(k, name) for k in range(max(len(a), len(b))) for name in sorted(WHAT)
                    if k >= len(a) or k >= len(b) or a[k][name] != b[k][name]]
            k, name = diff[0]
            bad.append("second save->load of the loaded performance changes the %s of part %d: %s -> %s"
                       % (WHAT[name], k, a[k][name][:4] if k < len(a) else None, b[k][name][:4] if k < len(b) else None))
    return bad, (pps, mf, obs)


# ----------------------------------------------------------------------------
# (b) hand-built MIDI files


def gen_midi(rng):
    """a well-formed file as a list of tracks of (delta, spec) with spec a tuple"""
    ppq = rng.choice([480, 96, 1000, 1, 384, 24, 960])
    ntr = rng.choice([1, 2, 2, 3, 4])
    merge = rng.random() < 0.3
    chans = rng.sample(range(16), 2)
    pitches = rng.sample(range(128), 4)
    if rng.random() < 0.35:
        chans, pitches = edge_keys(rng)
    keys = [(c, p) for c in chans for p in pitches]
    tracks = []
    tempo_mode = rng.choice(["none", "first", "any", "any", "any", "later_only"])
    for i in range(ntr):
        evs = []
        sounding = {}
        # with merging, a (channel, pitch) belongs to one track only (the proviso of C06 then holds in the merged track)
        mykeys = [k for j, k in enumerate(keys) if j % ntr == i] if merge else keys
        for _ in range(rng.choice([0, 2, 5, 10, 20])):
            d = rng.choice([0, 0, 0, 1, 1, 7, 60, 240, 1000])
            r = rng.random()
            tempo_ok = tempo_mode == "any" or (tempo_mode == "first" and i == 0) or (tempo_mode == "later_only" and i > 0)
            if r < 0.22 and tempo_ok:
                evs.append((d, ("tempo", rng.choice(TEMPI) if rng.random() < 0.8 else rng.randint(1, 3000000))))
            elif r < 0.55 and mykeys:
                free = [k for k in mykeys if k not in sounding]
                if free and (not sounding or rng.random() < 0.6):
                    k = rng.choice(free)
                    sounding[k] = True
                    evs.append((d, ("on", k[0], k[1], rng.randint(1, 127))))
                else:
                    k = rng.choice(sorted(sounding))
                    del sounding[k]
                    evs.append((d, ("on", k[0], k[1], 0) if rng.random() < 0.4 else ("off", k[0], k[1], rng.randint(0, 127))))
            elif r < 0.6 and mykeys:
                k = rng.choice(mykeys)
                if k not in sounding:  # stray note-off: ignored by the loader
                    evs.append((d, ("off", k[0], k[1], 0)))
            elif r < 0.72:
                evs.append((d, ("cc", rng.choice(chans), rng.choice([64, 64, 67, rng.randint(0, 127)]), rng.randint(0, 127))))
            elif r < 0.78:
                evs.append((d, ("pc", rng.choice(chans), rng.randint(0, 127))))
            elif r < 0.83:
                evs.append((d, ("key", rng.randrange(len(KEYNAMES)))))
            elif r < 0.88:
                evs.append((d, ("tsig", rng.randint(1, 12), rng.choice([1, 2, 4, 8, 16]))))
            elif r < 0.94:
                if rng.random() < 0.6:
                    evs.append((d, ("text", rng.choice(["text", "marker", "lyrics"]), "t%d" % rng.randint(0, 3))))
                else:  # other kinds of meta events, with other attributes
                    ty, field, val = rng.choice([("track_name", "name", "n%d" % rng.randint(0, 3)), ("instrument_name", "name", "i%d" % rng.randint(0, 3)),
                                                 ("midi_port", "port", rng.randint(0, 15)), ("channel_prefix", "channel", rng.randint(0, 15)),
                                                 ("sequence_number", "number", rng.randint(0, 1000)), ("copyright", "text", "c")])
                    evs.append((d, ("meta", ty, field, val)))
            else:
                evs.append((d, ("bend", rng.choice(chans), rng.randint(-100, 100))))
        for k in sorted(sounding):
            if rng.random() < 0.85:  # a few notes are never closed (dropped by the loader)
                evs.append((rng.choice([0, 1, 30]), ("off", k[0], k[1], 0)))
        if rng.random() < 0.5:
            evs.append((0, ("eot",)))
        tracks.append(evs)
    # the tempo in force before the first set_tempo: default_bpm (values whose microseconds per quarter are whole)
    bpm = rng.choice([120] * 6 + BPMS)
    return dict(ppq=ppq, merge=merge, tracks=tracks, bpm=bpm)


def default_mpq(case):
    return F(60 * 10 ** 6) / F(case.get("bpm", 120))


def build_midi(case):
    import mido

    mf = mido.MidiFile(type=1 if len(case["tracks"]) > 1 else 0, ticks_per_beat=case["ppq"])
    for evs in case["tracks"]:
        tr = mido.MidiTrack()
        for d, s in evs:
            s = tuple(s)
            k = s[0]
            if k == "tempo":
                tr.append(mido.MetaMessage("set_tempo", tempo=s[1], time=d))
            elif k == "on":
                tr.append(mido.Message("note_on", channel=s[1], note=s[2], velocity=s[3], time=d))
            elif k == "off":
                tr.append(mido.Message("note_off", channel=s[1], note=s[2], velocity=s[3], time=d))
            elif k == "cc":
                tr.append(mido.Message("control_change", channel=s[1], control=s[2], value=s[3], time=d))
            elif k == "pc":
                tr.append(mido.Message("program_change", channel=s[1], program=s[2], time=d))
            elif k == "key":
                tr.append(mido.MetaMessage("key_signature", key=KEYNAMES[s[1]], time=d))
            elif k == "tsig":
                tr.append(mido.MetaMessage("time_signature", numerator=s[1], denominator=s[2], time=d))
            elif k == "text":
                tr.append(mido.MetaMessage(s[1], text=s[2], time=d))
            elif k == "meta":
                tr.append(mido.MetaMessage(s[1], time=d, **{s[2]: s[3]}))
            elif k == "bend":
                tr.append(mido.Message("pitchwheel", channel=s[1], pitch=s[2], time=d))
            elif k == "eot":
                tr.append(mido.MetaMessage("end_of_track", time=d))
        mf.tracks.append(tr)
    return mf


def oracle_midi(case, obs):
    """Direct reading of the property: every note-on pairs with the next note-off / zero-velocity
    note-on of its channel and pitch; ticks -> seconds integrates every tempo change in tick order."""
    ppq = case["ppq"]
    bad = []
    tracks = []
    for i, evs in enumerate(case["tracks"]):
        t = 0
        out = []
        for j, (d, s) in enumerate(evs):
            t += d
            out.append((t, i, j, tuple(s)))
        tracks.append(out)
    tempi = sorted([(t, i, j, s[1]) for tr in tracks for (t, i, j, s) in tr if s[0] == "tempo"])
    steps = [(0, default_mpq(case))] + [(t, m) for t, _, _, m in tempi]

    def sec(tick):
        total = F(0)
        for n, (t0, m) in enumerate(steps):
            t1 = steps[n + 1][0] if n + 1 < len(steps) else None
            if tick <= t0:
                break
            hi = tick if t1 is None else min(tick, t1)
            total += F(hi - t0) * m / (10 ** 6 * ppq)
        return total

    if case["merge"]:
        allev = sorted([e for tr in tracks for e in tr if e[3][0] != "eot"], key=lambda e: e[0])  # stable: track order, then position
        streams = [(0, allev)]
    else:
        streams = list(enumerate(tracks))
    exp_parts = []
    for i, evs in streams:
        notes = []
        for a, (t, _, _, s) in enumerate(evs):
            if s[0] == "on" and s[3] > 0:
                for (t2, _, _, s2) in evs[a + 1:]:
                    if s2[0] in ("on", "off") and s2[1:3] == s[1:3]:
                        if s2[0] == "off" or s2[3] == 0:
                            notes.append((t, s[2], t2, s[1], s[3]))
                        break
        ctrls = [(t, s[2], s[3], s[1]) for (t, _, _, s) in evs if s[0] == "cc"]
        progs = [(t, s[2], s[1]) for (t, _, _, s) in evs if s[0] == "pc"]
        if notes or ctrls or progs:  # a track with none of these gives no performed part
            exp_parts.append(dict(file_track=i, notes=sorted(notes), ctrls=sorted(ctrls), progs=sorted(progs),
                                  keys=sorted((t, KEYNAMES[s[1]]) for (t, _, _, s) in evs if s[0] == "key"),
                                  tsigs=sorted((t, s[1], s[2]) for (t, _, _, s) in evs if s[0] == "tsig"),
                                  metas=sorted([(t, s[1], "text", str(s[2])) for (t, _, _, s) in evs if s[0] == "text"]
                                               + [(t, s[1], s[2], str(s[3])) for (t, _, _, s) in evs if s[0] == "meta"])))
    if len(exp_parts) != len(obs):
        return ["%d performed parts loaded, the file has %d tracks with notes, controls or programs (tracks %s)"
                % (len(obs), len(exp_parts), [p["file_track"] for p in exp_parts])]
    for k, (e, o) in enumerate(zip(exp_parts, obs)):
        got = [(n["on_tick"], n["pitch"], n["off_tick"], n["ch"], n["vel"]) for n in o["notes"]]
        if sorted(got) != e["notes"]:
            bad.append("track %d: notes (on tick, pitch, off tick, channel, velocity) %s, pairing by definition gives %s"
                       % (e["file_track"], [x for x in sorted(got) if x not in e["notes"]][:3], [x for x in e["notes"] if x not in got][:3]))
        for n in o["notes"]:
            for a, b in ((n["on"], n["on_tick"]), (n["off"], n["off_tick"])):
                if abs(F(a) - sec(b)) > REL * max(1, sec(b)):
                    bad.append("track %d: tick %d loaded as %r s; integrating the tempo changes in tick order gives %r s" % (e["file_track"], b, a, float(sec(b))))
                    break
        if sorted((c["tick"], c["number"], c["value"], c["ch"]) for c in o["ctrls"]) != e["ctrls"]:
            bad.append("track %d: control changes differ" % e["file_track"])
        for c in o["ctrls"] + o["progs"] + o["keys"] + o["tsigs"] + o["metas"]:
            if abs(F(c["t"]) - sec(c["tick"])) > REL * max(1, sec(c["tick"])):
                bad.append("track %d: event at tick %d loaded as %r s, expected %r s" % (e["file_track"], c["tick"], c["t"], float(sec(c["tick"]))))
                break
        if sorted((c["tick"], c["program"], c["ch"]) for c in o["progs"]) != e["progs"]:
            bad.append("track %d: program changes differ" % e["file_track"])
        if sorted((c["tick"], c["name"]) for c in o["keys"]) != e["keys"]:
            bad.append("track %d: key signatures differ" % e["file_track"])
        if sorted((c["tick"], c["beats"], c["beat_type"]) for c in o["tsigs"]) != e["tsigs"]:
            bad.append("track %d: time signatures differ" % e["file_track"])
        if sorted((m["tick"], m["type"]) + tuple(x for kv in m["key"] if kv[0] != "type" for x in kv) for m in o["metas"] if m["type"] != "end_of_track") != e["metas"]:
            bad.append("track %d: other meta events differ" % e["file_track"])
    # track numbers: one per part (everything read from one file track carries the same number, parts differ)
    nums = [sorted({x["track"] for name in ("notes", "ctrls", "progs") for x in o[name]}) for o in obs]
    if any(len(x) != 1 for x in nums) or len({x[0] for x in nums if x}) != len(nums):
        bad.append("track numbers of the notes / controls / programs of the loaded parts: %s (want one number per part, all different)" % nums)
    return bad + oracle_ids(obs)


def run_midi_case(case):
    from partitura.io.importmidi import load_performance_midi

    mf = build_midi(case)
    try:
        perf = load_performance_midi(mf, default_bpm=case.get("bpm", 120), merge_tracks=case["merge"])
    except Exception as e:
        return ["load_performance_midi raised %s: %s" % (type(e).__name__, e)], None
    obs = observe_perf(perf)
    return oracle_midi(case, obs), (mf, obs)


def term_load(case, mf, obs, intern):
    def c_meta(m):
        if m["type"] == "end_of_track":
            return "EndOfTrack"
        return "(Meta %s)" % cz(intern(m["key"]))

    parts = []
    for p in obs:
        notes = clist([ctuple([cz(n["pitch"]), cz(n["vel"]), cz(n["ch"]), cz(n["on_tick"]), cz(n["off_tick"]),
                               core.cfloat_q(n["on"]), core.cfloat_q(n["off"])]) for n in id_order(p["notes"])])
        ctrls = clist([ctuple([cz(c["tick"]), "(CC %s %s %s)" % (cz(c["ch"]), cz(c["number"]), cz(c["value"])), core.cfloat_q(c["t"])]) for c in p["ctrls"]])
        progs = clist([ctuple([cz(c["tick"]), "(PC %s %s)" % (cz(c["ch"]), cz(c["program"])), core.cfloat_q(c["t"])]) for c in p["progs"]])
        keys = clist([ctuple([cz(c["tick"]), "(KeySig %s)" % cz(KEYNAMES.index(c["name"]))]) for c in p["keys"]])
        tsigs = clist([ctuple([cz(c["tick"]), "(TimeSig %s %s)" % (cz(c["beats"]), cz(c["beat_type"]))]) for c in p["tsigs"]])
        metas = clist([ctuple([cz(m["tick"]), c_meta(m)]) for m in p["metas"]])
        parts.append(ctuple([notes, ctrls, progs, keys, tsigs, metas]))
    tracks = clist([c_track(t, intern) for t in mf.tracks])
    return ctuple([cz(case["ppq"]), cz(int(default_mpq(case))), cbool(case["merge"]), tracks, clist(parts)])


# ----------------------------------------------------------------------------
# (d) Performance(...) renumbers the tracks (sanitize_track_numbers)


def gen_sanitize(rng):
    """1-4 parts; track numbers shared between parts, non-contiguous, large; controls / programs on tracks
    without notes and without a track at all (counted as track -1 by the renumbering)"""
    parts = []
    for _ in range(rng.choice([1, 2, 2, 3, 4])):
        pool = rng.choice([[0], [0, 1], [1], [0, 2], [3, 5], [0, 1, 2], [7, 0], [127, 2, 10]])
        other = pool + [rng.randint(0, 20), None, None]
        parts.append(dict(notes=[rng.choice(pool) for _ in range(rng.choice([0, 1, 2, 4]))],
                          ctrls=[rng.choice(other) for _ in range(rng.choice([0, 0, 1, 3]))],
                          progs=[rng.choice(other) for _ in range(rng.choice([0, 0, 1, 2]))]))
    if not any(p["notes"] or p["ctrls"] or p["progs"] for p in parts):
        parts[0]["notes"] = [0]
    return dict(parts=parts, twice=rng.random() < 0.5)


def run_sanitize_case(case):
    """-> (failures, (original numbers, observed numbers) per part)"""
    import partitura.performance as P

    def opt(d, tr):
        if tr is not None:
            d["track"] = tr
        return d

    pps = []
    for part in case["parts"]:
        notes = [dict(id="x%d" % i, midi_pitch=60 + i % 12, note_on=float(i), note_off=float(i) + 0.5, velocity=64, channel=0, track=tr)
                 for i, tr in enumerate(part["notes"])]
        pps.append(P.PerformedPart(notes, controls=[opt(dict(number=64, value=i, time=0.0, channel=0), tr) for i, tr in enumerate(part["ctrls"])],
                                   programs=[opt(dict(program=i, time=0.0, channel=0), tr) for i, tr in enumerate(part["progs"])]))
    try:
        perf = P.Performance(pps)
        if case.get("twice"):
            perf = P.Performance(list(perf.performedparts))
    except Exception as e:
        return ["Performance(...) raised %s: %s" % (type(e).__name__, e)], None
    orig = [(list(p["notes"]), [-1 if t is None else t for t in p["ctrls"]], [-1 if t is None else t for t in p["progs"]]) for p in case["parts"]]
    try:
        obs = [([int(n["track"]) for n in pp.notes], [int(c["track"]) for c in pp.controls], [int(c["track"]) for c in pp.programs])
               for pp in perf.performedparts]
    except Exception as e:
        return ["an item has no track number after Performance(...): %s: %s" % (type(e).__name__, e)], None
    bad = []
    if [tuple(len(x) for x in o) for o in obs] != [tuple(len(x) for x in o) for o in orig]:
        return ["Performance(...) changed the number of parts / notes / controls / programs"], None
    # a control / program without a track number: C06 does not say which track it belongs to; it is left out
    num = {}
    for k, (o, n) in enumerate(zip(orig, obs)):
        for a, b in zip(o, n):
            for t, u in zip(a, b):
                if t != -1:
                    num.setdefault((k, t), set()).add(u)
    split = {str(g): sorted(v) for g, v in sorted(num.items()) if len(v) != 1}
    if split:
        bad.append("Performance(...) gave the notes / controls / programs of one (part, track) different track numbers: %s" % split)
    else:
        vals = [min(v) for v in num.values()]
        if len(set(vals)) != len(vals):
            bad.append("Performance(...) gave two (part, track) pairs the same track number: %s" % {str(g): min(v) for g, v in sorted(num.items())})
    keep = [tuple([j for j, t in enumerate(a) if t != -1] for a in o) for o in orig]
    sub = lambda parts: [tuple([a[j] for j in js] for a, js in zip(o, ks)) for o, ks in zip(parts, keep)]
    return bad, (orig, obs, sub(orig), sub(obs))


def c_ptracks(parts):
    return clist([ctuple([clist([cz(t) for t in n]), clist([cz(t) for t in c]), clist([cz(t) for t in g])]) for n, c, g in parts])


# ----------------------------------------------------------------------------
# (e) load_performance: format dispatch, options handed on, first_note_at_zero


def gen_dispatch(rng):
    case = gen_midi(rng)
    case["fz"] = rng.random() < 0.6
    if case["fz"] and rng.random() < 0.7:  # silence in front of the first note of every track
        d = rng.choice([1, 240, 1000, 5000])
        case["tracks"] = [[(d, ("text", "text", "lead-in"))] + list(tr) for tr in case["tracks"]]
    return case


def run_dispatch_case(case, workdir):
    """load_performance(file, ...) against load_performance_midi(file, ...) -> (failures, extra for Coq)"""
    import partitura
    from partitura.io.importmidi import load_performance_midi

    path = os.path.join(workdir, "dispatch.mid")
    build_midi(case).save(path)
    kw = dict(default_bpm=case.get("bpm", 120), merge_tracks=case["merge"])
    try:
        ref = load_performance_midi(path, **kw)
    except Exception as e:
        return ["load_performance_midi(file) raised %s: %s" % (type(e).__name__, e)], None
    A = observe_perf(ref)
    # the file on disk holds what the MidiFile object holds (mido's writer / reader in between)
    bad = ["file: " + b for b in oracle_midi(case, A)]
    try:
        got = partitura.load_performance(path, first_note_at_zero=case["fz"], **kw)
    except Exception as e:
        return bad + ["load_performance(file, first_note_at_zero=%s) raised %s: %s" % (case["fz"], type(e).__name__, e)], None
    if not case["fz"] or not A or not A[0]["notes"]:
        try:
            B = observe_perf(got)
        except Exception as e:
            B = "%s: %s" % (type(e).__name__, e)
        if B != A:
            bad.append("load_performance(file, default_bpm=%s, merge_tracks=%s) differs from load_performance_midi with the same options"
                       % (kw["default_bpm"], kw["merge_tracks"]))
        return bad, None
    # first_note_at_zero: the first part is moved so that its earliest onset is 0
    try:
        p0 = got.performedparts[0]
        notes = [(int(n["midi_pitch"]), int(n["velocity"]), int(n["channel"]), int(n["track"]), float(n["note_on"]), float(n["note_off"])) for n in p0.notes]
        progs = [(int(x["program"]), int(x["channel"]), int(x["track"]), float(x["time"])) for x in p0.programs]
        ctrls = [(int(x["number"]), int(x["value"]), int(x["channel"]), int(x["track"]), float(x["time"])) for x in p0.controls]
        others = type("Parts", (), {})()
        others.performedparts = list(got.performedparts)[1:]
        rest_parts = canon(observe_perf(others))
    except Exception as e:
        return bad + ["the performance cannot be read after first_note_at_zero: %s: %s" % (type(e).__name__, e)], None
    a0 = A[0]
    start = min(F(n["on"]) for n in a0["notes"])

    def close(x, y):
        return abs(F(x) - y) <= REL * max(1, abs(y))

    want = sorted((n["pitch"], n["vel"], n["ch"], n["track"], F(n["on"]) - start, F(n["off"]) - start) for n in a0["notes"])
    have = sorted(notes)
    if len(want) != len(have) or any(w[:4] != h[:4] or not close(h[4], w[4]) or not close(h[5], w[5]) for w, h in zip(want, have)):
        bad.append("first_note_at_zero: notes (pitch, velocity, channel, track, on, off) %s; expected the loaded notes moved by the earliest onset %s s: %s"
                   % (have[:3], float(start), [w[:4] + (float(w[4]), float(w[5])) for w in want][:3]))
    elif min(h[4] for h in have) != 0:
        bad.append("first_note_at_zero: the earliest onset is %r, not 0" % min(h[4] for h in have))
    wantp = sorted((x["program"], x["ch"], x["track"], max(F(x["t"]) - start, 0)) for x in a0["progs"])
    havep = sorted(progs)
    if len(wantp) != len(havep) or any(w[:3] != h[:3] or not close(h[3], w[3]) for w, h in zip(wantp, havep)):
        bad.append("first_note_at_zero: program changes %s; expected %s" % (havep[:3], [w[:3] + (float(w[3]),) for w in wantp][:3]))
    # controls: every control not before the first onset keeps number, channel, track and moves with the notes; its value is
    # kept when no other control of its (track, channel, number) shares its time (they are re-sampled per controller)
    cnt = {}
    for x in a0["ctrls"]:
        key = (x["track"], x["ch"], x["number"], x["t"])
        cnt[key] = cnt.get(key, 0) + 1
    rest = list(ctrls)
    for x in a0["ctrls"]:
        if F(x["t"]) < start:
            continue
        uniq = cnt[(x["track"], x["ch"], x["number"], x["t"])] == 1
        hit = [c for c in rest if c[0] == x["number"] and c[2] == x["ch"] and c[3] == x["track"] and close(c[4], F(x["t"]) - start)
               and (c[1] == x["value"] or not uniq)]
        if not hit:
            bad.append("first_note_at_zero: control (number %d, value %d, channel %d, track %d) at %r s not found at %r s"
                       % (x["number"], x["value"], x["ch"], x["track"], x["t"], float(F(x["t"]) - start)))
            break
        rest.remove(hit[0])
    else:
        if any(c[4] != 0 for c in rest):
            bad.append("first_note_at_zero: additional controls not at time 0: %s" % [c for c in rest if c[4] != 0][:3])
    if rest_parts != canon(A[1:]):
        bad.append("first_note_at_zero changed a part other than the first")
    extra = None
    if [h[:4] for h in notes] == [(n["pitch"], n["vel"], n["ch"], n["track"]) for n in a0["notes"]] and len(progs) == len(a0["progs"]):
        extra = ([(n["on"], n["off"]) for n in a0["notes"]], [x["t"] for x in a0["progs"]], [(h[4], h[5]) for h in notes], [h[3] for h in progs])
    return bad, extra


# ----------------------------------------------------------------------------
# (f) the conversions themselves: seconds_to_midi_ticks, midi_ticks_to_seconds, adjust_time


def run_converters(rng, n):
    """-> (failures [(text, replay)], conv terms, adjust terms)"""
    import numpy as np
    from partitura.utils.music import seconds_to_midi_ticks, midi_ticks_to_seconds
    from partitura.io.importmidi import adjust_time

    bad, conv, adj = [], [], []
    for i in range(n):
        ppq, mpq = rng.choice(PAIRS) if rng.random() < 0.7 else (rng.randint(1, 2000), rng.randint(1000, 2 * 10 ** 6))
        r = rng.random()
        if r < 0.4:
            t = rng.randint(0, 30 * 128) / 128.0
        elif r < 0.6:
            den = F(mpq, 10 ** 6 * ppq).denominator
            t = (rng.randint(0, 2000) + rng.choice([0, 0.5, 0.25])) * mpq / (1e6 * ppq) if den & (den - 1) == 0 else rng.randint(0, 999) / 8.0
        else:
            t = rng.random() * rng.choice([1, 100, 5000])
        kind = rng.choice(["float", "float", "f4", "f8", "array4", "array8", "int"])
        if kind in ("f4", "array4"):
            t = float(np.float32(t))
        if kind == "int":
            t = float(int(t))
        want, comparable = tick_exact(ppq, mpq, t)
        k = rng.choice([0, 1, rng.randint(0, 10 ** 4), rng.randint(0, 10 ** 7)])
        kkind = rng.choice(["int", "i4", "i8", "array4", "array8"])
        rep = dict(kind="conv", ppq=ppq, mpq=mpq, t=t, tkind=kind, k=k, kkind=kkind)
        if comparable:
            arg = {"float": t, "f4": np.float32(t), "f8": np.float64(t), "int": int(t),
                   "array4": np.array([t, 0.0], dtype="f4"), "array8": np.array([t, 0.0], dtype="f8")}[kind]
            karg = {"int": k, "i4": np.int32(k), "i8": np.int64(k), "array4": np.array([k, 0], dtype="i4"), "array8": np.array([k, 0], dtype="i8")}[kkind]
            try:
                got = seconds_to_midi_ticks(arg, mpq=mpq, ppq=ppq)
                got = int(got[0]) if kind.startswith("array") else int(got)
                sec = midi_ticks_to_seconds(karg, mpq=mpq, ppq=ppq)
                sec = float(sec[0]) if kkind.startswith("array") else float(sec)
            except Exception as e:
                bad.append(("seconds_to_midi_ticks / midi_ticks_to_seconds raised %s: %s" % (type(e).__name__, e), rep))
                continue
            if got not in tick_cands(ppq, mpq, t):
                bad.append(("seconds_to_midi_ticks(%r as %s, mpq=%d, ppq=%d) = %d, the nearest tick is %d" % (t, kind, mpq, ppq, got, want), rep))
            exact = F(k) * mpq / (10 ** 6 * ppq)
            if abs(F(sec) - exact) > REL * max(1, exact):
                bad.append(("midi_ticks_to_seconds(%d as %s, mpq=%d, ppq=%d) = %r, expected %r" % (k, kkind, mpq, ppq, sec, float(exact)), rep))
            if got == want:  # an exact half may be rounded either way; the model's rule 0 is half to even
                conv.append(ctuple([cz(ppq), cz(mpq), core.cfloat_q(t), cz(got), cz(k), core.cfloat_q(sec)]))
        # adjust_time on a tick-ordered tempo list (equal ticks, repeated values)
        tc = [(0, rng.choice(TEMPI))]
        for _ in range(rng.choice([0, 1, 2, 5])):
            tc.append((tc[-1][0] + rng.choice([0, 0, 1, 60, 480, 5000]), rng.choice(TEMPI) if rng.random() < 0.8 else rng.randint(1, 3000000)))
        ticks = [rng.choice([0, tc[-1][0], rng.choice(tc)[0], rng.randint(0, 20000)]) for _ in range(3)]
        rep = dict(kind="adjust", ppq=ppq, tc=tc, ticks=ticks)
        try:
            obs = [(tk, float(adjust_time(tk, list(tc), ppq))) for tk in ticks]
        except Exception as e:
            bad.append(("adjust_time raised %s: %s" % (type(e).__name__, e), rep))
            continue
        for tk, o in obs:
            total = F(0)
            for j, (t0, m) in enumerate(tc):
                nxt = tc[j + 1][0] if j + 1 < len(tc) else None
                if tk > t0:
                    total += F((tk if nxt is None else min(tk, nxt)) - t0) * m / (10 ** 6 * ppq)
            if abs(F(o) - total) > REL * max(1, total):
                bad.append(("adjust_time(%d, %s, %d) = %r; the integral of the tempo steps is %r" % (tk, tc, ppq, o, float(total)), dict(rep, ticks=[tk])))
        adj.append(ctuple([cz(ppq), clist([ctuple([cz(a), cz(b)]) for a, b in tc]), clist([ctuple([cz(a), core.cfloat_q(b)]) for a, b in obs])]))
    return bad, conv, adj


# ----------------------------------------------------------------------------
# (h) histories: state carried between calls.  A world of live objects -- performed parts, the caller's list
# of them, a Performance made from that list, MIDI files (a mido object and a file on disk), the results
# returned so far -- is driven through a sequence of calls and edits; next to it the harness keeps the
# abstract state (plain data) the edits add up to.  Every observation is judged against the CURRENT
# abstract state only: by the property's words (the one-shot oracles) and against the same call on
# freshly built objects holding the current state.


H_NUMS = ["py"] * 6 + ["f4", "f8", "int", "i4", "i8"]
H_PART_KEYS = ("notes", "ctrls", "progs", "keys", "tsigs", "metas")


def h_q(v, num):
    """the time v as a scalar of kind `num` holds it"""
    import numpy as np

    if num == "f4":
        return float(np.float32(v))
    if num in ("int", "i4", "i8"):
        return float(int(v))
    return float(v)


class HGen:
    """state-independent generator of histories: indices are reduced modulo what exists when the step runs"""

    def __init__(self, rng):
        self.rng = rng
        self.pitch = rng.randint(0, 127)

    def fresh_pitch(self):
        self.pitch = (self.pitch + 1) % 128  # every note of a history gets another pitch: no two notes overlap
        return self.pitch

    def time(self, num):
        rng = self.rng
        if num in ("int", "i4", "i8"):
            return float(rng.randint(0, 20))
        return h_q(rng.randint(0, 160) / 16.0, num)

    def note(self, num, pool, chans):
        rng = self.rng
        on = self.time(num)
        off = h_q(on + rng.choice([0, 0, 1, 2, rng.randint(0, 48) / 16.0]), num)
        return dict(midi_pitch=self.fresh_pitch(), note_on=on, note_off=max(on, off), velocity=rng.randint(1, 127), channel=rng.choice(chans), track=rng.choice(pool))

    def ctrl(self, num, pool, chans):
        rng = self.rng
        return dict(number=rng.choice([64, 64, 67, rng.randint(0, 127)]), value=rng.randint(0, 127), time=self.time(num), channel=rng.choice(chans), track=rng.choice(pool))

    def prog(self, num, pool, chans):
        return dict(program=self.rng.randint(0, 127), time=self.time(num), channel=self.rng.choice(chans), track=self.rng.choice(pool))

    def part(self):
        rng = self.rng
        num = rng.choice(H_NUMS)
        pool = rng.choice([[0], [0], [0, 1], [1], [0, 2], [3, 5]])
        chans = rng.sample(range(16), rng.choice([1, 2]))
        notes = [self.note(num, pool, chans) for _ in range(rng.choice([1, 1, 2, 3, 4]))]
        ntr = sorted({n["track"] for n in notes})
        part = dict(num=num, notes=notes,
                    ctrls=[self.ctrl(num, pool, chans) for _ in range(rng.choice([0, 0, 1, 2, 3]))],
                    progs=[self.prog(num, pool, chans) for _ in range(rng.choice([0, 0, 0, 1]))],
                    keys=[dict(time=self.time(num), fifths=rng.randint(-7, 7), mode=rng.choice(["major", "minor"]), track=rng.choice(ntr)) for _ in range(rng.choice([0, 0, 1]))],
                    tsigs=[dict(time=self.time(num), beats=rng.randint(1, 12), beat_type=rng.choice([2, 4, 8]), track=rng.choice(ntr)) for _ in range(rng.choice([0, 0, 1]))],
                    metas=[dict(type="text", text="m%d" % rng.randint(0, 5), time=self.time(num), track=rng.choice(ntr)) for _ in range(rng.choice([0, 0, 1]))])
        if rng.random() < 0.3:
            part["ppq"], part["mpq"] = rng.choice(PAIRS)
        h_fix_sig_tracks(part)
        return part

    def res(self):
        rng = self.rng
        r = rng.random()
        if r < 0.5:
            return rng.choice(PAIRS)
        if r < 0.8:  # the same ppq with another mpq and the other way round: what a table keyed by one of them confuses
            return rng.choice([(480, 250000), (480, 600000), (480, 1000000), (96, 500000), (960, 500000), (384, 500000), (1000, 500000)])
        return (rng.randint(1, 2000), rng.randint(1000, 2 * 10 ** 6))

    def save(self):
        rng = self.rng
        ppq, mpq = self.res()
        return dict(op="save", via=rng.choice(["perf", "perf", "lst", "lst", "part"]), k=rng.randint(0, 5), ppq=ppq, mpq=mpq, ms=rng.random() < 0.25,
                    out=rng.choice(["none"] * 6 + ["path", "buf"]), fresh_first=rng.random() < 0.5)

    def edit(self):
        rng = self.rng
        k, i = rng.randint(0, 5), rng.randint(0, 11)
        what = rng.choice(["shift", "shift", "times", "velocity", "channel", "track", "pitch", "add_note", "del_note", "ctrl_value", "ctrl_time", "ctrl_track",
                           "add_ctrl", "del_ctrl", "rebind_ctrls", "add_prog", "clear_progs", "res", "ticks"])
        op = dict(op="edit", k=k, i=i, what=what)
        if what == "shift":
            op["d"] = rng.choice([1.0, 0.5, 2.25, 10.0, 3.0])
        elif what in ("times", "ctrl_time"):
            op["on"] = rng.randint(0, 160) / 16.0
            op["len"] = rng.choice([0, 0.5, 1, 2.0625])
        elif what in ("velocity", "ctrl_value"):
            op["v"] = rng.randint(1, 127)
        elif what == "channel":
            op["v"] = rng.randint(0, 15)
        elif what in ("track", "ctrl_track"):
            op["v"] = rng.choice([0, 1, 2, 4])
        elif what == "pitch":
            op["v"] = self.fresh_pitch()
        elif what == "add_note":
            op["note"] = self.note("py", [rng.choice([0, 1, 2])], [rng.randint(0, 15)])
        elif what == "add_ctrl":
            op["ctrl"] = self.ctrl("py", [rng.choice([0, 1, 2])], [rng.randint(0, 15)])
        elif what == "add_prog":
            op["prog"] = self.prog("py", [rng.choice([0, 1, 2])], [rng.randint(0, 15)])
        elif what == "clear_progs":
            op["rebind"] = rng.random() < 0.5
        elif what == "res":
            op["ppq"], op["mpq"] = self.res()
        elif what == "ticks":
            op["off"] = rng.choice([1, 7, 480])
        return op

    def export_op(self):
        rng = self.rng
        r = rng.random()
        if r < 0.34:
            return self.save()
        if r < 0.62:
            return self.edit()
        if r < 0.70:
            return dict(op="wrap", single=rng.random() < 0.5)
        if r < 0.75:
            return dict(op="sanitize")
        if r < 0.82:
            return dict(op="setitem", i=rng.randint(0, 3), part=self.part())
        if r < 0.90:
            return dict(op="list_edit", how=rng.choice(["append", "replace", "pop"]), i=rng.randint(0, 3), part=self.part())
        if r < 0.96:
            return dict(op="scribble_mf")
        return dict(op="note_array", k=rng.randint(0, 5))

    def conv_op(self):
        rng = self.rng
        ppq, mpq = self.res()
        f = rng.choice(["s2t", "s2t", "t2s", "t2s", "adjust"])
        if f == "s2t":
            kind = rng.choice(["float", "f4", "f8", "int", "i4", "array8", "array4", "arrayi", "zero_d", "zero_di", "one", "empty"])
            t = rng.randint(0, 30 * 128) / 128.0
            if kind in ("int", "i4", "arrayi", "zero_di"):
                t = float(int(t))
            return dict(op="conv", f=f, kind=kind, t=t, ppq=ppq, mpq=mpq)
        if f == "t2s":
            return dict(op="conv", f=f, kind=rng.choice(["int", "i4", "i8", "float", "array4", "array8", "zero_d", "one", "empty"]),
                        k=rng.choice([0, 1, rng.randint(0, 10 ** 4), rng.randint(0, 10 ** 7)]), ppq=ppq, mpq=mpq)
        tc = [(0, rng.choice(TEMPI))]
        for _ in range(rng.choice([0, 1, 2, 4])):
            tc.append((tc[-1][0] + rng.choice([0, 1, 60, 480, 5000]), rng.choice(TEMPI)))
        return dict(op="conv", f=f, tc=tc, ticks=[rng.choice([0, tc[-1][0], rng.randint(0, 20000)]) for _ in range(2)], ppq=ppq)

    def import_op(self):
        rng = self.rng
        r = rng.random()
        fid = rng.choice(["A", "A", "B"])
        if r < 0.45:
            return dict(op="load", fid=fid, bpm=rng.choice([120] * 3 + BPMS), via=rng.choice(["obj", "obj", "path", "lp"]), fresh_first=rng.random() < 0.5)
        if r < 0.70:
            how = rng.choice(["tempo", "tempo", "ppq", "drop", "replace"])
            op = dict(op="file_edit", fid=fid, how=how, i=rng.randint(0, 3), j=rng.randint(0, 30))
            if how == "tempo":
                op["v"] = rng.choice(TEMPI)
            elif how == "ppq":
                op["v"] = rng.choice([480, 96, 1000, 384, 24, 960])
            elif how == "replace":
                op["spec"] = gen_midi(rng)
            return op
        if r < 0.82:
            return dict(op="result_edit")
        return self.conv_op()

    def history(self):
        rng = self.rng
        flavour = rng.choice(["export", "export", "import"])
        init = dict(parts=[self.part() for _ in range(rng.choice([1, 2, 2, 3]))], wrap=rng.random() < 0.6, files=dict(A=gen_midi(rng), B=gen_midi(rng)))
        if flavour == "export" and rng.random() < 0.3:
            init["from_midi"] = dict(spec=gen_midi(rng), via=rng.choice(["midi", "lp"]))
        ops = []
        for _ in range(rng.choice([4, 6, 8, 12])):
            r = rng.random()
            if flavour == "export":
                ops.append(self.export_op() if r < 0.88 else self.import_op())
            else:
                ops.append(self.import_op() if r < 0.85 else self.export_op())
        if flavour == "export":
            ops.append(self.save())
        else:
            ops.append(dict(op="load", fid="A", bpm=rng.choice([120] + BPMS), via="obj", fresh_first=False))
        return dict(flavour=flavour, init=init, ops=ops)


def h_fix_sig_tracks(part):
    """signatures and other meta events sit on the track of a note of their part (a file track holding nothing else
    is not read back as a part): the j-th one on the track of the (j mod n)-th note.  -> changed?"""
    changed = False
    for name in ("keys", "tsigs", "metas"):
        for j, x in enumerate(part[name]):
            tr = part["notes"][j % len(part["notes"])]["track"]
            if x.get("track") != tr:
                x["track"] = tr
                changed = True
    return changed


def h_build(part):
    return build_parts(dict(parts=[part], kind="list", num=part.get("num", "py")))[1][0]


def h_view_live(pp):
    """the public fields of a performed part that C06 names, as plain data"""
    return dict(
        notes=[(int(n["midi_pitch"]), float(n["note_on"]), float(n["note_off"]), int(n["velocity"]), int(n["channel"]), int(n["track"])) for n in pp.notes],
        ctrls=[(int(c["number"]), int(c["value"]), float(c["time"]), int(c["channel"]), int(c["track"])) for c in pp.controls],
        progs=[(int(c["program"]), float(c["time"]), int(c["channel"]), int(c["track"])) for c in pp.programs],
        keys=[(float(c["time"]), int(c["fifths"]), str(c["mode"]), int(c["track"])) for c in pp.key_signatures],
        tsigs=[(float(c["time"]), int(c["beats"]), int(c["beat_type"]), int(c["track"])) for c in pp.time_signatures],
        metas=[(meta_key(m), float(m["time"]), int(m["track"])) for m in pp.meta_other if m.get("type") != "end_of_track"])


def h_view_abs(part):
    return dict(
        notes=[(n["midi_pitch"], float(n["note_on"]), float(n["note_off"]), n["velocity"], n["channel"], n["track"]) for n in part["notes"]],
        ctrls=[(c["number"], c["value"], float(c["time"]), c["channel"], c["track"]) for c in part["ctrls"]],
        progs=[(int(c["program"]), float(c["time"]), c["channel"], c["track"]) for c in part["progs"]],
        keys=[(float(c["time"]), c["fifths"], str(c["mode"]), c["track"]) for c in part["keys"]],
        tsigs=[(float(c["time"]), c["beats"], c["beat_type"], c["track"]) for c in part["tsigs"]],
        metas=[(meta_key(m), float(m["time"]), m["track"]) for m in part["metas"]])


def h_canon_mf(mf):
    """the messages of a MidiFile: per track (absolute tick, message) in file order"""
    out = []
    for tr in mf.tracks:
        t, evs = 0, []
        for m in tr:
            t += m.time
            evs.append((t, str(m.copy(time=0))))
        out.append(evs)
    return dict(ppq=mf.ticks_per_beat, type=mf.type, tracks=out)


def h_diff_mf(a, b):
    if (a["ppq"], a["type"], len(a["tracks"])) != (b["ppq"], b["type"], len(b["tracks"])):
        return "ticks_per_beat / type / number of tracks %s against %s" % ((a["ppq"], a["type"], len(a["tracks"])), (b["ppq"], b["type"], len(b["tracks"])))
    for i, (x, y) in enumerate(zip(a["tracks"], b["tracks"])):
        if x != y:
            return "track %d: after the history only %s, on the fresh copy only %s" % (i, [e for e in x if e not in y][:3], [e for e in y if e not in x][:3])
    return None


def h_conv_check(op):
    """one call of a conversion function: by the property's words; the argument is left alone; writing into the
    result does not reach the argument or a later result"""
    import numpy as np
    from partitura.utils.music import seconds_to_midi_ticks, midi_ticks_to_seconds
    from partitura.io.importmidi import adjust_time

    ppq = op["ppq"]
    if op["f"] == "adjust":
        tc = [tuple(x) for x in op["tc"]]
        arg = list(tc)
        for tk in op["ticks"]:
            o = float(adjust_time(tk, arg, ppq))
            total = F(0)
            for j, (t0, m) in enumerate(tc):
                nxt = tc[j + 1][0] if j + 1 < len(tc) else None
                if tk > t0:
                    total += F((tk if nxt is None else min(tk, nxt)) - t0) * m / (10 ** 6 * ppq)
            if abs(F(o) - total) > REL * max(1, total):
                return ["adjust_time(%d, %s, %d) = %r; the integral of the tempo steps is %r" % (tk, tc, ppq, o, float(total))]
            if arg != tc:
                return ["adjust_time changed its tempo list: %s -> %s" % (tc, arg)]
        return []
    mpq = op["mpq"]
    kind = op["kind"]
    if op["f"] == "s2t":
        t = op["t"]
        mk = {"float": lambda: t, "f4": lambda: np.float32(t), "f8": lambda: np.float64(t), "int": lambda: int(t), "i4": lambda: np.int32(int(t)),
              "array8": lambda: np.array([t, 0.0, t], dtype="f8"), "array4": lambda: np.array([t, 0.0], dtype="f4"), "arrayi": lambda: np.array([int(t), 0, 3]),
              "zero_d": lambda: np.array(t), "zero_di": lambda: np.array(int(t)), "one": lambda: np.array([t]), "empty": lambda: np.array([], dtype=float)}[kind]
        arg = mk()
        vals = [float(x) for x in np.atleast_1d(np.asarray(arg, dtype=float))]
        if not all(tick_exact(ppq, mpq, v)[1] for v in vals):
            return []
        out = []
        for rep in range(2):
            got = seconds_to_midi_ticks(arg, mpq=mpq, ppq=ppq)
            g = [int(x) for x in np.atleast_1d(np.asarray(got))]
            if len(g) != len(vals) or any(x not in tick_cands(ppq, mpq, v) for x, v in zip(g, vals)):
                return ["seconds_to_midi_ticks(%r as %s, mpq=%d, ppq=%d) = %r (call %d); nearest ticks %s" % (vals, kind, mpq, ppq, g, rep + 1, [tick_cands(ppq, mpq, v) for v in vals])]
            if np.asarray(got).dtype.kind not in "iu" and not isinstance(got, int):
                return ["seconds_to_midi_ticks(%s) returned %r: not integer ticks" % (kind, got)]
            out.append(g)
            if isinstance(got, np.ndarray) and got.ndim > 0 and got.size and got.flags.writeable:
                got[...] = -77  # write into the result
            if [float(x) for x in np.atleast_1d(np.asarray(arg, dtype=float))] != vals:
                return ["writing into the result of seconds_to_midi_ticks(%s) changed the argument: %r" % (kind, arg)]
        return []
    k = op["k"]
    mk = {"int": lambda: k, "i4": lambda: np.int32(k), "i8": lambda: np.int64(k), "float": lambda: float(k), "array4": lambda: np.array([k, 0], dtype="i4"),
          "array8": lambda: np.array([k, 0, 1], dtype="i8"), "zero_d": lambda: np.array(k), "one": lambda: np.array([k]), "empty": lambda: np.array([], dtype=int)}[kind]
    arg = mk()
    vals = [int(x) for x in np.atleast_1d(np.asarray(arg))]
    for rep in range(2):
        sec = midi_ticks_to_seconds(arg, mpq=mpq, ppq=ppq)
        g = [float(x) for x in np.atleast_1d(np.asarray(sec, dtype=float))]
        if len(g) != len(vals) or any(abs(F(x) - F(v) * mpq / (10 ** 6 * ppq)) > REL * max(1, F(v) * mpq / (10 ** 6 * ppq)) for x, v in zip(g, vals)):
            return ["midi_ticks_to_seconds(%r as %s, mpq=%d, ppq=%d) = %r (call %d), expected %r" % (vals, kind, mpq, ppq, g, rep + 1, [float(F(v) * mpq / (10 ** 6 * ppq)) for v in vals])]
        if isinstance(sec, np.ndarray) and sec.ndim > 0 and sec.size and sec.flags.writeable:
            sec[...] = -7.5
        if [int(x) for x in np.atleast_1d(np.asarray(arg))] != vals:
            return ["writing into the result of midi_ticks_to_seconds(%s) changed the argument: %r" % (kind, arg)]
    return []


def h_run(case, workdir, coq=None):
    """run one history -> (failures, info).  Stops at the first failing step.  `coq`: an Intern; when given, info["term"]
    is the history as a Coq term (Model.C06_hist) together with the saved messages of the compared saves."""
    import copy
    import io
    import mido
    import numpy as np
    import partitura
    import partitura.performance as P
    from partitura.io.exportmidi import save_performance_midi
    from partitura.io.importmidi import load_performance_midi

    st = dict(parts={}, lst=[], perf=None, files={})
    live = dict(parts={}, L=[], perf=None, files={}, mf=None, res=None)
    info = dict(saves=0, saves_abs=0, saves_after_edit=0, loads=0, loads_after_edit=0, convs=0, steps=0, hops=[], obs=[], nums=set())
    edited = dict(export=False, files=set())
    sent = {}  # pid -> json of the part as last sent to the Coq history

    def new_part(part, pp=None):
        pid = str(len(st["parts"]))
        st["parts"][pid] = json.loads(json.dumps(part))
        live["parts"][pid] = pp if pp is not None else h_build(part)
        info["nums"].add(part.get("num", "py"))
        return pid

    def pids_in_views():
        out = []
        for p in st["lst"] + (st["perf"] or []):
            if p not in out:
                out.append(p)
        return out

    def coq_sync():
        """the edits since the last call, as steps of the Coq state machine"""
        if coq is None:
            return
        for pid in pids_in_views():
            js = json.dumps(st["parts"][pid], sort_keys=True)
            if sent.get(pid) != js:
                sent[pid] = js
                info["hops"].append("(HPut %d%%nat %s)" % (int(pid), c_ppart(h_build(st["parts"][pid]), coq)))
        for name, cons in (("lst", "HList"), ("perf", "HPerf")):
            ids = st[name] or []
            if sent.get(name) != ids:
                sent[name] = list(ids)
                info["hops"].append("(%s %s)" % (cons, clist(["%d%%nat" % int(p) for p in ids])))

    def check_state(label):
        for pid in pids_in_views():
            try:
                a, b = h_view_live(live["parts"][pid]), h_view_abs(st["parts"][pid])
            except Exception as e:
                return ["%s: the items of a performed part cannot be read any more: %s: %s" % (label, type(e).__name__, e)]
            if a != b:
                name = [k for k in H_PART_KEYS if a[k] != b[k]][0]
                return ["%s: the %s of a performed part are now %s; the edits so far add up to %s" % (label, name, a[name][:4], b[name][:4])]
        if [id(x) for x in live["L"]] != [id(live["parts"][p]) for p in st["lst"]]:
            return ["%s: the caller's list of parts holds %d parts, the edits so far add up to %d (or other objects)" % (label, len(live["L"]), len(st["lst"]))]
        if st["perf"] is not None and [id(x) for x in live["perf"].performedparts] != [id(live["parts"][p]) for p in st["perf"]]:
            return ["%s: the Performance holds %d parts; it was given / assigned %d (or holds other objects)" % (label, len(live["perf"].performedparts), len(st["perf"]))]
        return []

    def adopt_tracks(pids, before, label):
        """after Performance(...) / sanitize_track_numbers: one number per (part, track), different pairs different numbers;
        the abstract state takes over the numbers"""
        num = {}
        for k, pid in enumerate(pids):
            pp = live["parts"][pid]
            for name, lst in (("notes", pp.notes), ("ctrls", pp.controls), ("progs", pp.programs)):
                old = before[pid][name]
                if len(old) != len(lst):
                    return ["%s changed the number of %s of part %d" % (label, name, k)]
                for t, y in zip(old, lst):
                    num.setdefault((k, t), set()).add(int(y["track"]))
        split = {str(g): sorted(v) for g, v in sorted(num.items()) if len(v) != 1}
        if split:
            return ["%s gave the notes / controls / programs of one (part, track) different track numbers: %s" % (label, split)]
        vals = [min(v) for v in num.values()]
        if len(set(vals)) != len(vals):
            return ["%s gave two (part, track) pairs the same track number: %s" % (label, {str(g): min(v) for g, v in sorted(num.items())})]
        for pid in pids:
            pp = live["parts"][pid]
            for name, lst in (("notes", pp.notes), ("ctrls", pp.controls), ("progs", pp.programs)):
                for x, y in zip(st["parts"][pid][name], lst):
                    x["track"] = int(y["track"])
            fix_sigs(pid)
        return []

    def fix_sigs(pid):
        part, pp = st["parts"][pid], live["parts"][pid]
        if h_fix_sig_tracks(part):
            for name, lst in (("keys", pp.key_signatures), ("tsigs", pp.time_signatures), ("metas", [m for m in pp.meta_other if m.get("type") != "end_of_track"])):
                for x, y in zip(part[name], lst):
                    y["track"] = x["track"]

    def tracks_before(pids):
        return {pid: {name: [x["track"] for x in st["parts"][pid][name]] for name in ("notes", "ctrls", "progs")} for pid in pids}

    def write_file(fid):
        f = live["files"][fid]
        new = build_midi(st["files"][fid])
        if f.get("mf") is None:
            f["mf"] = new
        else:  # the same MidiFile object, edited in place
            f["mf"].tracks[:] = new.tracks
            f["mf"].ticks_per_beat = new.ticks_per_beat
            f["mf"].type = new.type
        f["mf"].save(f["path"])

    # ---- the initial state
    init = case["init"]
    for fid in sorted(init.get("files", {})):
        st["files"][fid] = json.loads(json.dumps(init["files"][fid]))
        st["files"][fid]["tracks"] = [[(d, tuple(s)) for d, s in tr] for tr in st["files"][fid]["tracks"]]
        live["files"][fid] = dict(path=os.path.join(workdir, "h_%s.mid" % fid))
        write_file(fid)
    started = False
    if init.get("from_midi"):
        fm = init["from_midi"]
        spec = dict(fm["spec"], tracks=[[(d, tuple(s)) for d, s in tr] for tr in fm["spec"]["tracks"]])
        try:
            if fm["via"] == "lp":
                path = os.path.join(workdir, "h_init.mid")
                build_midi(spec).save(path)
                perf = partitura.load_performance(path, default_bpm=spec["bpm"], merge_tracks=spec["merge"])
            else:
                perf = load_performance_midi(build_midi(spec), default_bpm=spec["bpm"], merge_tracks=spec["merge"])
            pps = [pp for pp in perf.performedparts if pp.notes]
            if pps and len(pps) == len(perf.performedparts):
                for pp in pps:  # the end_of_track events the loader lists among the other meta events are not items of the performance
                    pp.meta_other[:] = [m for m in pp.meta_other if m.get("type") != "end_of_track"]
                for part, pp in zip(perf_to_parts(pps), pps):
                    part["num"] = "py"
                    pid = new_part(part, pp)
                    st["lst"].append(pid)
                    fix_sigs(pid)
                live["L"] = list(perf.performedparts)
                live["perf"], st["perf"] = perf, list(st["lst"])
                started = True
        except Exception as e:
            return ["loading the initial file raised %s: %s" % (type(e).__name__, e)], info
    if not started:
        for part in init["parts"]:
            st["lst"].append(new_part(part))
        live["L"] = [live["parts"][p] for p in st["lst"]]
        if init.get("wrap"):
            before = tracks_before(st["lst"])
            try:
                live["perf"] = P.Performance(live["L"])
            except Exception as e:
                return ["Performance(...) raised %s: %s" % (type(e).__name__, e)], info
            st["perf"] = list(st["lst"])
            bad = adopt_tracks(st["perf"], before, "Performance(...)")
            if bad:
                return bad, info
    bad = check_state("initial state")
    if bad:
        return bad, info
    if coq is not None:
        info["init_term"] = None  # the machine starts empty: the initial state is its first steps
    coq_sync()

    def fresh_arg(via, pids):
        fps = [h_build(st["parts"][p]) for p in pids]
        if via == "perf":
            return P.Performance(fps, ensure_unique_tracks=False), fps
        if via == "part":
            return fps[0], fps
        return fps, fps

    def saved(arg, op, name):
        if op["out"] == "none":
            return save_performance_midi(arg, None, mpq=op["mpq"], ppq=op["ppq"], merge_tracks_save=op["ms"])
        if op["out"] == "buf":
            buf = io.BytesIO()
            r = save_performance_midi(arg, buf, mpq=op["mpq"], ppq=op["ppq"], merge_tracks_save=op["ms"])
            buf.seek(0)
            mf = mido.MidiFile(file=buf)
        else:
            path = os.path.join(workdir, name)
            r = save_performance_midi(arg, path, mpq=op["mpq"], ppq=op["ppq"], merge_tracks_save=op["ms"])
            mf = mido.MidiFile(path)
        if r is not None:
            raise ValueError("save_performance_midi(out=<file>) returned %r instead of None" % (r,))
        return mf

    def do_save(op, label):
        via = op["via"]
        if via == "perf" and st["perf"] is None:
            via = "lst"
        if via == "perf":
            pids, arg = list(st["perf"]), live["perf"]
        elif via == "part":
            allp = pids_in_views()
            pids = [allp[op["k"] % len(allp)]]
            arg = live["parts"][pids[0]]
        else:
            pids, arg = list(st["lst"]), live["L"]
        if not pids:
            return []
        coq_sync()
        ref = None
        try:
            if op.get("fresh_first"):
                ref = h_canon_mf(saved(fresh_arg(via, pids)[0], op, "h_fresh.mid"))
            mf = saved(arg, op, "h_live.mid")
            got = h_canon_mf(mf)
            fa, fps = fresh_arg(via, pids)
            if ref is None:
                ref = h_canon_mf(saved(fa, op, "h_fresh.mid"))
        except Exception as e:
            return ["%s raised %s: %s" % (label, type(e).__name__, e)]
        info["saves"] += 1
        if edited["export"]:
            info["saves_after_edit"] += 1
        d = h_diff_mf(got, ref)
        if d:
            return ["%s differs from the same call on freshly built parts holding the current state: %s" % (label, d)]
        # by the property's words, when the current state is inside C06's proviso
        snap = dict(ppq=op["ppq"], mpq=op["mpq"], kind="list", ms=op["ms"], ml=False, parts=[json.loads(json.dumps(st["parts"][p])) for p in pids])
        c2 = json.loads(json.dumps(snap))
        if make_exclusive(c2) and c2 == snap:
            try:
                obs = observe_perf(load_performance_midi(mf, merge_tracks=False))
            except Exception as e:
                return ["%s: loading the saved file raised %s: %s" % (label, type(e).__name__, e)]
            tmap = {(x["track"],): x["track"] for part in snap["parts"] for name in ("notes", "ctrls", "progs") for x in part[name]}
            if op["ms"]:
                tmap = {0: 0}
            b = oracle_roundtrip(snap, obs, tmap)
            if b:
                return ["%s, judged against the current state: %s" % (label, x) for x in b[:3]]
            info["saves_abs"] += 1
            if coq is not None:
                view = "VPerf" if via == "perf" else "VList" if via == "lst" else "(VPart %d%%nat)" % int(pids[0])
                info["hops"].append("(HSave (mkHA %s %s %s %s))" % (view, cz(op["ppq"]), cz(op["mpq"]), cbool(op["ms"])))
                info["obs"].append(clist([c_track(t, coq) for t in mf.tracks]))
        if op["out"] == "none":
            live["mf"] = mf
        return []

    def q_items(part):
        return [x for name in ("ctrls", "progs", "keys", "tsigs", "metas") for x in part[name]]

    def live_items(pp):
        return list(pp.controls) + list(pp.programs) + list(pp.key_signatures) + list(pp.time_signatures) + [m for m in pp.meta_other if m.get("type") != "end_of_track"]

    def kinds(num):
        FT = {"py": float, "f4": np.float32, "f8": np.float64, "int": int, "i4": lambda v: np.int32(int(v)), "i8": lambda v: np.int64(int(v))}[num]
        IT = {"py": int, "f4": np.int32, "f8": np.int64, "int": int, "i4": np.int32, "i8": np.int64}[num]
        return FT, IT

    def set_times(n_live, on, off, FT):
        if off >= float(n_live["note_off"]):
            n_live["note_off"] = FT(off)
            n_live["note_on"] = FT(on)
        else:
            n_live["note_on"] = FT(on)
            n_live["note_off"] = FT(off)

    def do_edit(op):
        allp = pids_in_views()
        if not allp:
            return []
        pid = allp[op["k"] % len(allp)]
        part, pp = st["parts"][pid], live["parts"][pid]
        num = part.get("num", "py")
        FT, IT = kinds(num)
        what, i = op["what"], op["i"]
        whole = num in ("int", "i4", "i8")
        if what == "shift":
            d = float(int(op["d"]) or 1) if whole else op["d"]
            for n, y in zip(part["notes"], pp.notes):
                n["note_on"], n["note_off"] = h_q(n["note_on"] + d, num), h_q(n["note_off"] + d, num)
                n["note_off"] = max(n["note_on"], n["note_off"])
                set_times(y, n["note_on"], n["note_off"], FT)
            for x, y in zip(q_items(part), live_items(pp)):
                x["time"] = h_q(x["time"] + d, num)
                y["time"] = FT(x["time"])
        elif what in ("times", "velocity", "channel", "track", "pitch", "del_note"):
            n, y = part["notes"][i % len(part["notes"])], pp.notes[i % len(part["notes"])]
            if what == "times":
                n["note_on"] = h_q(op["on"], num)
                n["note_off"] = max(n["note_on"], h_q(op["on"] + op["len"], num))
                set_times(y, n["note_on"], n["note_off"], FT)
            elif what in ("velocity", "channel", "track"):
                n[what] = op["v"]
                y[what] = IT(op["v"])  # PerformedNote.__setitem__
                if what == "track":
                    fix_sigs(pid)
            elif what == "pitch":  # the note's dictionary itself: PerformedNote accepts "pitch" only, the exporter reads "midi_pitch"
                n["midi_pitch"] = op["v"]
                y.pnote_dict["midi_pitch"] = IT(op["v"])
                y.pnote_dict["pitch"] = IT(op["v"])
            elif len(part["notes"]) >= 2:
                del part["notes"][i % len(part["notes"])]
                del pp.notes[i % len(pp.notes)]
                fix_sigs(pid)
        elif what == "add_note":
            n = dict(op["note"])
            n["note_on"], n["note_off"] = h_q(n["note_on"], num), h_q(n["note_off"], num)
            part["notes"].append(n)
            pp.notes.append(P.PerformedNote(dict({k: (FT(v) if k in ("note_on", "note_off") else IT(v)) for k, v in n.items()}, id="h%d" % len(part["notes"]))))
        elif what in ("ctrl_value", "ctrl_time", "ctrl_track", "del_ctrl"):
            if part["ctrls"]:
                j = i % len(part["ctrls"])
                if what == "ctrl_value":
                    part["ctrls"][j]["value"] = op["v"]
                    pp.controls[j]["value"] = IT(op["v"])
                elif what == "ctrl_time":
                    part["ctrls"][j]["time"] = h_q(op["on"], num)
                    pp.controls[j]["time"] = FT(part["ctrls"][j]["time"])
                elif what == "ctrl_track":
                    part["ctrls"][j]["track"] = op["v"]
                    pp.controls[j]["track"] = IT(op["v"])
                else:
                    del part["ctrls"][j]
                    del pp.controls[j]
        elif what == "add_ctrl":
            c = dict(op["ctrl"], time=h_q(op["ctrl"]["time"], num))
            part["ctrls"].append(c)
            pp.controls.append({k: (FT(v) if k == "time" else IT(v)) for k, v in c.items()})
        elif what == "rebind_ctrls":
            pp.controls = [dict(c) for c in pp.controls]  # the attribute gets a new list of new dictionaries
        elif what == "add_prog":
            c = dict(op["prog"], time=h_q(op["prog"]["time"], num))
            part["progs"].append(c)
            pp.programs.append({k: (FT(v) if k == "time" else IT(v)) for k, v in c.items()})
        elif what == "clear_progs":
            part["progs"] = []
            if op.get("rebind"):
                pp.programs = []
            else:
                del pp.programs[:]
        elif what == "res":
            part["ppq"], part["mpq"] = op["ppq"], op["mpq"]
            pp.ppq, pp.mpq = op["ppq"], op["mpq"]
        elif what == "ticks":  # tick annotations that do not fit the times (any more)
            pq, mq = part.get("ppq", 480), part.get("mpq", 500000)
            for n, y in zip(part["notes"], pp.notes):
                a = rhe(F(10 ** 6) * pq * F(n["note_on"]) / mq) + op["off"]
                b = max(a, rhe(F(10 ** 6) * pq * F(n["note_off"]) / mq) + op["off"])
                n["note_on_tick"], n["note_off_tick"] = a, b
                y["note_on_tick"] = a
                y["note_off_tick"] = b
            for x, y in zip(q_items(part), live_items(pp)):
                x["time_tick"] = rhe(F(10 ** 6) * pq * F(x["time"]) / mq) + op["off"]
                y["time_tick"] = x["time_tick"]
        edited["export"] = True
        return []

    def do_load(op, label):
        fid = op["fid"]
        spec = dict(st["files"][fid], bpm=op["bpm"])
        f = live["files"][fid]
        kw = dict(default_bpm=op["bpm"], merge_tracks=spec["merge"])

        def call(src_obj, src_path):
            if op["via"] == "obj":
                return load_performance_midi(src_obj, **kw)
            if op["via"] == "path":
                return load_performance_midi(src_path, **kw)
            return partitura.load_performance(src_path, **kw)

        def fresh():
            new = build_midi(spec)
            path = os.path.join(workdir, "h_fresh_in.mid")
            if op["via"] != "obj":
                new.save(path)
            return observe_perf(call(new, path))

        try:
            ref = fresh() if op.get("fresh_first") else None
            perf = call(f["mf"], f["path"])
            obs = observe_perf(perf)
            if ref is None:
                ref = fresh()
        except Exception as e:
            return ["%s raised %s: %s" % (label, type(e).__name__, e)]
        info["loads"] += 1
        if fid in edited["files"]:
            info["loads_after_edit"] += 1
        b = oracle_midi(spec, obs)
        if b:
            return ["%s, judged against the current content of the file: %s" % (label, x) for x in b[:3]]
        if obs != ref:
            return ["%s differs from the same call on a freshly built file with the current content" % label]
        if h_canon_mf(f["mf"]) != h_canon_mf(build_midi(spec)):
            return ["%s changed the MidiFile object it was given" % label]
        live["res"] = perf
        return []

    def do_file_edit(op):
        fid = op["fid"]
        spec = st["files"][fid]
        how = op["how"]
        if how == "replace":
            spec = json.loads(json.dumps(op["spec"]))
            spec["tracks"] = [[(d, tuple(s)) for d, s in tr] for tr in spec["tracks"]]
            st["files"][fid] = spec
        elif how == "ppq":
            spec["ppq"] = op["v"]
        elif how == "tempo":
            pos = [(a, b) for a, tr in enumerate(spec["tracks"]) for b, (d, s) in enumerate(tr) if s[0] == "tempo"]
            if pos:
                a, b = pos[op["j"] % len(pos)]
                spec["tracks"][a][b] = (spec["tracks"][a][b][0], ("tempo", op["v"]))
            else:
                tr = spec["tracks"][op["i"] % len(spec["tracks"])]
                tr.insert(min(op["j"], len(tr)) if tr and tr[-1][1][0] != "eot" else 0, (rng_free_delta(op["j"]), ("tempo", op["v"])))
        elif how == "drop":
            pos = [(a, b) for a, tr in enumerate(spec["tracks"]) for b, (d, s) in enumerate(tr) if s[0] in ("cc", "pc", "tempo", "text", "key", "tsig", "bend")]
            if pos:
                a, b = pos[op["j"] % len(pos)]
                d0 = spec["tracks"][a][b][0]
                del spec["tracks"][a][b]
                if b < len(spec["tracks"][a]):  # the later events keep their ticks
                    d1, s1 = spec["tracks"][a][b]
                    spec["tracks"][a][b] = (d1 + d0, s1)
        write_file(fid)
        edited["files"].add(fid)
        return []

    def rng_free_delta(j):
        return [0, 1, 60, 240][j % 4]

    def do_result_edit():
        perf = live["res"]
        if perf is None:
            return
        try:
            for pp in perf.performedparts:
                for n in pp.notes:
                    n["note_off"] = n["note_off"] + 1.5
                    n["velocity"] = 1
                for c in pp.controls + pp.programs:
                    c["time"] = c["time"] + 2.0
                    c["track"] = 9
                pp.controls.append(dict(number=64, value=127, time=0.0, channel=0, track=0))
                del pp.notes[:1]
            del perf.performedparts[1:]
        except Exception:
            pass

    for si, op in enumerate(case["ops"]):
        kind = op["op"]
        label = "step %d" % si
        info["steps"] += 1
        bad = []
        try:
            if kind == "save":
                bad = do_save(op, "step %d: save_performance_midi(%s, ppq=%d, mpq=%d, merge_tracks_save=%s)" % (si, op["via"], op["ppq"], op["mpq"], op["ms"]))
            elif kind == "edit":
                bad = do_edit(op)
            elif kind == "wrap":
                if live["L"]:
                    before = tracks_before(st["lst"])
                    live["perf"] = P.Performance(live["L"][0] if op.get("single") and len(live["L"]) == 1 else live["L"])
                    st["perf"] = list(st["lst"])
                    bad = adopt_tracks(st["perf"], before, "step %d: Performance(...)" % si)
                    edited["export"] = True
            elif kind == "sanitize":
                if st["perf"]:
                    before = tracks_before(st["perf"])
                    live["perf"].sanitize_track_numbers()
                    bad = adopt_tracks(st["perf"], before, "step %d: sanitize_track_numbers()" % si)
                    edited["export"] = True
            elif kind == "setitem":
                if st["perf"]:
                    pid = new_part(op["part"])
                    live["perf"][op["i"] % len(st["perf"])] = live["parts"][pid]
                    st["perf"][op["i"] % len(st["perf"])] = pid
                    edited["export"] = True
            elif kind == "list_edit":
                how = op["how"]
                if how == "pop":
                    if len(st["lst"]) > 1:
                        st["lst"].pop()
                        live["L"].pop()
                else:
                    pid = new_part(op["part"])
                    if how == "append" or not st["lst"]:
                        st["lst"].append(pid)
                        live["L"].append(live["parts"][pid])
                    else:
                        st["lst"][op["i"] % len(st["lst"])] = pid
                        live["L"][op["i"] % len(live["L"])] = live["parts"][pid]
                edited["export"] = True
            elif kind == "scribble_mf":
                mf = live["mf"]
                if mf is not None:
                    for tr in mf.tracks:
                        for m in tr[:2]:
                            m.time += 7
                        tr.append(mido.Message("note_on", note=1, velocity=1, time=3))
                    mf.ticks_per_beat += 1
                    live["mf"] = None
            elif kind == "note_array":
                allp = pids_in_views()
                if allp:
                    try:
                        na = live["parts"][allp[op["k"] % len(allp)]].note_array()
                        if len(na):
                            na["onset_sec"] += 1.0  # the returned array belongs to the caller
                    except Exception:
                        pass
            elif kind == "load":
                if op["fid"] in st["files"]:
                    bad = do_load(op, "step %d: load (%s, default_bpm=%s)" % (si, op["via"], op["bpm"]))
            elif kind == "file_edit":
                if op["fid"] in st["files"]:
                    bad = do_file_edit(op)
            elif kind == "result_edit":
                do_result_edit()
            elif kind == "conv":
                bad = ["step %d: %s" % (si, x) for x in h_conv_check(op)]
                info["convs"] += 1
        except Exception as e:
            bad = ["step %d (%s) raised %s: %s" % (si, kind, type(e).__name__, e)]
        if not bad:
            bad = check_state("after step %d (%s)" % (si, kind if kind != "edit" else "edit " + op["what"]))
        if bad:
            return bad, info
    return [], info


def h_sig(msg):
    return re.sub(r"step \d+", "step", msg)[:60]


def h_shrink(case, workdir, sig):
    def fails_with(c):
        try:
            b, _ = h_run(json.loads(json.dumps(c)), workdir)
        except Exception:
            return False
        return bool(b) and h_sig(b[0]) == sig

    c = json.loads(json.dumps(case))
    if len(c["ops"]) >= 2:
        c["ops"] = core.ddmin(c["ops"], lambda sub: fails_with(dict(c, ops=sub)))
    if c["init"].get("from_midi") and fails_with(dict(c, init={k: v for k, v in c["init"].items() if k != "from_midi"})):
        del c["init"]["from_midi"]
    if len(c["init"]["parts"]) >= 2 and not c["init"].get("from_midi"):
        c["init"]["parts"] = core.ddmin(c["init"]["parts"], lambda sub: bool(sub) and fails_with(dict(c, init=dict(c["init"], parts=sub))))
    for pi in range(len(c["init"]["parts"])):
        for key in ("metas", "keys", "tsigs", "progs", "ctrls"):
            if c["init"]["parts"][pi][key]:
                d = json.loads(json.dumps(c))
                d["init"]["parts"][pi][key] = []
                if fails_with(d):
                    c = d
    used = {op.get("fid") for op in c["ops"]}
    for fid in list(c["init"].get("files", {})):
        if fid not in used:
            d = json.loads(json.dumps(c))
            del d["init"]["files"][fid]
            if fails_with(d):
                c = d
    return c


def h_term(info):
    return ctuple([clist(info["hops"]), clist(info["obs"])])


def corpus_hist():
    def N(p, a, b, ch=0, tr=0, v=64):
        return dict(midi_pitch=p, note_on=a, note_off=b, velocity=v, channel=ch, track=tr)

    p0 = dict(num="py", notes=[N(60, 0.0, 1.0), N(62, 1.0, 2.0)], ctrls=[dict(number=64, value=127, time=0.25, channel=0, track=0)], progs=[], keys=[], tsigs=[], metas=[])
    p1 = dict(num="py", notes=[N(70, 0.5, 0.5, ch=3)], ctrls=[], progs=[dict(program=5, time=0.0, channel=3, track=0)], keys=[], tsigs=[], metas=[])
    p2 = dict(num="i4", notes=[N(80, 3.0, 5.0, ch=1, tr=1)], ctrls=[dict(number=7, value=3, time=2.0, channel=1, track=1)], progs=[], keys=[], tsigs=[], metas=[])
    S = lambda via, ppq=480, mpq=500000, **kw: dict(dict(op="save", via=via, k=0, ppq=ppq, mpq=mpq, ms=False, out="none", fresh_first=False), **kw)
    f0 = dict(ppq=480, merge=False, bpm=120, tracks=[[(0, ("tempo", 600000)), (0, ("on", 0, 60, 64)), (480, ("off", 0, 60, 0))]])
    return [
        # save, edit, save again; another resolution with the same ppq; a scribbled result
        dict(flavour="export", init=dict(parts=[p0, p1], wrap=True, files={}),
             ops=[S("perf"), dict(op="edit", k=0, i=0, what="shift", d=1.0), S("perf"), dict(op="scribble_mf"), S("perf", mpq=250000), S("part"), S("lst", ms=True)]),
        # the caller's list after Performance(list); perf[i] = part; renumbering again
        dict(flavour="export", init=dict(parts=[p0, p1], wrap=True, files={}),
             ops=[S("perf"), dict(op="list_edit", how="append", i=0, part=p2), S("perf"), S("lst"), dict(op="setitem", i=0, part=p2), S("perf"), dict(op="sanitize"), S("perf"),
                  dict(op="edit", k=0, i=0, what="add_prog", prog=dict(program=9, time=0.0, channel=0, track=0)), S("lst"), dict(op="edit", k=0, i=0, what="clear_progs", rebind=False), S("lst")]),
        # integer seconds; a file edited in place between two loads
        dict(flavour="import", init=dict(parts=[p2], wrap=False, files=dict(A=f0)),
             ops=[S("lst", ppq=960, mpq=1000000), dict(op="load", fid="A", bpm=120, via="obj", fresh_first=False), dict(op="result_edit"),
                  dict(op="load", fid="A", bpm=100, via="path", fresh_first=True), dict(op="file_edit", fid="A", how="tempo", i=0, j=0, v=250000),
                  dict(op="load", fid="A", bpm=100, via="path", fresh_first=False), dict(op="load", fid="A", bpm=120, via="lp", fresh_first=False),
                  dict(op="conv", f="s2t", kind="zero_d", t=0.5, ppq=480, mpq=500000), dict(op="conv", f="t2s", kind="empty", k=3, ppq=480, mpq=250000)]),
    ]


# ----------------------------------------------------------------------------


def corpus_perf():
    """D11: list input; several parts on one track number; exact half ticks."""
    def N(p, a, b, ch=0, tr=0, v=64):
        return dict(midi_pitch=p, note_on=a, note_off=b, velocity=v, channel=ch, track=tr)

    part = dict(notes=[N(60, 0.0, 1.0), N(62, 0.5 / 960 * 1, 1.5)], ctrls=[dict(number=64, value=127, time=0.25, channel=0, track=0)],
                progs=[], keys=[], tsigs=[], metas=[])
    part2 = dict(notes=[N(64, 2.0, 2.0, ch=3), N(65, 3.0 / 128, 5.0 / 128, ch=3)], ctrls=[], progs=[dict(program=5, time=0.0, channel=3, track=0)],
                 keys=[dict(time=0.0, fifths=-3, mode="minor", track=0)], tsigs=[dict(time=0.0, beats=6, beat_type=8, track=0)],
                 metas=[dict(type="text", text="hello", time=1.0, track=0)])
    out = []
    for kind in ("list", "perf", "pp"):
        for ms in (False, True):
            out.append(dict(ppq=480, mpq=500000, kind=kind, ms=ms, ml=False, parts=[json.loads(json.dumps(part)), json.loads(json.dumps(part2))][: (1 if kind == "pp" else 2)],
                            file=(kind == "list"), via_load_performance=True, again=True))
    # a control carrying a stale tick in a part that has the resolution of the export (seed d): times are the seconds
    stale = dict(notes=[dict(N(38, 19.2265625, 19.2265625, ch=14, v=7), note_on_tick=30012, note_off_tick=30012)],
                 ctrls=[dict(number=125, value=6, time=5.9375, channel=14, track=0, time_tick=9600)], progs=[dict(program=3, time=0.5, channel=14, track=0, time_tick=0)],
                 keys=[], tsigs=[], metas=[], ppq=384, mpq=250000)
    for kind in ("pp", "perf"):
        out.append(dict(ppq=384, mpq=250000, kind=kind, ms=False, ml=False, parts=[json.loads(json.dumps(stale))], file=False, via_load_performance=False,
                        again=False, history="annotated"))
    # single precision times (fixed by 4dbb168): 10**6 * 355 * float32(6.75) / 944335 is 2537.5018 in double, 2537.5 in single precision
    f4 = dict(notes=[N(75, 1.125, 5.875, ch=1, v=34)], ctrls=[dict(number=7, value=100, time=6.75, channel=1, track=0)], progs=[], keys=[],
              tsigs=[dict(time=6.75, beats=3, beat_type=1, track=0)], metas=[])
    out.append(dict(ppq=355, mpq=944335, kind="list", ms=False, ml=False, parts=[f4], file=False, via_load_performance=False, again=False, num="f4", na=True))
    return out


# ----------------------------------------------------------------------------
# (t) one file, every tempo change of every track, loaded with merge_tracks=False AND =True (round j)


def gen_tempo_file(rng):
    """2-4 tracks whose set_tempo events are spread over the tracks: ticks on a coarse grid (so that changes of different
    tracks share ticks), changes in later tracks at earlier ticks, repeats of the value read last, tracks without any;
    every (channel, pitch) lives in one track only, so that the merged reading is inside C06's proviso as well."""
    ppq = rng.choice([480, 96, 1000, 1, 384, 24, 960])
    ntr = rng.choice([2, 2, 3, 3, 4])
    mode = rng.choice(["any", "any", "any", "later_only", "later_only", "first", "one_later", "none"])
    keys = [(c, p) for c in rng.sample(range(16), 2) for p in rng.sample(range(128), 4)]
    tracks = []
    last_read = None
    for i in range(ntr):
        evs, sounding = [], {}
        mykeys = [k for j, k in enumerate(keys) if j % ntr == i]
        allowed = mode == "any" or (mode == "first" and i == 0) or (mode == "later_only" and i > 0) or (mode == "one_later" and i == ntr - 1)
        for _ in range(rng.choice([2, 4, 8, 14])):
            d = rng.choice([0, 0, 1, 60, 240, 240, 480, 960])
            r = rng.random()
            if r < 0.35 and allowed:
                if last_read is not None and rng.random() < 0.3:
                    v = last_read  # repeats the value read last (in another track it may still be a change at its tick)
                else:
                    v = rng.choice(TEMPI) if rng.random() < 0.85 else rng.randint(1, 3000000)
                last_read = v
                evs.append((d, ("tempo", v)))
            elif r < 0.75 and mykeys:
                free = [k for k in mykeys if k not in sounding]
                if free and (not sounding or rng.random() < 0.6):
                    k = rng.choice(free)
                    sounding[k] = True
                    evs.append((d, ("on", k[0], k[1], rng.randint(1, 127))))
                else:
                    k = rng.choice(sorted(sounding))
                    del sounding[k]
                    evs.append((d, ("on", k[0], k[1], 0) if rng.random() < 0.4 else ("off", k[0], k[1], rng.randint(0, 127))))
            elif r < 0.9:
                evs.append((d, ("cc", rng.randrange(16), rng.choice([64, 67, rng.randint(0, 127)]), rng.randint(0, 127))))
            else:
                evs.append((d, ("pc", rng.randrange(16), rng.randint(0, 127))))
        for k in sorted(sounding):
            evs.append((rng.choice([0, 1, 240]), ("off", k[0], k[1], 0)))
        if rng.random() < 0.5:
            evs.append((rng.choice([0, 0, 480]), ("eot",)))
        tracks.append(evs)
    return dict(ppq=ppq, tracks=tracks, bpm=rng.choice([120] * 4 + BPMS), first=rng.choice(["u", "m"]), same_object=rng.random() < 0.6)


def tempo_steps(case, variant="all"):
    """the tempo step function of a file: by the property (all tracks, tick order, the one read last at a tick wins), or as two
    slips would make it (used only to measure how many generated files tell them apart)"""
    tempi = []
    for i, evs in enumerate(case["tracks"]):
        t = 0
        for j, (d, sp) in enumerate(evs):
            t += d
            if sp[0] == "tempo" and not (variant == "first_track" and i > 0):
                tempi.append((t, i, j, sp[1]))
    if variant == "dedup_reading":
        kept, last = [], default_mpq(case)
        for e in tempi:
            if e[3] != last:
                kept.append(e)
                last = e[3]
        tempi = kept
    return [(0, default_mpq(case))] + [(t, m) for t, _, _, m in sorted(tempi)]


def sec_of(steps, ppq, tick):
    total = F(0)
    for n, (t0, m) in enumerate(steps):
        t1 = steps[n + 1][0] if n + 1 < len(steps) else None
        if tick <= t0:
            break
        hi = tick if t1 is None else min(tick, t1)
        total += F(hi - t0) * m / (10 ** 6 * ppq)
    return total


def timed_points(obs):
    pts = {}
    for o in obs:
        for n in o["notes"]:
            pts.setdefault(n["on_tick"], []).append(n["on"])
            pts.setdefault(n["off_tick"], []).append(n["off"])
        for c in o["ctrls"] + o["progs"]:
            pts.setdefault(c["tick"], []).append(c["t"])
    return pts


def run_tempo_file(case):
    """load the same file without and with merge_tracks (in either order, on one MidiFile object or on two); oracle (b) on both
    results, and the seconds of a tick must not depend on the option.  Returns failures, (mf, points unmerged, points merged)."""
    from partitura.io.importmidi import load_performance_midi

    mf = build_midi(case)
    res = {}
    for mode in (case.get("first", "u"), "m" if case.get("first", "u") == "u" else "u"):
        arg = mf if case.get("same_object", True) else build_midi(case)
        try:
            perf = load_performance_midi(arg, default_bpm=case.get("bpm", 120), merge_tracks=(mode == "m"))
        except Exception as e:
            return ["load_performance_midi(merge_tracks=%s) raised %s: %s" % (mode == "m", type(e).__name__, e)], None
        obs = observe_perf(perf)
        bad = oracle_midi(dict(case, merge=(mode == "m")), obs)
        if bad:
            return ["merge_tracks=%s: %s" % (mode == "m", b) for b in bad], None
        res[mode] = timed_points(obs)
        res[mode + "n"] = sorted((n["pitch"], n["vel"], n["ch"], n["on_tick"], n["off_tick"]) for o in obs for n in o["notes"])
    bad = []
    if res["un"] != res["mn"]:
        bad.append("the notes (pitch, velocity, channel, on tick, off tick) of the file differ between merge_tracks=False and =True (every key lives in one track): "
                   "only without %s, only with %s" % ([x for x in res["un"] if x not in res["mn"]][:3], [x for x in res["mn"] if x not in res["un"]][:3]))
    for mode in ("u", "m"):
        for tick, secs in sorted(res[mode].items()):
            if max(secs) - min(secs) > 1e-9 * max(1.0, abs(max(secs))):
                bad.append("merge_tracks=%s: tick %d of one file loaded as %r and as %r s" % (mode == "m", tick, min(secs), max(secs)))
    for tick in sorted(set(res["u"]) & set(res["m"])):
        a, b = res["u"][tick][0], res["m"][tick][0]
        if abs(a - b) > 1e-9 * max(1.0, abs(a)):
            bad.append("tick %d is at %r s without merge_tracks and at %r s with it" % (tick, a, b))
    return bad[:5], (mf, res["u"], res["m"], res["un"], res["mn"])


def term_anyfile(case, mf, pu, pm):
    intern = Intern()
    pts = lambda d: clist([ctuple([cz(t), core.cfloat_q(d[t][0])]) for t in sorted(d)])
    return ctuple([cz(case["ppq"]), cz(int(default_mpq(case))), clist([c_track(t, intern) for t in mf.tracks]), pts(pu), pts(pm)])


def term_anyfile_notes(mf, nu, nm):
    intern = Intern()
    ns = lambda l: clist(["(mkLN %s %s %s %s %s)" % tuple(cz(v) for v in n) for n in l])
    return ctuple([clist([c_track(t, intern) for t in mf.tracks]), ns(nu), ns(nm)])


def corpus_tempo_files():
    """the file of Proofs/C06_file.v (fx_tracks) and the witnesses of its refutations"""
    fx = [[(0, ("on", 0, 60, 64)), (1440, ("off", 0, 60, 0))],
          [(960, ("tempo", 600000)), (240, ("tempo", 500000)), (0, ("cc", 0, 64, 127))],
          [(240, ("tempo", 250000)), (720, ("tempo", 400000)), (0, ("on", 1, 62, 50)), (480, ("on", 1, 62, 0))]]
    dd = [[(960, ("tempo", 600000))], [(240, ("tempo", 600000)), (240, ("tempo", 250000)), (0, ("on", 0, 60, 1)), (960, ("off", 0, 60, 0))]]
    fy = [[(0, ("on", 0, 60, 64)), (480, ("off", 0, 60, 0)), (0, ("on", 0, 60, 30)), (0, ("on", 0, 60, 0)), (0, ("eot",))],
          [(240, ("tempo", 250000)), (0, ("on", 1, 60, 70)), (240, ("on", 1, 60, 0)), (0, ("on", 0, 61, 9)), (100, ("off", 0, 61, 0))]]
    zl = [[(10, ("on", 0, 60, 64)), (0, ("off", 0, 60, 0))], [(0, ("on", 1, 62, 1)), (5, ("off", 1, 62, 0))]]
    return [dict(ppq=480, tracks=fx, bpm=120, first="u", same_object=True), dict(ppq=480, tracks=fx, bpm=120, first="m", same_object=True),
            dict(ppq=480, tracks=dd, bpm=120, first="m", same_object=False), dict(ppq=480, tracks=fy, bpm=120, first="m", same_object=True),
            dict(ppq=96, tracks=zl, bpm=100, first="u", same_object=True)]


def corpus_midi():
    """D12: tempo at tick 960 in track 0 and at tick 240 in track 1; a repeat of the previously read tempo in a later track."""
    t0 = [(960, ("tempo", 600000)), (0, ("on", 0, 60, 64)), (480, ("off", 0, 60, 0))]
    t1 = [(240, ("tempo", 250000)), (0, ("on", 0, 62, 64)), (1200, ("off", 0, 62, 0))]
    t2 = [(100, ("tempo", 600000)), (0, ("on", 1, 70, 64)), (2000, ("on", 1, 70, 0))]
    return [dict(ppq=480, merge=False, tracks=[t0, t1]), dict(ppq=480, merge=False, tracks=[t0, t2]),
            dict(ppq=480, merge=True, tracks=[t0, t1, t2]),
            dict(ppq=96, merge=False, tracks=[[(0, ("text", "text", "only meta"))], t1])]


def run(ctx):
    warnings.filterwarnings("ignore")
    ctx.rule = ("(a) performances: 1-3 parts x 1-12 notes (times on 1/128, 1/16, 1/8, 1/1000 s grids, exact .0/.25/.5 tick positions, random floats; "
                "zero-length notes; velocities 1..127; channels 0..15, 30% neighbouring channels with pitches at the ends of the range; track pools incl. "
                "non-contiguous numbers and numbers shared between parts), "
                "0-9 controls of any number/value, 0-2 programs (so both explicit programs and default insertion; programs also on tracks without notes), "
                "key/time signatures, text-like meta events; input kind Performance (of a list or of the single part) / list / PerformedPart; merge_tracks_save "
                "and merge_tracks each 30%; ppq/mpq from 7 pairs or random; 12% through a real file (40% of them written to a file-like object, half read through "
                "load_performance); 30% with a second leg (the loaded Performance saved and loaded once more, must come back unchanged); scalar types: Python "
                "numbers 70%, numpy float32 / int32 20% (half of them with the notes built by PerformedPart.from_note_array, half of the notes beyond 1000 s), "
                "numpy float64 / int64 10%.  History: 35% of the generated cases carry tick annotations (note_on_tick / note_off_tick / time_tick: nearest tick, "
                "offset, scaled or random) and a part resolution (PerformedPart.ppq / .mpq) equal to the export's in 55% of the parts; 150 (2000) more cases are "
                "made by the library: a generated MIDI file (any tempo map, default_bpm) loaded with load_performance_midi or load_performance(first_note_at_zero=True), "
                "possibly sliced (slice_ppart_by_time), moved or stretched in time, then exported with the resolution of the loaded parts (65%) or another pair.  "
                "Notes that would overlap or touch another note of the same (file track, channel, pitch) at tick resolution are dropped (proviso of C06).  "
                "(b) MIDI files: 1-4 tracks x 0-20 events, ppq from 7 values, default_bpm 120 (1/3) or one of 12 others, set_tempo events in no / the first / any / "
                "only later tracks incl. repeated values and equal ticks, zero-velocity note-ons, stray note-offs, unclosed notes, notes touching at one tick, "
                "pitch bends, nine kinds of meta events, end_of_track present or not, merge_tracks 30%, 35% neighbouring channels with extreme pitches.  "
                "(d) Performance(...) of 1-4 parts with shared / non-contiguous / missing track numbers, half of them wrapped twice.  (e) load_performance on a "
                "file against load_performance_midi with the same options, 60% with first_note_at_zero (70% of these with a lead-in).  (f) seconds_to_midi_ticks, "
                "midi_ticks_to_seconds (Python / numpy scalars and arrays, single and double precision) and adjust_time on tick-ordered tempo lists, called directly.  "
                "(h) histories (state carried between calls): live parts (times as Python / numpy floats or whole seconds in Python / numpy integers), the caller's list, "
                "Performance(list), two MIDI files (object + path) driven through 5-13 steps -- save through the Performance / the list / one part with any (ppq, mpq), "
                "edits through the public fields (times, velocity, channel, track, notes / controls / programs added, deleted, rebound, ppq / mpq, stale ticks), "
                "Performance(...) again, sanitize_track_numbers(), perf[i] = part, edits of the caller's list, writing into returned MidiFile / Performance / arrays, "
                "load (object / path / load_performance), the same file object and path edited in place, conversion calls on scalars and 0-d / one-element / empty arrays; "
                "every observation judged against the current state (property oracles + the same call on freshly built objects), 30% start from a loaded file.  "
                "(t) one file read twice: 2-4 tracks with the set_tempo events spread over the tracks (any / later tracks only / the last track only / the first / none; ticks on a "
                "coarse grid so that changes of different tracks share ticks, later tracks changing the tempo at earlier ticks, 30% repeats of the value read last), every (channel, "
                "pitch) in one track only, zero-length notes and re-strikes; loaded with merge_tracks=False and =True in either order, on one MidiFile object (60%) or two; oracle (b) on "
                "both results, the seconds of a tick and the notes must not depend on the option.  "
                "Non-trivial = (a) a case with >= 2 notes or a merge; (b) a file with a tempo change in a track other than the first "
                "or >= 2 tempo changes; (d) >= 2 (part, track) pairs; (e) first_note_at_zero on >= 2 notes; (h) a history with a save / load after an edit; "
                "(t) set_tempo in a later track or in >= 2 tracks.")
    ctx.trusted = ["Coq 8.16.1 kernel incl. vm_compute", "harness/props/c06.py (generators, mido message printer, Python oracles)", "mido 1.3 (MidiFile, merge_tracks, file reader/writer)"]
    ctx.assumptions = [
        "times whose exact tick position is within 2^-20 of .5 without being on it (or whose float evaluation is inexact at a tie) are not generated into compared cases (counted)",
        "a time exactly half way between two ticks may come back on either of them ('the nearest tick'); the Coq model accepts any of four rules (half to even / up / down / to odd) applied to the whole file",
        "'overlap' is read at tick resolution on closed intervals: two notes of one (track, channel, pitch) whose tick intervals share a tick are outside C06's proviso",
        "program 0 on a (channel, track) pair of a part without program changes (the exporter's documented default) is accepted, at any tick, and not required",
        "end_of_track meta events (written by mido) are ignored when meta events are compared",
        "track numbers: merged -> 0; otherwise the number an item carries when the exporter is called (for a Performance: the number its constructor gave -- "
        "any numbering, provided the notes, controls and programs of one (part, track) got one number and different pairs different numbers); numbers 0..n-1 "
        "come back unchanged, other numbers of a PerformedPart / list are compared by rank (one file track per distinct number, in increasing order)",
        "controls, programs, signatures and meta events are compared as multisets per track (their list order is not named by C06); ids: distinct, and ordered by the number they end in",
        "of several set_tempo events at one tick the one read last (track order, then position) is taken to be in force",
        "seconds are compared with relative tolerance 1e-9 against exact rational arithmetic",
        "the times of a performed part are its times in seconds: tick annotations an item carries (note_on_tick, note_off_tick, time_tick) and the part's own ppq / mpq "
        "say nothing about where it has to be written",
        "Performance(...): the notes, controls and programs of one (part, track) get one number and different pairs different numbers; which numbers is compared for "
        "information only; a control / program without a track number may be put on any track",
        "first_note_at_zero: notes and programs of the first part move by its earliest onset (programs not below 0); a control at or after it keeps number, channel, "
        "track and moves along, its value is compared unless another control of its controller shares its time; additional controls only at time 0; other parts unchanged",
        "default_bpm values are those whose microseconds per quarter are a whole number",
        "histories: the current state of a performed part is what its public fields say (notes' midi_pitch / note_on / note_off / velocity / channel / track, the dictionaries of "
        "controls, programs, signatures, other meta events); of a Performance the parts it was given or assigned (not later changes of the caller's list); of a file its "
        "current content; a call leaves its arguments as they are; signatures / meta events are kept on the track of a note of their part; end_of_track entries a loaded part "
        "lists among its meta events are not items of the performance",
    ]
    ok, why = ctx.coq_props(expect_min=EXPECT_MIN)
    if not ok:
        ctx.log("coq_props failed: " + why[:1500])
    ctx.log("proofs checked: %s" % ok)
    rng = ctx.rng
    quick = ctx.tier == "quick"
    n_perf = 400 if quick else 6000
    n_midi = 500 if quick else 8000
    imports = "From PV Require Import Lib.Base Model.C06."
    n_viol = 0

    # ---- (a)
    save_terms, save_cases = [], []
    perf_cases = [(c, "corpus") for c in corpus_perf()]
    while len(perf_cases) < n_perf:
        c = gen_perf(rng)
        if not make_exclusive(c):
            ctx.count("a:near_tie_case_skipped")
            continue
        perf_cases.append((c, "gen"))
    n_hist = 150 if quick else 2000
    tries = 0
    while n_hist > 0 and tries < 20 * (150 if quick else 2000):
        tries += 1
        c = gen_history(rng, ctx.work)
        if c is None or not make_exclusive(c):
            ctx.count("a:history_case_skipped (loading / slicing raised, no note left, near-tie)")
            continue
        perf_cases.append((c, "hist"))
        n_hist -= 1
    for case, src in perf_cases:
        if src == "corpus" and not make_exclusive(case):
            continue
        bad, extra = run_perf_case(case, ctx.work)
        ctx.evaluations += 1
        ctx.count("a:input=%s" % case["kind"])
        ctx.count("a:scalar types=%s%s" % (case.get("num", "py"), ", notes through PerformedPart.from_note_array" if case.get("na") else ""))
        ctx.count("a:merge_save=%s,merge_load=%s" % (case["ms"], case["ml"]))
        if case.get("again"):
            ctx.count("a:second save->load leg")
        if case.get("history"):
            ctx.count("a:history=%s" % case["history"])
            ctx.count("a:items carry ticks; part resolution %s the export's" % ("=" if any(
                (p.get("ppq", 480), p.get("mpq", 500000)) == (case["ppq"], case["mpq"]) for p in case["parts"]) else "is not"))
            if stale_at_export_resolution(case):
                ctx.count("a:case with a stale tick annotation in a part that has the export's resolution")
        if bad:
            if n_viol < 5:
                def still(sub_parts):
                    d = dict(case, parts=sub_parts)
                    b, _ = run_perf_case(json.loads(json.dumps(d)), ctx.work)
                    return bool(b)
                small = dict(case)
                try:
                    small = shrink_perf(case, ctx.work, bad[0][:30])
                except Exception:
                    pass
                b2, _ = run_perf_case(json.loads(json.dumps(small)), ctx.work)
                ctx.violation("C06 (save -> load) fails on the implementation: " + "; ".join((b2 or bad)[:3]),
                              {"kind": "perf", "case": small, "failures": (b2 or bad)[:5]})
            n_viol += 1
            continue
        pps, mf, obs = extra
        nn = sum(len(p["notes"]) for p in case["parts"])
        if nn >= 2 or case["ms"] or case["ml"]:
            ctx.nontrivial("a" + json.dumps(case, sort_keys=True))
        if any(tick_is_half(case, n[k]) for p in case["parts"] for n in p["notes"] for k in ("note_on", "note_off")):
            ctx.count("a:case_with_exact_half_tick")
        if len(ctx.samples) < 2:
            ctx.sample({"save_load_case": case})
        intern = Intern()
        save_terms.append(term_save(case, pps, mf, intern))
        save_cases.append(case)
    ctx.log("(a) implementation runs done")
    jobs = max(1, int(os.environ.get("VERIF_JOBS", "8")))

    def shard_for(n, cap):
        """one wave of parallel coqc runs when the cases fit"""
        return max(20, min(cap, -(-n // jobs)))

    if ok:
        failing = ctx.coq_failing("save", imports, pv_ty("(Z * Z * bool * list ppart * list (list (Z * msg)))%type"), typed(save_terms), "check_save", shard=shard_for(len(save_terms), 100))
        ctx.obligation("correspondence: per file track, the timed messages of save_performance_midi are (as a multiset) those of Model.C06.save "
                       "(nearest ticks, one tie rule per file; default programs optional, set_tempo mpq at tick 0) and the message loop pairs the "
                       "same notes from them, on %d performances" % len(save_terms), not failing, failing[:5])
        for i in failing[:3]:
            ctx.violation("model and implementation disagree on the messages written by save_performance_midi (timed messages per track as a "
                          "multiset, or the notes they pair to)", {"kind": "perf-model", "case": save_cases[i]})
        try:  # information only: how many files are message for message what the model of today's code writes
            exact_terms = save_terms[:150 if quick else 1500]
            inexact = ctx.coq_failing("save_exact", imports, pv_ty("(Z * Z * bool * list ppart * list (list (Z * msg)))%type"), typed(exact_terms), "check_save_exact", shard=shard_for(len(exact_terms), 100))
            ctx.count("a:saved messages identical to Model.C06.save (order within a tick, tick of default programs)", len(exact_terms) - len(inexact))
            ctx.count("a:saved messages equal to the model only up to what C06 names", len(inexact))
        except Exception as e:
            ctx.log("check_save_exact not evaluated: %s" % str(e)[:300])

    ctx.log("(a) done: %d performances compared" % len(save_terms))
    # ---- (b)
    load_terms, load_cases = [], []
    midi_cases = corpus_midi() + [gen_midi(rng) for _ in range(n_midi)]
    for case in midi_cases:
        bad, extra = run_midi_case(case)
        ctx.evaluations += 1
        if bad:
            if n_viol < 8:
                small = shrink_midi(case, bad[0][:30])
                b2, _ = run_midi_case(small)
                ctx.violation("C06 (load) fails on the implementation: " + "; ".join((b2 or bad)[:3]), {"kind": "midi", "case": small, "failures": (b2 or bad)[:5]})
            n_viol += 1
            continue
        mf, obs = extra
        tempo_tracks = [i for i, evs in enumerate(case["tracks"]) for d, s in evs if s[0] == "tempo"]
        ctx.count("b:tempo=%s" % ("none" if not tempo_tracks else "first track only" if set(tempo_tracks) == {0} else "in a later track"))
        ctx.count("b:merge=%s" % case["merge"])
        if len(tempo_tracks) >= 2 or any(i > 0 for i in tempo_tracks):
            ctx.nontrivial("b" + json.dumps(case, sort_keys=True))
        if len(ctx.samples) < 4 and any(i > 0 for i in tempo_tracks):
            ctx.sample({"midi_case": case})
        load_terms.append(term_load(case, mf, obs, Intern()))
        load_cases.append(case)
    if ok:
        failing = ctx.coq_failing("load", imports, pv_ty("(Z * Z * bool * list (list (Z * msg)) * list opart)%type"), typed(load_terms), "check_load", shard=shard_for(len(load_terms), 150))
        ctx.obligation("correspondence: Model.C06.load (+ adjust_time) = parts of load_performance_midi: notes (multiset; ticks exact, seconds 1e-9; "
                       "id order sorted by onset, pitch, offset, channel), controls, programs, signatures, meta events (multisets) on %d hand-built "
                       "MIDI files" % len(load_terms), not failing, failing[:5])
        for i in failing[:3]:
            ctx.violation("model and implementation disagree on load_performance_midi", {"kind": "midi-model", "case": load_cases[i]})
    ctx.log("(b) done: %d files compared" % len(load_terms))
    # ---- (t) round j: one file, all tracks' tempo changes, both merge modes
    n_t = 200 if quick else 3000
    any_terms, anyn_terms, any_cases = [], [], []
    n_tv = 0
    for case in corpus_tempo_files() + [gen_tempo_file(rng) for _ in range(n_t)]:
        bad, extra = run_tempo_file(case)
        ctx.evaluations += 1
        if bad:
            if n_tv < 4:
                small = shrink_midi(case, bad[0][:30], runner=run_tempo_file)
                b2, _ = run_tempo_file(small)
                ctx.violation("C06 (load, one file read without and with merge_tracks) fails on the implementation: " + "; ".join((b2 or bad)[:3]),
                              {"kind": "tempo-file", "case": small, "failures": (b2 or bad)[:5]})
            n_tv += 1
            continue
        mf, pu, pm, nu, nm = extra
        ticks = sorted(set(pu) | set(pm))
        true = tempo_steps(case)
        per_track = [sum(1 for d, sp in evs if sp[0] == "tempo") for evs in case["tracks"]]
        ctx.count("t:files loaded twice (merge_tracks=False and =True)")
        ctx.count("t:set_tempo in %s" % ("no track" if not any(per_track) else "the first track only" if not any(per_track[1:]) else
                                        "later tracks only" if not per_track[0] else "the first and later tracks"))
        ctx.count("t:tracks with set_tempo = %d" % sum(1 for x in per_track if x))
        abs_t = []
        for i, evs in enumerate(case["tracks"]):
            t = 0
            for d, sp in evs:
                t += d
                if sp[0] == "tempo":
                    abs_t.append((t, i))
        if any(a[0] == b[0] and a[1] != b[1] for a in abs_t for b in abs_t):
            ctx.count("t:two tracks with a set_tempo at one tick")
        if any(a[0] > b[0] and a[1] < b[1] for a in abs_t for b in abs_t):
            ctx.count("t:a later track changes the tempo at an earlier tick than an earlier track")
        for variant, label in (("first_track", "a reader of the first track's set_tempo only"), ("dedup_reading", "a reader dropping repeats of the value read last")):
            st = tempo_steps(case, variant)
            if any(sec_of(st, case["ppq"], k) != sec_of(true, case["ppq"], k) for k in ticks):
                ctx.count("t:files on which %s would give other seconds" % label)
        ctx.count("t:%s first, %s" % ("unmerged" if case["first"] == "u" else "merged", "same MidiFile object" if case["same_object"] else "two objects"))
        ctx.count("t:compared (tick, seconds) points", len(pu) + len(pm))
        if sum(1 for x in per_track if x) >= 2 or any(per_track[1:]):
            ctx.nontrivial("t" + json.dumps(case, sort_keys=True))
        any_terms.append(term_anyfile(case, mf, pu, pm))
        anyn_terms.append(term_anyfile_notes(mf, nu, nm))
        any_cases.append(case)
        ctx.count("t:notes compared (each read twice)", len(nu))
        abs_ev = sorted((t, i) for i, tr in enumerate(mf.tracks) for t, m in zip(__import__("itertools").accumulate(x.time for x in tr), tr) if m.type in ("note_on", "note_off"))
        if any(a[0] == b[0] and a[1] != b[1] for a, b in zip(abs_ev, abs_ev[1:])):
            ctx.count("t:files with note messages of two tracks at one tick")
        if any(n[3] == n[4] for n in nu):
            ctx.count("t:files with a zero-length note")
        if len({(n[2], n[0]) for n in nu}) < len(nu):
            ctx.count("t:files with a key struck more than once")
    if ok and any_terms:
        imports_t = "From PV Require Import Lib.Base Model.C06 Model.C06_file."
        failing = ctx.coq_failing("anyfile", imports_t, pv_ty("(Z * Z * list (list (Z * msg)) * list (Z * Q) * list (Z * Q))%type"), typed(any_terms), "check_anyfile",
                                  shard=shard_for(len(any_terms), 100))
        ctx.obligation("correspondence: the seconds load_performance_midi gives the ticks of a file, read without and with merge_tracks, are Model.C06_file.file_seconds "
                       "(every set_tempo of every track, tick order; 1e-9) and Model.C06.load's tempo list gives the same seconds in both modes, on %d files" % len(any_terms),
                       not failing, failing[:5])
        for i in failing[:3]:
            ctx.violation("model and implementation disagree on the seconds of a file read without / with merge_tracks", {"kind": "tempo-file", "case": any_cases[i]})
        failing = ctx.coq_failing("anyfile_notes", imports_t, pv_ty("(list (list (Z * msg)) * list lnote * list lnote)%type"), typed(anyn_terms), "check_anyfile_notes",
                                  shard=shard_for(len(anyn_terms), 100))
        ctx.obligation("correspondence: the notes (pitch, velocity, channel, ticks) of all parts load_performance_midi returns for a file whose keys live in one track each are, "
                       "as multisets, Model.C06_file.file_notes_separate without merge_tracks and file_notes_merged with it, and equal, on %d files" % len(anyn_terms),
                       not failing, failing[:5])
        for i in failing[:3]:
            ctx.violation("model and implementation disagree on the notes of a file read without / with merge_tracks", {"kind": "tempo-file", "case": any_cases[i]})
    ctx.log("(t) done: %d files compared" % len(any_terms))
    imports2 = "From PV Require Import Lib.Base Model.C06 Model.C06_perf."
    # ---- (d) Performance(...) renumbering
    san_terms, san_exact, san_cases = [], [], []
    for _ in range(300 if quick else 6000):
        case = gen_sanitize(rng)
        bad, extra = run_sanitize_case(case)
        ctx.evaluations += 1
        npairs = len({(k, t) for k, p in enumerate(case["parts"]) for name in ("notes", "ctrls", "progs") for t in p[name]})
        ctx.count("d:Performance(...) with %s (part, track) pairs" % ("1" if npairs == 1 else "2-3" if npairs <= 3 else ">= 4"))
        if any(t is None for p in case["parts"] for name in ("ctrls", "progs") for t in p[name]):
            ctx.count("d:a control / program without a track number")
        if bad:
            if n_viol < 10:
                ctx.violation("C06 (Performance track numbers) fails on the implementation: " + "; ".join(bad[:2]), {"kind": "sanitize", "case": case, "failures": bad[:3]})
            n_viol += 1
            continue
        if npairs >= 2:
            ctx.nontrivial("d" + json.dumps(case, sort_keys=True))
        san_terms.append(ctuple([c_ptracks(extra[2]), c_ptracks(extra[3])]))
        san_exact.append(ctuple([c_ptracks(extra[0]), c_ptracks(extra[1])]))
        san_cases.append(case)
    if ok:
        failing = ctx.coq_failing("sanitize", imports2, pv_ty("(list ptracks * list ptracks)%type"), typed(san_terms), "check_sanitize", shard=150)
        ctx.obligation("correspondence: Performance.sanitize_track_numbers separates the notes, controls and programs exactly as Model.C06_perf.sanitize "
                       "(two items get one number iff the model gives them one number) on %d performances" % len(san_terms), not failing, failing[:5])
        for i in failing[:3]:
            ctx.violation("model and implementation disagree on which items Performance(...) puts on one track", {"kind": "sanitize", "case": san_cases[i]})
        try:
            inexact = ctx.coq_failing("sanitize_exact", imports2, pv_ty("(list ptracks * list ptracks)%type"), typed(san_exact), "check_sanitize_exact", shard=150)
            ctx.count("d:track numbers identical to Model.C06_perf.sanitize (numbered along the sorted (part, track) pairs)", len(san_terms) - len(inexact))
            ctx.count("d:track numbers equal to the model only up to renaming", len(inexact))
        except Exception as e:
            ctx.log("check_sanitize_exact not evaluated: %s" % str(e)[:300])

    ctx.log("(d) done")
    # ---- (e) load_performance: dispatch, options, first_note_at_zero
    sil_terms, sil_cases = [], []
    for _ in range(120 if quick else 2400):
        case = gen_dispatch(rng)
        bad, extra = run_dispatch_case(case, ctx.work)
        ctx.evaluations += 1
        ctx.count("e:load_performance(file, first_note_at_zero=%s)" % case["fz"])
        if bad:
            if n_viol < 12:
                small = shrink_midi(case, bad[0][:30], lambda d: run_dispatch_case(d, ctx.work))
                b2, _ = run_dispatch_case(small, ctx.work)
                ctx.violation("C06 (load_performance) fails on the implementation: " + "; ".join((b2 or bad)[:2]), {"kind": "dispatch", "case": small, "failures": (b2 or bad)[:3]})
            n_viol += 1
            continue
        if extra:
            ns, ps, ons, ops = extra
            if len(ns) >= 2:
                ctx.nontrivial("e" + json.dumps(case, sort_keys=True))
            cqq = lambda l: clist([ctuple([core.cfloat_q(a), core.cfloat_q(b)]) for a, b in l])
            sil_terms.append(ctuple([cqq(ns), clist([core.cfloat_q(t) for t in ps]), cqq(ons), clist([core.cfloat_q(t) for t in ops])]))
            sil_cases.append(case)
    if ok and sil_terms:
        failing = ctx.coq_failing("silence", imports2, pv_ty("(list (Q * Q) * list Q * list (Q * Q) * list Q)%type"), typed(sil_terms), "check_silence", shard=60)
        ctx.obligation("correspondence: notes and program changes after load_performance(first_note_at_zero=True) = Model.C06_perf.rs_notes / rs_times "
                       "of the loaded ones (1e-9) on %d files" % len(sil_terms), not failing, failing[:5])
        for i in failing[:3]:
            ctx.violation("model and implementation disagree on remove_silence_from_performed_part (notes / programs)", {"kind": "dispatch", "case": sil_cases[i]})

    ctx.log("(e) done")
    # ---- (f) the conversion functions called directly
    bad, conv_terms, adj_terms = run_converters(rng, 300 if quick else 6000)
    ctx.evaluations += len(conv_terms) + len(adj_terms)
    ctx.count("f:seconds_to_midi_ticks / midi_ticks_to_seconds calls compared", len(conv_terms))
    ctx.count("f:adjust_time lists compared", len(adj_terms))
    for text, rep in bad[:3]:
        ctx.violation("C06 (tick <-> seconds conversion) fails on the implementation: " + text, rep)
    if ok:
        failing = ctx.coq_failing("conv", imports2, pv_ty("(Z * Z * Q * Z * Z * Q)%type"), typed(conv_terms), "check_conv", shard=150)
        ctx.obligation("correspondence: seconds_to_midi_ticks = Model.C06.sec_to_tick_r 0 (exact), midi_ticks_to_seconds = Model.C12.tick_to_sec (1e-9), Python and "
                       "numpy scalars and arrays, on %d calls" % len(conv_terms), not failing, failing[:5])
        failing2 = ctx.coq_failing("adjust", imports2, pv_ty("(Z * list (Z * Z) * list (Z * Q))%type"), typed(adj_terms), "check_adjust", shard=150)
        ctx.obligation("correspondence: importmidi.adjust_time = Model.C06.adjust_time (1e-9) on %d tick-ordered tempo lists" % len(adj_terms), not failing2, failing2[:5])
        if (failing or failing2) and not bad:
            ctx.violation("model and implementation disagree on seconds_to_midi_ticks / midi_ticks_to_seconds / adjust_time", {"kind": "conv-model", "failing": (failing + failing2)[:5]}, no_input=True)
    # ---- (h) histories: state carried between calls
    n_h = 150 if quick else 1500
    hist_terms, hist_cases = [], []
    hcases = [(c, "corpus") for c in corpus_hist()] + [(HGen(rng).history(), "gen") for _ in range(n_h)]
    n_hv = 0
    for case, src in hcases:
        try:
            bad, info = h_run(json.loads(json.dumps(case)), ctx.work, coq=Intern())
        except Exception as e:
            import traceback
            bad, info = ["the history runner raised %s: %s" % (type(e).__name__, traceback.format_exc()[-600:])], None
        ctx.evaluations += 1
        ctx.count("h:histories (%s)" % case["flavour"])
        if bad:
            if n_hv < 4:
                small = case
                try:
                    small = h_shrink(case, ctx.work, h_sig(bad[0]))
                except Exception:
                    pass
                b2, _ = h_run(json.loads(json.dumps(small)), ctx.work)
                ctx.violation("C06 fails after a history of calls and edits (judged against the current state): " + "; ".join((b2 or bad)[:2]),
                              {"kind": "history", "case": small, "failures": (b2 or bad)[:4]})
            n_hv += 1
            continue
        for k in ("steps", "saves", "saves_abs", "saves_after_edit", "loads", "loads_after_edit", "convs"):
            ctx.count("h:" + {"steps": "steps", "saves": "saves compared with a fresh copy of the current state", "saves_abs": "saves also judged by the property's words (current state inside the proviso)",
                              "saves_after_edit": "saves after an edit / replaced part / renumbering", "loads": "loads judged against the file's current content",
                              "loads_after_edit": "loads after the file was edited in place", "convs": "conversion calls (scalar kinds, 0-d / one-element / empty arrays)"}[k], info[k])
        for num in sorted(info["nums"]):
            ctx.count("h:parts with %s times" % num)
        if case["init"].get("from_midi"):
            ctx.count("h:histories starting from a loaded file")
        if info["saves_after_edit"] or info["loads_after_edit"]:
            ctx.nontrivial("h" + json.dumps(case, sort_keys=True))
        if src == "gen" and sum(1 for x in ctx.samples if "history" in x) < 1:
            ctx.sample({"history": case})
        if info["obs"]:
            hist_terms.append(h_term(info))
            hist_cases.append(case)
    if ok and hist_terms:
        imports3 = "From PV Require Import Lib.Base Model.C06 Model.C06_hist."
        failing = ctx.coq_failing("hist", imports3, pv_ty("(list hop * list (list (list (Z * msg))))%type"), typed(hist_terms), "check_hist", shard=shard_for(len(hist_terms), 40))
        ctx.obligation("correspondence: the state machine Model.C06_hist (parts by identity, the caller's list, the Performance; edits; saves) run on the edits of %d histories "
                       "gives, at every compared save, frames whose Model.C06.save matches the messages save_performance_midi wrote at that point of the live history "
                       "(check_save on the machine's current state)" % len(hist_terms), not failing, failing[:5])
        for i in failing[:2]:
            ctx.violation("model and implementation disagree on a save inside a history (the machine's current state against the live objects)", {"kind": "history", "case": hist_cases[i]})
    ctx.log("(h) done: %d histories" % len(hcases))
    if not ok and not ctx.violations:
        ctx.violation("proof obligations of Props/C06.v no longer check: " + why, {"theorem_or_build": why}, no_input=True)


def pv_ty(ty):
    """the type of a case, so that every case term is checked against it (an empty list inside a term has no type of its own)"""
    return "Definition pv_ty : Type := %s." % ty


def typed(terms):
    return ["(%s : pv_ty)" % t for t in terms]


def tick_is_half(case, t):
    exact = F(10 ** 6) * case["ppq"] * F(t) / case["mpq"]
    return exact - math.floor(exact) == F(1, 2)


def shrink_perf(case, workdir, sig):
    def fails_with(d):
        try:
            b, _ = run_perf_case(json.loads(json.dumps(d)), workdir)
        except Exception:
            return False
        return bool(b) and b[0][:30] == sig

    c = json.loads(json.dumps(case))
    if c["kind"] != "pp" and len(c["parts"]) > 1:
        parts = core.ddmin(c["parts"], lambda sub: bool(sub) and fails_with(dict(c, parts=sub)))
        c["parts"] = parts
    for pi in range(len(c["parts"])):
        for key in ("metas", "keys", "tsigs", "progs", "ctrls", "notes"):
            items = c["parts"][pi][key]

            def f(sub, pi=pi, key=key):
                if key == "notes" and not sub:
                    return False
                d = json.loads(json.dumps(c))
                d["parts"][pi][key] = sub
                return fails_with(d)
            if key != "notes" and items and f([]):
                c["parts"][pi][key] = []
            elif len(items) >= 2:
                c["parts"][pi][key] = core.ddmin(items, f)
    return c


def shrink_midi(case, sig, runner=None):
    runner = runner or run_midi_case

    def fails_with(d):
        try:
            b, _ = runner(d)
        except Exception:
            return False
        return bool(b) and b[0][:30] == sig

    c = json.loads(json.dumps(case))
    c["tracks"] = [[(d, tuple(s)) for d, s in tr] for tr in c["tracks"]]
    for i in range(len(c["tracks"])):
        def f(sub, i=i):
            d = dict(c, tracks=[sub if j == i else t for j, t in enumerate(c["tracks"])])
            return fails_with(d)
        if c["tracks"][i] and f([]):
            c["tracks"][i] = []
        elif len(c["tracks"][i]) >= 2:
            c["tracks"][i] = core.ddmin(c["tracks"][i], f)
    return c


def replay(obj):
    warnings.filterwarnings("ignore")
    r = obj.get("replay", obj)
    print(json.dumps(obj, indent=1, default=str)[:8000])
    kind = r.get("kind")
    if kind in ("perf", "perf-model"):
        case = r["case"]
        bad, extra = run_perf_case(json.loads(json.dumps(case)), None)
        if extra:
            pps, mf, obs = extra
            for i, t in enumerate(mf.tracks):
                print("saved track %d:" % i, [str(m) for m in t])
            print("loaded:", json.dumps(obs, indent=1, default=str)[:4000])
        print("oracle:", bad or "holds")
    elif kind in ("midi", "midi-model"):
        case = r["case"]
        case["tracks"] = [[(d, tuple(s)) for d, s in tr] for tr in case["tracks"]]
        bad, extra = run_midi_case(case)
        if extra:
            print("loaded:", json.dumps(extra[1], indent=1, default=str)[:4000])
        print("oracle:", bad or "holds")
    elif kind == "tempo-file":
        case = r["case"]
        case["tracks"] = [[(d, tuple(sp)) for d, sp in tr] for tr in case["tracks"]]
        bad, extra = run_tempo_file(case)
        if extra:
            print("(tick -> seconds) without merge_tracks:", sorted((t, v[0]) for t, v in extra[1].items())[:40])
            print("(tick -> seconds) with merge_tracks:   ", sorted((t, v[0]) for t, v in extra[2].items())[:40])
        if extra:
            print("notes without merge_tracks:", extra[3][:40])
            print("notes with merge_tracks:   ", extra[4][:40])
        print("by the property (all tracks, tick order):", [(t, float(sec_of(tempo_steps(case), case["ppq"], t))) for t in sorted(set(extra[1]) | set(extra[2]))][:40] if extra else "")
        print("oracle:", bad or "holds")
    elif kind == "sanitize":
        bad, extra = run_sanitize_case(r["case"])
        print("(part, track) numbers before / after Performance(...):", extra and extra[:2])
        print("oracle:", bad or "holds")
    elif kind == "dispatch":
        import tempfile
        case = r["case"]
        case["tracks"] = [[(d, tuple(s)) for d, s in tr] for tr in case["tracks"]]
        with tempfile.TemporaryDirectory() as tmp:
            bad, extra = run_dispatch_case(case, tmp)
        print("notes / programs of the first part before and after:", extra)
        print("oracle:", bad or "holds")
    elif kind == "history":
        import tempfile
        with tempfile.TemporaryDirectory() as tmp:
            bad, info = h_run(json.loads(json.dumps(r["case"])), tmp)
        print("steps run: %d, saves %d (%d by the property's words), loads %d" % (info["steps"], info["saves"], info["saves_abs"], info["loads"]))
        print("oracle:", bad or "holds")
    elif kind in ("conv", "adjust"):
        import numpy as np
        from partitura.utils.music import seconds_to_midi_ticks, midi_ticks_to_seconds
        from partitura.io.importmidi import adjust_time
        if kind == "conv":
            t, k = r["t"], r["k"]
            arg = {"float": t, "f4": np.float32(t), "f8": np.float64(t), "int": int(t),
                   "array4": np.array([t, 0.0], dtype="f4"), "array8": np.array([t, 0.0], dtype="f8")}[r["tkind"]]
            karg = {"int": k, "i4": np.int32(k), "i8": np.int64(k), "array4": np.array([k, 0], dtype="i4"), "array8": np.array([k, 0], dtype="i8")}[r["kkind"]]
            print("seconds_to_midi_ticks:", seconds_to_midi_ticks(arg, mpq=r["mpq"], ppq=r["ppq"]), "nearest ticks:", tick_cands(r["ppq"], r["mpq"], t))
            print("midi_ticks_to_seconds:", midi_ticks_to_seconds(karg, mpq=r["mpq"], ppq=r["ppq"]), "exact:", float(F(k) * r["mpq"] / (10 ** 6 * r["ppq"])))
        else:
            tc = [tuple(x) for x in r["tc"]]
            print("adjust_time:", [(tk, adjust_time(tk, list(tc), r["ppq"])) for tk in r["ticks"]])
    return 0
