"""C14 -- performed notes sound until release or later, exactly as the pedal dictates.

Implementation under test: partitura/performance.py (PerformedPart, PerformedNote,
adjust_offsets_w_sustain, sustain_pedal_threshold setter, note_array, from_note_array,
Performance.sanitize_track_numbers).

Two independent judges per generated case:
  (a) direct oracle in Python: the sounding end of every note is recomputed from the property's
      words (release if the pedal is up just before the release / no pedal events; otherwise the
      first moment at or after the release at which a pedal event has value <= threshold, the same
      pitch is struck again by another note, or -- no such moment -- the closing sentinel one
      second after the last release/pedal event);
  (b) correspondence: the Gallina model Model/C14.v (the one the theorems of Props/C14.v are
      about) is evaluated by vm_compute on the same inputs and must return the implementation's
      sound_off column after construction and after every threshold assignment, the note_array
      integer columns and the track partition.

Operation histories (added after the seeded change a_no_pedal_no_reset was missed): a part, possibly
built from notes that already carry a sound_off, then steps (threshold assigned; controls replaced,
pruned, extended; notes edited; part rebuilt from the part's notes; note-array round trip).  After
every step both judges look at the CURRENT notes / controls / threshold only -- the result must not
remember anything (Props/C14.v: history_independent, no_pedal_after_history, carried_sound_off_ignored).
"""
import json
import math
import signal
from fractions import Fraction as F

import core
from core import cz, cq, clist, ctuple, copt

PAIRS = [(480, 500000), (96, 600000), (1000, 333333), (1, 10 ** 6), (384, 250000), (960, 1000000)]
THRS = [0, 1, 63, 64, 126, 127]
EXPECT_MIN = 66
F32_TOL = F(1, 2 ** 20)  # relative tolerance for the float32 columns of note_array
CPU_BUDGET = 60.0  # seconds of CPU time (not wall-clock) one implementation call may use


class CpuBudgetExceeded(BaseException):
    """Raised by the SIGVTALRM handler: the implementation used more CPU time than budgeted.
    Derives from BaseException so that no `except Exception` of the code under test swallows it."""


class cpu_guard:
    """Budget of process CPU time (ITIMER_VIRTUAL: counts only while this process executes, so a
    loaded machine cannot trip it)."""

    def __init__(self, seconds=CPU_BUDGET):
        self.seconds = seconds

    def _handler(self, signum, frame):
        raise CpuBudgetExceeded()

    def __enter__(self):
        self.old = signal.signal(signal.SIGVTALRM, self._handler)
        signal.setitimer(signal.ITIMER_VIRTUAL, self.seconds)
        return self

    def __exit__(self, *a):
        signal.setitimer(signal.ITIMER_VIRTUAL, 0)
        signal.signal(signal.SIGVTALRM, self.old)
        return False


TIMEOUT = "did not terminate within %g s of CPU time" % CPU_BUDGET


def guarded(fn, *a, **kw):
    """fn(*a) under the CPU budget; -> (result, None) or (None, TIMEOUT)."""
    try:
        with cpu_guard():
            return fn(*a, **kw), None
    except CpuBudgetExceeded:
        return None, TIMEOUT


# ----------------------------------------------------------------------------
# generator


def gen_ctrls(rng, notes, thr, nc, tie_stream=False, ped_prob=0.7, used=None):
    """nc control events around the given notes; sustain events (number 64) at pairwise distinct
    times (also distinct from the times in `used`) unless tie_stream."""
    lo = min(x["on"] for x in notes)
    hi = max(x["off"] for x in notes)
    ctrls = []
    used = set(used or ())
    interesting_t = sorted({x["off"] for x in notes} | {x["on"] for x in notes})
    for i in range(nc):
        is_ped = rng.random() < ped_prob
        r = rng.random()
        if r < 0.15:
            t = lo - rng.randint(1, 40)  # before the first note (may be negative)
        elif r < 0.3:
            t = hi + rng.randint(1, 40)  # after the last release
        elif r < 0.5:
            t = rng.choice(interesting_t)  # exactly at an onset / release
        elif r < 0.6:
            t = rng.choice(interesting_t) + rng.choice([-1, 1])
        else:
            t = rng.randint(lo, hi) if hi > lo else lo
        num = 64 if is_ped else rng.choice([1, 7, 11, 66, 67, 65, 63])
        if num == 64:
            if tie_stream:
                if used and rng.random() < 0.5:
                    t = rng.choice(sorted(used))
            else:
                while t in used:
                    t += rng.choice([-1, 1, 2, 3])
            used.add(t)
        v = rng.choice([0, 0, 127, 127, 63, 64, 65, thr, min(127, thr + 1), max(0, thr - 1), rng.randint(0, 127), rng.randint(0, 127)])
        ctrls.append(dict(number=num, t=t, value=v, track=rng.choice([0, 0, 1, 3]), channel=rng.randint(0, 15)))
    return ctrls


def gen_case(rng, tie_stream=False):
    """One case: notes, controls, initial threshold, later assignments, ppq/mpq.
    Times are multiples of 1/16 s (exact in float32/float64, so the implementation's
    arithmetic -- +-1 and selections -- is exact)."""
    n = rng.choice([1, 1, 2, 2, 3, 3, 4, 5, 6, 8, 10, 12, 15])
    span = rng.choice([4, 8, 16, 40]) * 16
    npitch = rng.choice([1, 1, 2, 2, 3, 5])
    pitches = rng.sample(range(0, 128), npitch)
    if rng.random() < 0.25:
        pitches[0] = rng.choice([0, 127])  # the ends of the MIDI range (field checks)
    notes = []
    for i in range(n):
        p = rng.choice(pitches)
        r = rng.random()
        if notes and r < 0.25:
            # overlap / touch / re-strike relative to an existing note (often of the same pitch)
            m = rng.choice(notes)
            if rng.random() < 0.7:
                p = m["midi_pitch"]
            on = rng.choice([m["on"], m["off"], rng.randint(m["on"], m["off"]), m["off"] + rng.randint(0, 8),
                             max(0, m["on"] - rng.randint(0, 8))])
        else:
            on = rng.randint(0, span) if rng.random() < 0.9 else 0
        dur = rng.choice([0, 0, 1, 2, 4, 8, 16, rng.randint(0, 64), rng.randint(0, span)])
        notes.append(dict(midi_pitch=p, on=on, off=on + dur, velocity=rng.randint(1, 127) if rng.random() < 0.88 else rng.choice([0, 127, 1, 126]),
                          channel=rng.randint(0, 15) if rng.random() < 0.5 else rng.choice([0, 1]),
                          track=rng.choice([0, 0, 0, 1, 2, 5])))
    order = rng.random()
    if order < 0.3:
        notes.sort(key=lambda x: x["on"])
    elif order < 0.4:
        notes.sort(key=lambda x: -x["on"])
    thr = rng.choice(THRS) if rng.random() < 0.6 else rng.randint(0, 127)
    nc = rng.choice([0, 0, 1, 2, 3, 4, 6, 8, 12, 16, 20])
    scale = rng.choice([16, 16, 16, 16, 1, 4, 1024])
    # 22%: one or two of the three time columns (onsets / releases / control times) hold whole seconds only
    # while the others do not (an array built from such a column alone has an integer dtype)
    whole = []
    if rng.random() < 0.22:
        scale = rng.choice([16, 16, 4])
        whole = rng.choice([["off"], ["off"], ["off"], ["on"], ["ct"], ["on", "off"], ["off", "ct"], ["on", "ct"]])
        snap_notes(notes, whole, scale)
        if nc == 0 or rng.random() < 0.5:
            nc = rng.choice([1, 2, 3, 4, 6, 8])
    ctrls = gen_ctrls(rng, notes, thr, nc, tie_stream)
    if whole:
        if "ct" in whole:
            snap_ctrls(rng, ctrls, scale, tie_stream)
        elif ctrls and rng.random() < 0.7:
            unsnap_ctrls(rng, ctrls, scale, tie_stream)
    thrs = [rng.choice(THRS) if rng.random() < 0.5 else rng.randint(0, 127) for _ in range(rng.choice([1, 2, 3, 4]))]
    if rng.random() < 0.3:
        thrs.append(thrs[-1])  # assigning the same value again
    if rng.random() < 0.2:
        thrs.append(thr)
    ppq, mpq = rng.choice(PAIRS) if rng.random() < 0.8 else (rng.randint(1, 2000), rng.randint(1000, 2 * 10 ** 6))
    if scale == 1:
        mpq = max(mpq, 20000)  # whole-second grid: keep the int32 tick columns of note_array below 2^31
    case = dict(notes=notes, ctrls=ctrls, thr=thr, thrs=thrs, ppq=ppq, mpq=mpq, scale=scale)
    if whole:
        case["whole"] = whole
    gen_shape(rng, case)
    return case


INT_KINDS = ["int", "int", "npint", "npint", "npint32", "float"]
FLOAT_KINDS = ["float", "float", "np64", "np32", "int", "npint"]


def snap_notes(notes, whole, sc):
    """onsets moved down / releases moved up to whole seconds (0 <= onset <= release is kept)"""
    for x in notes:
        if "on" in whole:
            x["on"] = x["on"] // sc * sc
        if "off" in whole:
            x["off"] = -(-x["off"] // sc) * sc
        elif x["off"] < x["on"]:
            x["off"] = x["on"]


def snap_ctrls(rng, ctrls, sc, tie_stream):
    """control times moved to whole seconds; pedal events stay at pairwise distinct times unless tie_stream"""
    used = set()
    for c in ctrls:
        t = (c["t"] + sc // 2) // sc * sc
        if c["number"] == 64 and not tie_stream:
            while t in used:
                t += sc
            used.add(t)
        c["t"] = t


def unsnap_ctrls(rng, ctrls, sc, tie_stream):
    """pedal events that sit on a whole second are moved off it (the releases / onsets are whole: the next
    pedal lift after a release must not be)"""
    used = {c["t"] for c in ctrls if c["number"] == 64}
    for c in ctrls:
        if c["t"] % sc == 0 and rng.random() < 0.8:
            t = c["t"] + rng.choice([1, sc // 2, sc - 1, -1, sc // 4 or 1])
            if c["number"] == 64 and not tie_stream:
                if t in used:
                    continue
                used.discard(c["t"])
                used.add(t)
            c["t"] = t


OPTIONAL_NOTE_KEYS = ["velocity", "channel", "track", "id"]


def gen_shape(rng, case, carried=0.15):
    """How the notes and controls are handed to the constructor (glue around the pedal code):
    number types of the times, optional keys absent, PerformedNote objects instead of dicts,
    stored ticks (note_on_tick / note_off_tick as load_performance_midi leaves them), notes that
    already carry a sounding end, controls=None for an empty control list."""
    r = rng.random()
    whole = case.get("whole")
    if r < 0.55 and not (whole and r < 0.45):
        return
    shape = dict(num=rng.choice(["float", "float", "np32", "np64", "int", "npint"]), obj=rng.random() < 0.25,
                 none_ctrls=rng.random() < 0.5)
    if whole or rng.random() < 0.35:
        # every time column in a number type of its own (Python / numpy, int / float; an int kind is used
        # for the values that are whole, the others stay float)
        shape["kinds"] = {col: rng.choice(INT_KINDS if whole and col in whole else FLOAT_KINDS) for col in ("on", "off", "ct")}
    if rng.random() < 0.2:
        shape["thr_np"] = rng.choice(["int64", "int32"])
    case["shape"] = shape
    om_p = rng.choice([0.0, 0.15, 0.5])
    tk = rng.random() < 0.3
    so = rng.random() < carried
    for x in case["notes"]:
        om = [k for k in OPTIONAL_NOTE_KEYS if rng.random() < om_p]
        if om:
            x["omit"] = om
        if tk and rng.random() < 0.8:
            x["tk"] = True
        if so and rng.random() < 0.8:
            x["so"] = x["off"] + rng.choice([0, 0, 1, 8, 16, rng.randint(0, 64), rng.randint(0, 640)])
    for c in case["ctrls"]:
        if rng.random() < 0.15:
            c["omit"] = rng.choice([["track"], ["channel"], ["track", "channel"]])
        if rng.random() < 0.1:
            c["npval"] = True


def has_order_tie(case):
    """numpy's argsort leaves the order of equal keys unspecified.  The result depends on it only
    when two pedal events share a time, or a zero-length note shares its onset with another
    note of the same pitch."""
    ped = [c["t"] for c in case["ctrls"] if c["number"] == 64]
    if len(set(ped)) != len(ped):
        return True
    ns = case["notes"]
    for i, a in enumerate(ns):
        if a["on"] == a["off"]:
            for j, b in enumerate(ns):
                if i != j and b["midi_pitch"] == a["midi_pitch"] and b["on"] == a["on"]:
                    return True
    return False


def tie_matters(case, thr):
    """An order tie changes the result under threshold thr only if two pedal events at one time
    differ in their thresholded state (equal rows sort to equal arrays), or a zero-length note
    shares its onset with another note of its pitch."""
    seen = {}
    for c in case["ctrls"]:
        if c["number"] == 64:
            s_ = c["value"] > thr
            if seen.setdefault(c["t"], s_) != s_:
                return True
    ns = case["notes"]
    for i, a in enumerate(ns):
        if a["on"] == a["off"]:
            for j, b in enumerate(ns):
                if i != j and b["midi_pitch"] == a["midi_pitch"] and b["on"] == a["on"]:
                    return True
    return False


# ----------------------------------------------------------------------------
# the property's words, computed directly (exact rationals)


def spec_end(case, thr, i):
    """-> (sounding end, stated?).  stated = False: the pedal is down at the release and there is
    no later moment with a pedal value <= threshold and no later strike of the pitch -- the
    statement does not say when such a note ends (only: not before its release); the value
    returned then is the implementation's convention, one second after the last pedal event /
    release, used for planning and reporting only, never demanded."""
    sc = case["scale"]
    ns, cs = case["notes"], case["ctrls"]
    off = ns[i]["off"]
    ped = [(c["t"], c["value"]) for c in cs if c["number"] == 64]
    if not ped:
        return F(off, sc), True
    before = [(t, k, v) for k, (t, v) in enumerate(ped) if t < off]
    if not before:
        return F(off, sc), True
    latest = max(before, key=lambda x: (x[0], x[1]))  # ties (tie stream only): last listed
    if not latest[2] > thr:
        return F(off, sc), True
    cands = [t for t, v in ped if t >= off and v <= thr]
    cands += [b["on"] for j, b in enumerate(ns) if j != i and b["midi_pitch"] == ns[i]["midi_pitch"] and b["on"] >= off]
    if not cands:
        return F(max(max(t for t, _ in ped), max(x["off"] for x in ns)) + sc, sc), False
    return F(min(cands), sc), True


def spec_sound_off(case, thr, i):
    return spec_end(case, thr, i)[0]


def end_reasons(case, thr):
    """which clauses of the statement decide the sounding ends of this case under thr (for the evidence)"""
    out = set()
    ns, cs = case["notes"], case["ctrls"]
    ped = [(c["t"], c["value"]) for c in cs if c["number"] == 64]
    for i, x in enumerate(ns):
        off = x["off"]
        if not ped:
            out.add("release:no_pedal_events")
            continue
        before = [(t, k, v) for k, (t, v) in enumerate(ped) if t < off]
        if not before:
            out.add("release:no_pedal_event_before_it")
            continue
        latest = max(before, key=lambda e: (e[0], e[1]))
        if not latest[2] > thr:
            out.add("release:pedal_up" + ("(value==threshold)" if latest[2] == thr else ""))
            continue
        if latest[2] == thr + 1:
            out.add("pedal_down_by_one(value==threshold+1)")
        lifts = [t for t, v in ped if t >= off and v <= thr]
        strikes = [b["on"] for j, b in enumerate(ns) if j != i and b["midi_pitch"] == x["midi_pitch"] and b["on"] >= off]
        if not lifts and not strikes:
            out.add("open:pedal_never_lifted_pitch_never_struck_again")
        elif strikes and (not lifts or min(strikes) <= min(lifts)):
            out.add("restrike" + ("(exactly_at_release)" if min(strikes) == off else ""))
            if any(b["on"] < off and b["on"] > x["on"] for j, b in enumerate(ns) if j != i and b["midi_pitch"] == x["midi_pitch"]):
                out.add("restrike_after_a_strike_while_the_key_was_held")
        else:
            out.add("pedal_lift" + ("(exactly_at_release)" if min(lifts) == off else ""))
    return out


TICK_EPS = F(1, 1000)  # allowance for the float evaluation of 1e6 * ppq * t / mpq


def ticks_of(ppq, mpq, t):
    return F(10 ** 6) * ppq * F(t) / mpq


# ----------------------------------------------------------------------------
# implementation runner


def numk(v, kind):
    """the rational v (exactly representable in single precision) as the number type `kind`"""
    import numpy as np

    f = float(v)
    assert F(f) == F(v), v
    if kind == "np32":
        assert F(float(np.float32(f))) == F(v), v
        return np.float32(f)
    if kind == "np64":
        return np.float64(f)
    if kind == "int" and f == int(f):
        return int(f)
    if kind == "npint":
        return np.int64(int(f)) if f == int(f) else np.float64(f)
    if kind == "npint32":
        return np.int32(int(f)) if f == int(f) else np.float64(f)
    return f


def kind_of(shape, col):
    """the number type of the time column col ("on" / "off" / "ct") under the shape"""
    shape = shape or {}
    return (shape.get("kinds") or {}).get(col, shape.get("num", "float"))


def thr_value(thr, shape):
    import numpy as np

    k = (shape or {}).get("thr_np")
    return thr if not k else (np.int64(thr) if k == "int64" else np.int32(thr))


def lib_tick(t, ppq, mpq):
    from partitura.utils.music import seconds_to_midi_ticks

    return int(seconds_to_midi_ticks(float(t), mpq=mpq, ppq=ppq))


def note_dict(x, k, sc, shape=None, ppq=480, mpq=500000):
    """The dict handed to PerformedPart / PerformedNote for the abstract note x."""
    kind = kind_of(shape, "off")
    d = dict(id="n%d" % k, midi_pitch=x["midi_pitch"], note_on=numk(F(x["on"], sc), kind_of(shape, "on")), note_off=numk(F(x["off"], sc), kind),
             velocity=x["velocity"], channel=x["channel"], track=x["track"])
    if x.get("tk"):
        d["note_on_tick"] = lib_tick(F(x["on"], sc), ppq, mpq)
        d["note_off_tick"] = lib_tick(F(x["off"], sc), ppq, mpq)
    if "so" in x:
        d["sound_off"] = numk(F(x["so"], sc), kind)
    for key in x.get("omit", ()):
        del d[key]
    return d


def ctrl_dict(c, sc, shape=None):
    import numpy as np

    kind = kind_of(shape, "ct")
    d = dict(number=c["number"], time=numk(F(c["t"], sc), kind), value=np.int64(c["value"]) if c.get("npval") else c["value"],
             track=c["track"], channel=c["channel"])
    for key in c.get("omit", ()):
        del d[key]
    return d


def make_part(notes, ctrls, thr, ppq, mpq, sc, shape=None):
    import partitura.performance as P

    nd = [note_dict(x, k, sc, shape, ppq, mpq) for k, x in enumerate(notes)]
    if shape and shape.get("obj"):
        nd = [P.PerformedNote(d) for d in nd]
    cd = [ctrl_dict(c, sc, shape) for c in ctrls]
    if shape and shape.get("none_ctrls") and not cd:
        cd = None
    return P.PerformedPart(nd, controls=cd, sustain_pedal_threshold=thr_value(thr, shape), ppq=ppq, mpq=mpq)


def build_part(case, thr=None):
    return make_part(case["notes"], case["ctrls"], case["thr"] if thr is None else thr, case["ppq"], case["mpq"], case["scale"], case.get("shape"))


def so_column(pp):
    return [F(float(n["sound_off"])) for n in pp.notes]


def run_impl(case):
    """-> dict(obs0=None|[Fraction], hist=[[Fraction]], err=str|None, na=..., rebuilt=...)"""
    out = dict(obs0=None, hist=[], err=None, na=None, rebuilt=None, fresh=[], vel=None)
    try:
        pp = build_part(case)
    except Exception as e:
        out["err"] = "%s: %s" % (type(e).__name__, e)
        return out
    out["obs0"] = so_column(pp)
    out["vel"] = [int(n["velocity"]) for n in pp.notes]
    try:
        scribble(pp.note_array())
        na = pp.note_array()
        out["na"] = [dict(onset_sec=F(float(r["onset_sec"])), duration_sec=F(float(r["duration_sec"])),
                          onset_tick=int(r["onset_tick"]), duration_tick=int(r["duration_tick"]),
                          pitch=int(r["pitch"]), velocity=int(r["velocity"])) for r in na]
        import partitura.performance as P
        rb = P.PerformedPart.from_note_array(na)
        out["rebuilt"] = [dict(pitch=int(n["midi_pitch"]), velocity=int(n["velocity"]), on=F(float(n["note_on"])),
                               so=F(float(n["sound_off"]))) for n in rb.notes]
        # the same array in the other forms from_note_array documents: optional fields (id / track / channel) absent,
        # mandatory columns only, other column order, float64 / int64 columns
        variant = (len(case["notes"]) + case["thr"] + len(case["ctrls"])) % 5
        out["variant"] = variant
        if variant:
            import numpy as np
            names = [["onset_sec", "duration_sec", "pitch", "velocity"], ["velocity", "pitch", "duration_sec", "onset_sec", "channel"],
                     ["pitch", "onset_sec", "duration_sec", "velocity", "track", "id"], list(na.dtype.names)[::-1]][variant - 1]
            kinds = dict(onset_sec="f8" if variant % 2 else "f4", duration_sec="f8" if variant % 2 else "f4", pitch="i8" if variant > 2 else "i4",
                         velocity="i8" if variant > 2 else "i4", track="i4", channel="i8", id="U256", onset_tick="i4", duration_tick="i4")
            na2 = np.zeros(len(na), dtype=[(nm, kinds[nm]) for nm in names])
            for nm in names:
                na2[nm] = na[nm]
            rb2 = P.PerformedPart.from_note_array(na2)
            out["rebuilt2"] = [dict(pitch=int(n["midi_pitch"]), velocity=int(n["velocity"]), on=F(float(n["note_on"])),
                                    so=F(float(n["sound_off"]))) for n in rb2.notes]
    except Exception as e:
        out["err"] = "note_array/from_note_array: %s: %s" % (type(e).__name__, e)
        return out
    for t in case["thrs"]:
        try:
            pp.sustain_pedal_threshold = t
        except Exception as e:
            out["err"] = "setter(%d): %s: %s" % (t, type(e).__name__, e)
            return out
        out["hist"].append(so_column(pp))
    # the function behind the setter called directly on plain dicts (its documented argument type), after the
    # part has been through all the assignments: same notes, controls and first threshold
    out["direct"] = None
    try:
        import partitura.performance as P
        shape = case.get("shape")
        ds = [note_dict(x, k, case["scale"], shape, case["ppq"], case["mpq"]) for k, x in enumerate(case["notes"])]
        cd = [ctrl_dict(c, case["scale"], shape) for c in case["ctrls"]]
        P.adjust_offsets_w_sustain(ds, cd, case["thr"])
        out["direct"] = [F(float(d["sound_off"])) for d in ds]
    except Exception as e:
        out["direct_err"] = "%s: %s" % (type(e).__name__, e)  # counted, not judged
    return out


# ----------------------------------------------------------------------------
# oracle


def oracle(case, res, tie):
    """-> list of failure strings (empty = the property holds on this case)."""
    bad = []
    sc = case["scale"]
    ns = case["notes"]
    if res["obs0"] is None:
        return ["construction failed for notes with 0 <= onset <= release: " + str(res["err"])]
    if res["err"]:
        return [res["err"]]
    cols = [(case["thr"], res["obs0"])] + list(zip(case["thrs"], res["hist"]))
    no_pedal = not any(c["number"] == 64 for c in case["ctrls"])
    for thr, col in cols:
        if len(col) != len(ns):
            bad.append("sound_off column has %d entries for %d notes" % (len(col), len(ns)))
            continue
        open_tie = tie and tie_matters(case, thr)
        for i, so in enumerate(col):
            off = F(ns[i]["off"], sc)
            if so < off:
                bad.append("threshold %d note %d: sound_off %s < note_off %s" % (thr, i, float(so), float(off)))
            elif no_pedal and so != off:
                bad.append("threshold %d note %d: no pedal events, sound_off %s differs from the release %s" % (thr, i, float(so), float(off)))
            elif not open_tie:
                exp, stated = spec_end(case, thr, i)
                if stated and so != exp:
                    bad.append("threshold %d note %d (pitch %d, on %s, off %s): sound_off %s, the pedal dictates %s"
                               % (thr, i, ns[i]["midi_pitch"], ns[i]["on"] / sc, float(off), float(so), float(exp)))
            if thr >= 127 and so != off:
                bad.append("threshold %d note %d: sound_off %s differs from the release %s" % (thr, i, float(so), float(off)))
    if res.get("rebuilt2") is not None and res["rebuilt2"] != res["rebuilt"]:
        bad.append("from_note_array of the note array with %s gives (pitch, velocity, onset, sounding end) %s, of the array as note_array() returned it %s"
                   % (["", "the mandatory fields only", "no id / track, other column order", "no channel, 64-bit columns", "the columns reversed, 64-bit"][res["variant"]],
                      [(r["pitch"], r["velocity"], float(r["on"]), float(r["so"])) for r in res["rebuilt2"]][:4],
                      [(r["pitch"], r["velocity"], float(r["on"]), float(r["so"])) for r in res["rebuilt"]][:4]))
    if res.get("direct") is not None and res["direct"] != res["obs0"]:
        bad.append("adjust_offsets_w_sustain(note dicts, controls, %d) gives the sounding ends %s, the part built from the same notes and controls has %s"
                   % (case["thr"], [float(x) for x in res["direct"]], [float(x) for x in res["obs0"]]))
    # raising the threshold never lengthens a note; equal thresholds give equal columns
    for a in range(len(cols)):
        for b in range(len(cols)):
            ta, ca = cols[a]
            tb, cb = cols[b]
            if len(ca) != len(cb):
                continue
            if ta == tb and ca != cb:
                bad.append("threshold %d assigned twice gives different sound_off columns (not recomputed from notes and controls)" % ta)
            if ta <= tb and not tie and any(y > x for x, y in zip(ca, cb)):
                bad.append("raising the threshold from %d to %d lengthened a note" % (ta, tb))
    # note array
    ppq, mpq = case["ppq"], case["mpq"]
    na = res["na"]
    # a note built without a velocity key has the velocity the part gave it (the default is not part of the property)
    vels = [res["vel"][i] if "velocity" in x.get("omit", ()) else x["velocity"] for i, x in enumerate(ns)] if res.get("vel") and len(res["vel"]) == len(ns) else [x["velocity"] for x in ns]
    if na is not None:
        if len(na) != len(ns):
            bad.append("note_array has %d rows for %d notes" % (len(na), len(ns)))
        else:
            for i, r in enumerate(na):
                on = F(ns[i]["on"], sc)
                so = res["obs0"][i]
                if r["pitch"] != ns[i]["midi_pitch"] or r["velocity"] != vels[i]:
                    bad.append("note_array row %d: pitch/velocity %d/%d, note has %d/%d" % (i, r["pitch"], r["velocity"], ns[i]["midi_pitch"], vels[i]))
                if abs(r["onset_sec"] - on) > F32_TOL * max(1, abs(on)):
                    bad.append("note_array row %d: onset_sec %s, note_on %s" % (i, float(r["onset_sec"]), float(on)))
                if abs(r["duration_sec"] - (so - on)) > F32_TOL * max(1, abs(so)):
                    bad.append("note_array row %d: duration_sec %s, sounding end - onset = %s" % (i, float(r["duration_sec"]), float(so - on)))
                # onsets in seconds and ticks agree: the tick column is the nearest tick
                if abs(r["onset_tick"] - ticks_of(ppq, mpq, on)) > F(1, 2) + TICK_EPS:
                    bad.append("note_array row %d: onset_tick %d, onset %s s is %s ticks at ppq %d mpq %d" % (i, r["onset_tick"], float(on), float(ticks_of(ppq, mpq, on)), ppq, mpq))
                # durations in ticks agree with the seconds when no pedal extends the note (two roundings: within one tick)
                if so == F(ns[i]["off"], sc) and abs(r["duration_tick"] - ticks_of(ppq, mpq, so - on)) > 1 + TICK_EPS:
                    bad.append("note_array row %d: duration_tick %d, the duration %s s is %s ticks (no pedal extends the note)"
                               % (i, r["duration_tick"], float(so - on), float(ticks_of(ppq, mpq, so - on))))
    rb = res["rebuilt"]
    if rb is not None:
        if len(rb) != len(ns):
            bad.append("from_note_array(note_array()) has %d notes for %d" % (len(rb), len(ns)))
        else:
            for i, r in enumerate(rb):
                on = F(ns[i]["on"], sc)
                so = res["obs0"][i]
                if (r["pitch"] != ns[i]["midi_pitch"] or r["velocity"] != vels[i]
                        or abs(r["on"] - on) > F32_TOL * max(1, abs(on)) or abs(r["so"] - so) > F32_TOL * max(1, abs(so))):
                    bad.append("from_note_array(note_array()) note %d: pitch %d velocity %d onset %s sounding end %s; original %d %d %s %s"
                               % (i, r["pitch"], r["velocity"], float(r["on"]), float(r["so"]), ns[i]["midi_pitch"], vels[i], float(on), float(so)))
    return bad


# ----------------------------------------------------------------------------
# Coq terms


def c_note(x, sc, vel=None):
    return "(mkNote %s %s %s %s)" % (cz(x["midi_pitch"]), cz(x["velocity"] if vel is None else vel), cq(F(x["on"], sc)), cq(F(x["off"], sc)))


def c_ctrl(c, sc):
    return "(mkCtrl %s %s %s)" % (cz(c["number"]), cq(F(c["t"], sc)), cz(c["value"]))


def c_qlist(col):
    return clist([cq(x) for x in col])


def term_history(case, res):
    sc = case["scale"]
    return ctuple([cz(case["thr"]), clist([c_note(x, sc) for x in case["notes"]]), clist([c_ctrl(c, sc) for c in case["ctrls"]]),
                   clist([cz(t) for t in case["thrs"]]), copt(res["obs0"], c_qlist), clist([c_qlist(h) for h in res["hist"]])])


def term_note_array(case, res):
    sc = case["scale"]
    ppq, mpq = case["ppq"], case["mpq"]
    rows = []
    for i, r in enumerate(res["na"]):
        on = F(case["notes"][i]["on"], sc)
        off = F(case["notes"][i]["off"], sc)
        dt = r["duration_tick"] if res["obs0"][i] == off else None
        rows.append(ctuple([cz(r["pitch"]), cz(r["velocity"]), cz(r["onset_tick"]), copt(dt, cz)]))
    return ctuple([cz(ppq), cz(mpq), cz(case["thr"]), clist([c_note(x, sc, res["vel"][i]) for i, x in enumerate(case["notes"])]),
                   clist([c_ctrl(c, sc) for c in case["ctrls"]]), clist(rows)])


def c_ndict(x, sc, ppq, mpq):
    """the note dict of the abstract note x as the model's ndict (None = key absent)"""
    return "(mkND %s %s %s %s %s %s %s)" % (
        cz(x["midi_pitch"]), copt(F(x["on"], sc), cq), copt(F(x["off"], sc), cq), copt(F(x["so"], sc) if "so" in x else None, cq),
        copt(None if "velocity" in x.get("omit", ()) else x["velocity"], cz),
        copt(lib_tick(F(x["on"], sc), ppq, mpq) if x.get("tk") else None, cz), copt(lib_tick(F(x["off"], sc), ppq, mpq) if x.get("tk") else None, cz))


def term_pp_new(case, res):
    """PerformedPart built from the dicts as handed over (optional keys absent, carried sounding
    ends, stored ticks): sound_off column and the integer columns of note_array."""
    sc = case["scale"]
    ppq, mpq = case["ppq"], case["mpq"]
    rows = []
    for i, r in enumerate(res["na"]):
        off = F(case["notes"][i]["off"], sc)
        dt = r["duration_tick"] if res["obs0"][i] == off else None
        rows.append(ctuple([cz(r["pitch"]), cz(r["velocity"]), cz(r["onset_tick"]), copt(dt, cz)]))
    return ctuple([cz(ppq), cz(mpq), cz(case["thr"]), clist([c_ndict(x, sc, ppq, mpq) for x in case["notes"]]),
                   clist([c_ctrl(c, sc) for c in case["ctrls"]]), "(Some %s)" % ctuple([c_qlist(res["obs0"]), clist(rows)])])


# ----------------------------------------------------------------------------
# PerformedNote: field validation at construction and on assignment
#
# A case: "d" (pitch, on, off in 1/16 s; optional velocity, so, on_tick, off_tick; "drop": keys
# removed to exercise the defaults) and "edits": [(key, value)] applied with note[key] = value.

PN_SC = 16
TIME_KEYS = ("note_on", "note_off", "sound_off")


def gen_pnote_case(rng):
    pitch = rng.choice([0, 127, 1, 126, rng.randint(0, 127), rng.randint(0, 127)])
    on = rng.choice([0, 0, 1, rng.randint(0, 200), rng.randint(0, 200)])
    off = on + rng.choice([0, 0, 1, 4, rng.randint(0, 100)])
    d = dict(midi_pitch=pitch, note_on=on, note_off=off)
    if rng.random() < 0.8:
        d["velocity"] = rng.choice([0, 127, 1, rng.randint(0, 127), rng.randint(0, 127)])
    if rng.random() < 0.4:
        d["sound_off"] = off + rng.choice([0, 0, 1, 16, rng.randint(0, 300)])
    r = rng.random()
    k = rng.choice([0, 0, 1, rng.randint(0, 5000)])
    if r < 0.25:
        d["note_on_tick"], d["note_off_tick"] = k, k + rng.choice([0, 0, 1, 100])
    elif r < 0.33:
        d["note_on_tick"] = k
    elif r < 0.4:
        d["note_off_tick"] = k
    if rng.random() < 0.35:  # one field outside what the statement is about
        which = rng.choice(["pitch", "velocity", "on", "off", "so", "on_tick", "off_tick", "no_on", "no_off"])
        if which == "pitch":
            d["midi_pitch"] = rng.choice([-1, 128, 200])
        elif which == "velocity":
            d["velocity"] = rng.choice([-1, 128])
        elif which == "on":
            d["note_on"] = rng.choice([-1, -16])
        elif which == "off":
            d["note_off"] = d["note_on"] - rng.choice([1, 1, 16]) if d["note_on"] > 0 else -1
        elif which == "so":
            d["sound_off"] = d["note_off"] - rng.choice([1, 1, 5])
        elif which == "on_tick":
            d["note_on_tick"] = -rng.choice([1, 5])
        elif which == "off_tick":
            d["note_on_tick"] = k + 1
            d["note_off_tick"] = rng.choice([k, 0, -1])
        elif which == "no_on":
            del d["note_on"]
        else:
            del d["note_off"]
    edits = []
    for _ in range(rng.choice([0, 1, 2, 3, 4])):
        key = rng.choice(["note_off", "note_off", "note_off", "sound_off", "sound_off", "note_on", "velocity", "pitch", "note_on_tick",
                          "note_off_tick", "track", "channel", "id", "midi_pitch", "foo"])
        if key in TIME_KEYS:
            v = rng.choice([on, off, off + 1, off + 16, max(0, on - 1), on + 1, 0, -1, rng.randint(0, 400), d.get("sound_off", off), d.get("sound_off", off) + 1])
        elif key in ("velocity", "pitch", "midi_pitch"):
            v = rng.choice([0, 127, -1, 128, rng.randint(0, 127)])
        elif key in ("note_on_tick", "note_off_tick"):
            v = rng.choice([0, -1, k, k + 1, k - 1, rng.randint(0, 5000)])
        else:
            v = rng.randint(0, 15)
        edits.append([key, v])
    out = dict(d=d, edits=edits)
    if rng.random() < 0.4:
        out["num"] = rng.choice(["int", "npint", "npint32", "np64", "np32"])  # the number type of the times (int kinds: where whole)
    return out


def pn_fields(n):
    """the stored fields of a PerformedNote as exact values: (pitch, on, off, so, velocity, on tick, off tick)"""
    return dict(pitch=int(n["midi_pitch"]), on=F(float(n["note_on"])), off=F(float(n["note_off"])), so=F(float(n["sound_off"])),
                vel=int(n["velocity"]), ont=None if n["note_on_tick"] is None else int(n["note_on_tick"]),
                offt=None if n["note_off_tick"] is None else int(n["note_off_tick"]))


def run_pnote(case):
    """-> (fields after construction | None, [fields after the assignment | None], error texts)"""
    import partitura.performance as P

    d = dict(case["d"])
    kind = case.get("num", "float")
    for key in TIME_KEYS:
        if key in d:
            d[key] = numk(F(d[key], PN_SC), kind)
    errs = []
    try:
        n = P.PerformedNote(d)
        f0 = pn_fields(n)
    except Exception as e:
        return None, [], ["%s: %s" % (type(e).__name__, e)]
    outs = []
    for key, v in case["edits"]:
        try:
            n[key] = numk(F(v, PN_SC), kind) if key in TIME_KEYS else v
            outs.append(pn_fields(n))
            errs.append(None)
        except Exception as e:
            outs.append(None)
            errs.append("%s: %s" % (type(e).__name__, e))
    return f0, outs, errs


def pn_dict_valid(d):
    """what the statement presupposes of a note: 0 <= onset <= release, MIDI pitch and velocity,
    a carried sounding end not before the release, stored ticks non-negative and ordered"""
    if "note_on" not in d or "note_off" not in d:
        return False
    ok = 0 <= d["midi_pitch"] <= 127 and 0 <= d.get("velocity", 64) <= 127 and 0 <= d["note_on"] <= d["note_off"]
    ok = ok and d.get("sound_off", d["note_off"]) >= d["note_off"] and d.get("note_on_tick", 0) >= 0
    if "note_off_tick" in d:
        ok = ok and d["note_off_tick"] >= max(0, d.get("note_on_tick", 0))
    return ok


def oracle_pnote(case, f0, outs):
    """Direct oracle: a note the statement is about is accepted and stored as given; an assignment
    that keeps 0 <= onset <= release <= sounding end (and MIDI ranges) is accepted and stored.
    Rejections of anything else are not judged."""
    d = case["d"]
    bad = []
    if not pn_dict_valid(d):
        return bad
    if f0 is None:
        return ["PerformedNote(%s) raised for a note with 0 <= onset <= release" % json.dumps(d, sort_keys=True)]
    exp = dict(pitch=d["midi_pitch"], on=F(d["note_on"], PN_SC), off=F(d["note_off"], PN_SC))
    if "velocity" in d:
        exp["vel"] = d["velocity"]
    if "sound_off" in d:
        exp["so"] = F(d["sound_off"], PN_SC)
    for k_, v in exp.items():
        if f0[k_] != v:
            bad.append("PerformedNote(%s) stores %s = %s" % (json.dumps(d, sort_keys=True), k_, f0[k_]))
    if f0["so"] < f0["off"]:
        bad.append("PerformedNote(%s): sound_off %s < note_off %s" % (json.dumps(d, sort_keys=True), float(f0["so"]), float(f0["off"])))
    cur = f0
    name = dict(note_on="on", note_off="off", sound_off="so", velocity="vel", note_on_tick="ont", note_off_tick="offt")
    for (key, v), o in zip(case["edits"], outs):
        val = F(v, PN_SC) if key in TIME_KEYS else v
        if key == "note_off":
            valid = val >= cur["on"]
        elif key == "sound_off":
            valid = val >= cur["off"]
        elif key == "note_on":
            valid = 0 <= val <= cur["off"]
        elif key in ("velocity", "pitch"):
            valid = 0 <= val <= 127
        elif key == "note_on_tick":
            valid = 0 <= val and (cur["offt"] is None or val <= cur["offt"])
        elif key == "note_off_tick":
            valid = val >= max(0, cur["ont"] if cur["ont"] is not None else 0)
        else:
            valid = key in ("track", "channel", "id")
        if valid:
            if o is None:
                bad.append("note[%r] = %s raised on a note with onset %s, release %s, sounding end %s" % (key, float(val), float(cur["on"]), float(cur["off"]), float(cur["so"])))
            elif key in name and o[name[key]] != val:
                bad.append("note[%r] = %s stored %s" % (key, float(val), o[name[key]]))
        if o is not None:
            cur = o
    return bad


def c_pn(f):
    return "(mkPN %s %s %s %s %s %s %s)" % (cz(f["pitch"]), cq(f["on"]), cq(f["off"]), cq(f["so"]), cz(f["vel"]), copt(f["ont"], cz), copt(f["offt"], cz))


def c_edit(key, v):
    if key in TIME_KEYS:
        return "(%s %s)" % (dict(note_on="EOn", note_off="EOff", sound_off="ESo")[key], cq(F(v, PN_SC)))
    if key in ("velocity", "pitch", "note_on_tick", "note_off_tick"):
        return "(%s %s)" % (dict(velocity="EVel", pitch="EPitch", note_on_tick="EOnTick", note_off_tick="EOffTick")[key], cz(v))
    return "EOther" if key in ("track", "channel", "id") else "EBadKey"


def term_pnote(case, f0, outs):
    d = case["d"]

    def q(key):
        return copt(F(d[key], PN_SC) if key in d else None, cq)

    nd = "(mkND %s %s %s %s %s %s %s)" % (cz(d["midi_pitch"]), q("note_on"), q("note_off"), q("sound_off"), copt(d.get("velocity"), cz),
                                          copt(d.get("note_on_tick"), cz), copt(d.get("note_off_tick"), cz))
    return ctuple([nd, clist([c_edit(k_, v) for k_, v in case["edits"]]), copt(f0, c_pn), clist([copt(o, c_pn) for o in outs])])




# ----------------------------------------------------------------------------
# operation histories over a PerformedPart
#
# A history case: case["notes"] (a note may carry "so": a preset sound_off >= its release, as a
# note dict copied from another part does), case["ctrls"], case["thr"], and case["steps"]:
#   {"op": "thr", "thr": t}
#   {"op": "ctrls", "how": replace|extend|delete|clear|remove_pedal|remove_pedal_inplace, ..., "thr": t}
#   {"op": "note", "how": off|on|add|del, ..., "thr": t}
#   {"op": "rebuild", "how": dicts|objects|copy, "ctrls": "same"|"nopedal"|[...], "thr": t}
#   {"op": "roundtrip"}
# Every step ends with what makes the implementation recompute (threshold assignment / constructor).
# Two independent interpreters of the steps: abs_apply (the harness's own bookkeeping of the current
# notes / controls / threshold, which feeds the oracle and the Coq model) and impl_apply (the
# operations on the real objects).


def gen_note(rng, notes):
    lo = min(x["on"] for x in notes)
    hi = max(x["off"] for x in notes)
    if rng.random() < 0.7:
        m = rng.choice(notes)
        p = m["midi_pitch"]
        on = rng.choice([m["on"], m["off"], m["off"] + rng.randint(0, 8), max(0, m["on"] - rng.randint(0, 8)), rng.randint(lo, max(lo, hi))])
    else:
        p = rng.randint(0, 127)
        on = rng.randint(lo, max(lo, hi) + 16)
    dur = rng.choice([0, 1, 4, 16, rng.randint(0, 64)])
    return dict(midi_pitch=p, on=on, off=on + dur, velocity=rng.randint(1, 127), channel=rng.randint(0, 15), track=rng.choice([0, 0, 1]))


def gen_step(rng, st, tie_stream):
    cur = st["thr"]

    def pick_thr():
        r = rng.random()
        if r < 0.45:
            return cur  # the value the part already has: the assignment must still recompute
        if r < 0.75:
            return rng.choice(THRS)
        return rng.randint(0, 127)

    has_ped = any(c["number"] == 64 for c in st["ctrls"])
    ped_times = {c["t"] for c in st["ctrls"] if c["number"] == 64}
    step = gen_step_raw(rng, st, tie_stream, pick_thr, has_ped, ped_times)
    # the number types of what the step hands over (times: Python / numpy, int where whole; threshold: int / numpy int)
    if step["op"] in ("ctrls", "note", "rebuild") and rng.random() < 0.4:
        step["num"] = rng.choice(["int", "npint", "npint32", "np64", "np32", "int", "npint"])
    if "thr" in step and rng.random() < 0.15:
        step["thr_np"] = rng.choice(["int64", "int32"])
    return step


def gen_step_raw(rng, st, tie_stream, pick_thr, has_ped, ped_times):
    cur = st["thr"]
    sc = st.get("scale", 16)
    whole = st.get("whole") or []
    r = rng.random()
    if r < 0.06:
        # the part's ppq / mpq attributes changed: note_array() must report ticks under the current ones
        ppq, mpq = rng.choice(PAIRS) if rng.random() < 0.7 else (rng.randint(1, 2000), rng.randint(20000, 2 * 10 ** 6))
        return dict(op="ppq", ppq=ppq, mpq=max(mpq, 20000))
    if r < 0.15:
        # the setter, or the function behind it called directly on the part's notes and controls
        return dict(op="thr", thr=pick_thr(), **({"direct": True} if rng.random() < 0.3 else {}))
    if r < 0.52:
        hows = ["replace", "replace", "extend", "extend", "delete", "clear"]
        hows += ["remove_pedal", "remove_pedal", "remove_pedal_inplace", "remove_pedal_inplace"] if has_ped else ["extend", "extend", "replace"]
        if st["ctrls"]:
            hows += ["edit", "edit", "edit", "edit"]
        how = rng.choice(hows)
        step = dict(op="ctrls", how=how, thr=pick_thr())
        if how == "edit":
            # one control event changed IN PLACE (same list, same dict, same length): value, time or controller number
            k = rng.randrange(len(st["ctrls"]))
            peds = [j for j, c in enumerate(st["ctrls"]) if c["number"] == 64]
            if peds and rng.random() < 0.8:
                k = rng.choice(peds)
            c = st["ctrls"][k]
            step["idx"] = k
            what = rng.choice(["value", "value", "value", "time", "time", "number"])
            if what == "value":
                step["value"] = rng.choice([0, 127, cur, min(127, cur + 1), max(0, cur - 1), 127 - c["value"], rng.randint(0, 127)])
            elif what == "time":
                marks = sorted({x["off"] for x in st["notes"]} | {x["on"] for x in st["notes"]})
                t = rng.choice([c["t"] + rng.choice([-1, 1, 4, -4, 16, -16]), rng.choice(marks), rng.choice(marks) + rng.choice([-1, 1])])
                if "ct" in whole:
                    t = t // sc * sc
                if (c["number"] == 64 and not tie_stream) and t in ped_times - {c["t"]}:
                    t = c["t"]
                step["t"] = t
            else:
                step["number"] = 64 if c["number"] != 64 else rng.choice([66, 67, 1])
                if step["number"] == 64 and not tie_stream and c["t"] in ped_times:
                    step["number"] = c["number"]
        if how == "replace":
            step["ctrls"] = gen_ctrls(rng, st["notes"], cur, rng.choice([0, 1, 2, 3, 4, 6, 8]), tie_stream, ped_prob=rng.choice([0.0, 0.7, 0.9]))
        elif how == "extend":
            step["ctrls"] = gen_ctrls(rng, st["notes"], cur, rng.choice([1, 1, 2, 3, 5]), tie_stream, ped_prob=rng.choice([0.5, 0.9, 1.0]), used=ped_times)
        elif how == "delete":
            step["idx"] = rng.randint(0, 40)
        if "ct" in whole and "ctrls" in step:
            snap_ctrls(rng, step["ctrls"], sc, tie_stream)
            if how == "extend" and not tie_stream:
                used = set(ped_times)
                for c in step["ctrls"]:
                    if c["number"] == 64:
                        while c["t"] in used:
                            c["t"] += sc
                        used.add(c["t"])
        return step
    if r < 0.72:
        how = rng.choice(["off", "off", "off", "on", "add", "del"])
        step = dict(op="note", how=how, thr=pick_thr())
        if how in ("off", "on"):
            step["idx"] = rng.randint(0, 40)
            step["d"] = rng.choice([0, 0, 1, 4, 16, rng.randint(0, 64), rng.randint(0, 400)])
            x = st["notes"][step["idx"] % len(st["notes"])]
            if how == "off" and "off" in whole:
                step["d"] = -(-(x["on"] + step["d"]) // sc) * sc - x["on"]  # the new release is a whole second again
            if how == "on" and "on" in whole:
                step["d"] = x["off"] - max(0, x["off"] - step["d"]) // sc * sc
        elif how == "add":
            step["note"] = gen_note(rng, st["notes"])
            snap_notes([step["note"]], whole, sc)
        else:
            step["idx"] = rng.randint(0, 40)
        return step
    if r < 0.9:
        ctrls = rng.choice(["same", "nopedal", "nopedal", None])
        if ctrls is None:
            ctrls = gen_ctrls(rng, st["notes"], cur, rng.choice([0, 1, 2, 4, 6]), tie_stream, ped_prob=rng.choice([0.0, 0.7, 0.9]))
        return dict(op="rebuild", how=rng.choice(["dicts", "objects", "copy"]), ctrls=ctrls, thr=pick_thr())
    return dict(op="roundtrip")


def state_view(st, sc):
    return dict(notes=st["notes"], ctrls=st["ctrls"], scale=sc)


def initial_state(case):
    notes = [{k: v for k, v in x.items() if k != "so"} for x in case["notes"]]
    if case.get("midi") and [m for _, m in case["midi"]["tempos"]] != [500000]:
        for x in notes:
            x["tk_stale"] = True  # ticks of a file with another tempo map: seconds and ticks do not agree under the part's single mpq
    return dict(notes=notes, ctrls=[dict(c) for c in case["ctrls"]], thr=case["thr"], ppq=case["ppq"], mpq=case["mpq"],
                scale=case["scale"], whole=case.get("whole"))


def abs_apply(st, step, sc, observed=None):
    """The harness's bookkeeping: the notes / controls / threshold the part must have after the
    step.  None: a note-array round trip over a state with sort-order ties (sounding ends open)."""
    st = dict(notes=[dict(x) for x in st["notes"]], ctrls=[dict(c) for c in st["ctrls"]], thr=st["thr"], ppq=st["ppq"], mpq=st["mpq"],
              scale=st.get("scale", sc), whole=st.get("whole"))
    op = step["op"]
    if op == "thr":
        st["thr"] = step["thr"]
    elif op == "ppq":
        st["ppq"], st["mpq"] = step["ppq"], step["mpq"]
        for x in st["notes"]:
            if x.get("tk"):
                x["tk_stale"] = True  # the stored ticks were made under the old ppq / mpq
    elif op == "ctrls":
        how = step["how"]
        if how == "replace":
            st["ctrls"] = [dict(c) for c in step["ctrls"]]
        elif how == "extend":
            st["ctrls"] += [dict(c) for c in step["ctrls"]]
        elif how in ("remove_pedal", "remove_pedal_inplace"):
            st["ctrls"] = [c for c in st["ctrls"] if c["number"] != 64]
        elif how == "clear":
            st["ctrls"] = []
        elif how == "delete":
            if st["ctrls"]:
                del st["ctrls"][step["idx"] % len(st["ctrls"])]
        elif how == "edit":
            if st["ctrls"]:
                c = st["ctrls"][step["idx"] % len(st["ctrls"])]
                if "value" in step:
                    c["value"] = step["value"]
                if "t" in step:
                    c["t"] = step["t"]
                if "number" in step:
                    c["number"] = step["number"]
        st["thr"] = step["thr"]
    elif op == "note":
        how = step["how"]
        ns = st["notes"]
        if how == "off":
            x = ns[step["idx"] % len(ns)]
            x["off"] = x["on"] + step["d"]
        elif how == "on":
            x = ns[step["idx"] % len(ns)]
            x["on"] = max(0, x["off"] - step["d"])
            if x.get("tk"):
                x["tk_stale"] = True  # a stored onset tick no longer belongs to the onset
        elif how == "add":
            ns.append(dict(step["note"]))
        elif how == "del":
            if len(ns) > 1:
                del ns[step["idx"] % len(ns)]
        st["thr"] = step["thr"]
    elif op == "rebuild":
        if step["ctrls"] == "nopedal":
            st["ctrls"] = [c for c in st["ctrls"] if c["number"] != 64]
        elif step["ctrls"] != "same":
            st["ctrls"] = [dict(c) for c in step["ctrls"]]
        st["thr"] = step["thr"]
    elif op == "roundtrip":
        v = state_view(st, sc)
        if has_order_tie(v):
            return None
        # the new releases are the sounding ends; where the statement leaves the end open the
        # implementation's own value (observed, already judged >= release) is taken over
        ends = []
        for i in range(len(st["notes"])):
            e, stated = spec_end(v, st["thr"], i)
            if not stated and observed is not None and i < len(observed):
                e = observed[i]
            ends.append(e * sc)
        for x, e in zip(st["notes"], ends):
            if e.denominator != 1:
                return None  # an open end the implementation put off the time grid: the history ends here
            x["off"] = int(e)
            for key in ("tk", "tk_stale", "omit", "so"):
                x.pop(key, None)  # the rebuilt notes are plain
        st["ctrls"] = []
        st["thr"] = 64
        st["ppq"], st["mpq"] = 480, 500000
    else:
        raise ValueError(op)
    return st


def build_state(st, sc, carried=None, shape=None):
    """A fresh PerformedPart from dicts for an abstract state (carried: the notes as generated, with "so" / "tk" / "omit")."""
    return make_part(carried if carried is not None else st["notes"], st["ctrls"], st["thr"], st["ppq"], st["mpq"], sc, shape)


def impl_apply(pp, step, sc, serial):
    """The same step on the real objects; returns the part to go on with."""
    import partitura.performance as P

    op = step["op"]
    kshape = dict(num=step["num"]) if step.get("num") else None
    kind = step.get("num", "float")
    thr = thr_value(step["thr"], step) if "thr" in step else None
    if op == "thr":
        if step.get("direct"):
            # the function behind the setter, on the part's own notes and controls
            P.adjust_offsets_w_sustain(pp.notes, pp.controls, thr)
        else:
            pp.sustain_pedal_threshold = thr
        return pp
    if op == "ppq":
        pp.ppq, pp.mpq = step["ppq"], step["mpq"]
        return pp
    if op == "ctrls":
        how = step["how"]
        if how == "replace":
            pp.controls = [ctrl_dict(c, sc, kshape) for c in step["ctrls"]]
        elif how == "extend":
            pp.controls.extend(ctrl_dict(c, sc, kshape) for c in step["ctrls"])
        elif how == "edit":
            if pp.controls:
                c = pp.controls[step["idx"] % len(pp.controls)]
                if "value" in step:
                    c["value"] = step["value"]
                if "t" in step:
                    c["time"] = numk(F(step["t"], sc), kind)
                if "number" in step:
                    c["number"] = step["number"]
        elif how == "remove_pedal":
            pp.controls = [c for c in pp.controls if c["number"] != 64]
        elif how == "remove_pedal_inplace":
            pp.controls[:] = [c for c in pp.controls if c["number"] != 64]
        elif how == "clear":
            pp.controls.clear()
        elif how == "delete":
            if pp.controls:
                del pp.controls[step["idx"] % len(pp.controls)]
        pp.sustain_pedal_threshold = thr
        return pp
    if op == "note":
        how = step["how"]
        n = len(pp.notes)
        if how == "off":
            note = pp.notes[step["idx"] % n]
            note["note_off"] = numk(F(float(note["note_on"])) + F(step["d"], sc), kind)
        elif how == "on":
            note = pp.notes[step["idx"] % n]
            note["note_on"] = numk(max(F(0), F(float(note["note_off"])) - F(step["d"], sc)), kind)
        elif how == "add":
            d = note_dict(step["note"], 0, sc, kshape)
            d["id"] = "a%d" % serial
            pp.notes.append(P.PerformedNote(d))
        elif how == "del":
            if n > 1:
                del pp.notes[step["idx"] % n]
        pp.sustain_pedal_threshold = thr
        return pp
    if op == "rebuild":
        if step["ctrls"] == "same":
            ctrls = list(pp.controls)
        elif step["ctrls"] == "nopedal":
            ctrls = [c for c in pp.controls if c["number"] != 64]
        else:
            ctrls = [ctrl_dict(c, sc, kshape) for c in step["ctrls"]]
        if step["how"] == "dicts":
            notes = [dict(n.pnote_dict) for n in pp.notes]  # every dict carries the sound_off of the old part
        elif step["how"] == "copy":
            notes = [n.copy() for n in pp.notes]
        else:
            notes = list(pp.notes)
        return P.PerformedPart(notes, controls=ctrls, sustain_pedal_threshold=thr, ppq=pp.ppq, mpq=pp.mpq)
    if op == "roundtrip":
        return P.PerformedPart.from_note_array(pp.note_array())
    raise ValueError(op)


def scribble(na):
    """write into an array a call returned (the caller owns it); a later call must not show it"""
    try:
        for name in ("onset_sec", "duration_sec"):
            na[name] = na[name] + 7.25
        for name in ("onset_tick", "duration_tick", "pitch", "velocity"):
            na[name] = 1 - na[name]
    except (ValueError, TypeError, KeyError, IndexError):
        pass  # a read-only result cannot be spoilt


def observe(pp):
    scribble(pp.note_array())
    na = pp.note_array()
    return dict(on=[F(float(n["note_on"])) for n in pp.notes], off=[F(float(n["note_off"])) for n in pp.notes],
                pitch=[int(n["midi_pitch"]) for n in pp.notes], so=[F(float(n["sound_off"])) for n in pp.notes],
                vel=[int(n["velocity"]) for n in pp.notes], thr=pp.sustain_pedal_threshold, ppq=pp.ppq, mpq=pp.mpq,
                na=[dict(onset_sec=F(float(r["onset_sec"])), duration_sec=F(float(r["duration_sec"])), onset_tick=int(r["onset_tick"]),
                         duration_tick=int(r["duration_tick"]), pitch=int(r["pitch"]), velocity=int(r["velocity"])) for r in na])


def oracle_state(st, obs, sc, label):
    """The property on one state of a history: the sounding ends the part shows must be the ones
    the pedal dictates for the notes / controls / threshold it has NOW.  -> (failures, tie)"""
    bad = []
    ns = st["notes"]
    v = state_view(st, sc)
    tie = has_order_tie(v)
    if (len(obs["so"]) != len(ns) or obs["pitch"] != [x["midi_pitch"] for x in ns] or obs["on"] != [F(x["on"], sc) for x in ns]
            or obs["off"] != [F(x["off"], sc) for x in ns]):
        return ["%s: the part's notes (pitch, onset, release) are not the ones the steps lead to: pitches %s onsets %s releases %s, expected %s %s %s"
                % (label, obs["pitch"], [float(x) for x in obs["on"]], [float(x) for x in obs["off"]], [x["midi_pitch"] for x in ns],
                   [x["on"] / sc for x in ns], [x["off"] / sc for x in ns])], tie
    thr = st["thr"]
    no_pedal = not any(c["number"] == 64 for c in st["ctrls"])
    open_tie = tie and tie_matters(v, thr)
    for i, so in enumerate(obs["so"]):
        off = F(ns[i]["off"], sc)
        if so < off:
            bad.append("%s note %d: sound_off %s < note_off %s" % (label, i, float(so), float(off)))
        elif no_pedal and so != off:
            bad.append("%s note %d: no pedal events in the controls, sound_off %s differs from the release %s (not recomputed)"
                       % (label, i, float(so), float(off)))
        elif thr >= 127 and so != off:
            bad.append("%s note %d: threshold %d, sound_off %s differs from the release %s" % (label, i, thr, float(so), float(off)))
        elif not open_tie:
            exp, stated = spec_end(v, thr, i)
            if stated and so != exp:
                bad.append("%s note %d (pitch %d, on %s, off %s, threshold %d): sound_off %s, the pedal dictates %s"
                           % (label, i, ns[i]["midi_pitch"], ns[i]["on"] / sc, float(off), thr, float(so), float(exp)))
    if not bad:
        bad += oracle_state_na(st, obs, sc, label)
    return bad, tie


def oracle_state_na(st, obs, sc, label):
    """note_array() of the part in its current state: onsets in seconds and ticks agree under the
    part's CURRENT ppq / mpq, durations in seconds reach the current sounding end, durations in ticks
    agree with them where no pedal extends the note.  Ticks are not judged for a note that carries
    stored ticks (note_on_tick) which the history has made stale (onset edited, ppq / mpq changed,
    file with another tempo map)."""
    bad = []
    ns = st["notes"]
    na = obs["na"]
    ppq, mpq = st["ppq"], st["mpq"]
    if (obs["ppq"], obs["mpq"]) != (ppq, mpq):
        return ["%s: the part's ppq / mpq are %s / %s, the steps lead to %s / %s" % (label, obs["ppq"], obs["mpq"], ppq, mpq)]
    if len(na) != len(ns):
        return ["%s: note_array has %d rows for %d notes" % (label, len(na), len(ns))]
    for i, r in enumerate(na):
        on, off, so = F(ns[i]["on"], sc), F(ns[i]["off"], sc), obs["so"][i]
        if r["pitch"] != ns[i]["midi_pitch"] or r["velocity"] != obs["vel"][i]:
            bad.append("%s note_array row %d: pitch/velocity %d/%d, note has %d/%d" % (label, i, r["pitch"], r["velocity"], ns[i]["midi_pitch"], obs["vel"][i]))
        if abs(r["onset_sec"] - on) > F32_TOL * max(1, abs(on)):
            bad.append("%s note_array row %d: onset_sec %s, note_on %s" % (label, i, float(r["onset_sec"]), float(on)))
        if abs(r["duration_sec"] - (so - on)) > F32_TOL * max(1, abs(so)):
            bad.append("%s note_array row %d: duration_sec %s, sounding end - onset = %s" % (label, i, float(r["duration_sec"]), float(so - on)))
        if ns[i].get("tk") and ns[i].get("tk_stale"):
            continue
        if abs(r["onset_tick"] - ticks_of(ppq, mpq, on)) > F(1, 2) + TICK_EPS:
            bad.append("%s note_array row %d: onset_tick %d, onset %s s is %s ticks at ppq %d mpq %d"
                       % (label, i, r["onset_tick"], float(on), float(ticks_of(ppq, mpq, on)), ppq, mpq))
        if so == off and abs(r["duration_tick"] - ticks_of(ppq, mpq, so - on)) > 1 + TICK_EPS:
            bad.append("%s note_array row %d: duration_tick %d, the duration %s s is %s ticks at ppq %d mpq %d (no pedal extends the note)"
                       % (label, i, r["duration_tick"], float(so - on), float(ticks_of(ppq, mpq, so - on)), ppq, mpq))
    return bad


FAIL_CLASSES = ["< note_off", "no pedal events in the controls", "differs from the release", "the pedal dictates", "depends on the history",
                "raised", "are not the ones the steps lead to", "onset_tick", "duration_tick", "duration_sec", "onset_sec", "pitch/velocity",
                "ppq / mpq", "rows for", "did not terminate"]


def fail_class(msg):
    for k in FAIL_CLASSES:
        if k in msg:
            return k
    return msg[:25]


def judge_hist_raw(case):
    """-> (failures, trace, tie); trace = [(abstract state, observation)] after construction and after every applied step."""
    sc = case["scale"]
    st = initial_state(case)
    trace = []
    any_tie = False
    try:
        if case.get("midi"):
            pp = load_midi_part(case)
        else:
            pp = build_state(st, sc, carried=case["notes"], shape=case.get("shape"))
        obs = observe(pp)
    except Exception as e:
        return ["construction (%s) raised %s: %s" % ("load_performance_midi of a file with these notes and controls" if case.get("midi") else
                                                     "notes with 0 <= onset <= release <= carried sound_off", type(e).__name__, e)], trace, any_tie
    bad, tie = oracle_state(st, obs, sc, "after construction")
    any_tie |= tie
    trace.append((st, obs))
    if bad:
        return bad, trace, any_tie
    for k, step in enumerate(case["steps"]):
        st2 = abs_apply(st, step, sc, observed=obs["so"])
        if st2 is None:
            break  # round trip over a tied state: the history ends here
        label = "after step %d (%s%s)" % (k + 1, step["op"], ":" + step["how"] if "how" in step else "")
        try:
            pp = impl_apply(pp, step, sc, k)
            obs = observe(pp)
        except Exception as e:
            return ["%s: raised %s: %s" % (label, type(e).__name__, e)], trace, any_tie
        st = st2
        bad, tie = oracle_state(st, obs, sc, label)
        any_tie |= tie
        trace.append((st, obs))
        if not bad:
            # independent of the specification: a part built from scratch for the current notes,
            # controls and threshold shows the same sounding ends (the result has no memory)
            try:
                fresh = observe(build_state(st, sc))["so"]
            except Exception as e:
                fresh = None
                bad.append("%s: building the current notes/controls afresh raised %s: %s" % (label, type(e).__name__, e))
            if fresh is not None and fresh != obs["so"]:
                bad.append("%s: sound_off column %s, a part built afresh from the same notes, controls and threshold has %s (the result depends on the history)"
                           % (label, [float(x) for x in obs["so"]], [float(x) for x in fresh]))
        if bad:
            return bad, trace, any_tie
    return [], trace, any_tie


def judge_hist(case):
    r, tmo = guarded(judge_hist_raw, case)
    if tmo:
        return ["a history of operations on a performed part " + tmo], [], False
    return r


MIDI_PPQ = 512  # 1 tick = 1/1024 s at mpq 500000, 1/512 s at 1000000, 1/2048 s at 250000: all times exact
MIDI_UNITS = {250000: 1, 500000: 2, 1000000: 4}  # 1/2048 s per tick
MIDI_SC = 2048


def midi_units(tempos, tick):
    """the time of a tick in 1/2048 s under the tempo map [[tick, mpq], ...] (first tick 0)"""
    u = 0
    for k, (t0, m) in enumerate(tempos):
        t1 = tempos[k + 1][0] if k + 1 < len(tempos) else None
        if t1 is None or tick < t1:
            return u + (tick - t0) * MIDI_UNITS[m]
        u += (t1 - t0) * MIDI_UNITS[m]
    return u


def gen_midi_hist_case(rng):
    """A history that starts from a part LOADED by load_performance_midi from a type-1 file (tempo map
    in the first track, notes and controls in the second): the loader builds the part, then moves all
    times according to the tempo map -- the sounding ends must be those of the times the part ends up with."""
    g = 64
    r = rng.random()
    t1, t2 = rng.randint(1, 12) * g, rng.randint(13, 30) * g
    if r < 0.3:
        tempos = [[0, 500000]]
    elif r < 0.45:
        tempos = [[0, rng.choice([1000000, 250000])]]
    elif r < 0.8:
        a, b = rng.sample([500000, 1000000, 250000], 2)
        tempos = [[0, a], [t1, b]]
    else:
        a, b = rng.sample([500000, 1000000, 250000], 2)
        tempos = [[0, a], [t1, b], [t2, rng.choice([a, 500000])]]
    pitches = rng.sample(range(0, 128), rng.choice([1, 1, 2, 3]))
    notes = []
    for _ in range(rng.choice([1, 2, 3, 4, 6, 8])):
        p = rng.choice(pitches)
        ton = rng.randint(0, 32) * g + rng.choice([0, 0, 0, 1, 17])
        toff = ton + rng.choice([0, g, g, 2 * g, 4 * g, rng.randint(0, 8 * g)])
        busy = {x["channel"] for x in notes if x["midi_pitch"] == p and x["ton"] <= toff and ton <= x["toff"]}
        free = [ch for ch in range(16) if ch not in busy]
        if not free:
            continue
        notes.append(dict(midi_pitch=p, ton=ton, toff=toff, velocity=rng.randint(1, 127), channel=rng.choice(free[:3]), track=0, tk=True))
    for x in notes:
        x["on"], x["off"] = midi_units(tempos, x["ton"]), midi_units(tempos, x["toff"])
    notes.sort(key=lambda x: (x["on"], x["midi_pitch"], x["off"], x["channel"]))
    ctrls = []
    used = set()
    hi = max(x["toff"] for x in notes)
    marks = sorted({x["ton"] for x in notes} | {x["toff"] for x in notes})
    for _ in range(rng.choice([1, 2, 3, 4, 6, 8])):
        tt = rng.choice([rng.choice(marks), rng.choice(marks) + rng.choice([-1, 1, g // 2]), rng.randint(0, hi + 4 * g), hi + rng.randint(1, 4 * g), 0])
        tt = max(0, tt)
        num = 64 if rng.random() < 0.8 else rng.choice([1, 7, 66, 67])
        if num == 64:
            while tt in used:
                tt += 1
            used.add(tt)
        ctrls.append(dict(number=num, tt=tt, value=rng.choice([0, 0, 127, 127, 63, 64, 65, rng.randint(0, 127)]), track=0, channel=rng.randint(0, 15)))
    if rng.random() < 0.6 and 0 not in used:
        ctrls.append(dict(number=64, tt=0, value=127, track=0, channel=0))
    ctrls.sort(key=lambda c: c["tt"])
    for c in ctrls:
        c["t"] = midi_units(tempos, c["tt"])
    c = dict(notes=notes, ctrls=ctrls, thr=64, ppq=MIDI_PPQ, mpq=500000, scale=MIDI_SC, midi=dict(tempos=tempos, merge=rng.random() < 0.3))
    st = initial_state(c)
    steps = []
    for _ in range(rng.choice([0, 1, 1, 2, 3])):
        step = gen_step(rng, st, False)
        st2 = abs_apply(st, step, MIDI_SC)
        if st2 is None:
            break
        steps.append(step)
        st = st2
    c["steps"] = steps
    return c


def load_midi_part(case):
    """Write the case's notes / controls (ticks) and tempo map to a type-1 mido file in memory and
    load it with partitura's load_performance_midi; -> the PerformedPart holding the notes."""
    import mido
    from partitura.io.importmidi import load_performance_midi

    mid = mido.MidiFile(type=1, ticks_per_beat=MIDI_PPQ)
    t0 = mido.MidiTrack()
    last = 0
    for tick, mpq in case["midi"]["tempos"]:
        t0.append(mido.MetaMessage("set_tempo", tempo=mpq, time=tick - last))
        last = tick
    mid.tracks.append(t0)
    ev = []
    for k, x in enumerate(case["notes"]):
        ev.append((x["ton"], 2, k, mido.Message("note_on", note=x["midi_pitch"], velocity=x["velocity"], channel=x["channel"])))
        ev.append((x["toff"], 0 if x["toff"] > x["ton"] else 3, k, mido.Message("note_off", note=x["midi_pitch"], velocity=0, channel=x["channel"])))
    for k, c in enumerate(case["ctrls"]):
        ev.append((c["tt"], 1, k, mido.Message("control_change", control=c["number"], value=c["value"], channel=c["channel"])))
    ev.sort(key=lambda e: e[:3])
    t1 = mido.MidiTrack()
    last = 0
    for tick, _, _, msg in ev:
        t1.append(msg.copy(time=tick - last))
        last = tick
    mid.tracks.append(t1)
    perf = load_performance_midi(mid, merge_tracks=bool(case["midi"].get("merge")))
    parts = [pp for pp in perf.performedparts if len(pp.notes) > 0]
    if len(parts) != 1:
        raise RuntimeError("load_performance_midi returned %d parts with notes" % len(parts))
    return parts[0]


def gen_hist_case(rng, tie_stream=False):
    c = gen_case(rng, tie_stream)
    del c["thrs"]
    sc = c["scale"]
    if not any(x["number"] == 64 for x in c["ctrls"]) and rng.random() < 0.6:
        # mostly start from a pedalled part, so that there are extended notes to forget
        c["ctrls"] = gen_ctrls(rng, c["notes"], c["thr"], rng.choice([2, 3, 4, 6, 8]), tie_stream, ped_prob=0.85)
        if rng.random() < 0.5:
            lo = min(x["on"] for x in c["notes"])
            c["ctrls"].insert(0, dict(number=64, t=lo - 1 - rng.randint(0, 8), value=127, track=0, channel=0))
            if not tie_stream:
                times = [x["t"] for x in c["ctrls"][1:] if x["number"] == 64]
                while c["ctrls"][0]["t"] in times:
                    c["ctrls"][0]["t"] -= 1
    if rng.random() < 0.35:
        # notes that already carry a sounding end (copied from another part / arbitrary)
        for x in c["notes"]:
            if rng.random() < 0.8:
                x["so"] = x["off"] + rng.choice([0, 1, 8, 16, rng.randint(0, 64), rng.randint(0, 640)])
        if rng.random() < 0.5:
            c["ctrls"] = [x for x in c["ctrls"] if x["number"] != 64]
    st = initial_state(c)
    steps = []
    for _ in range(rng.choice([1, 2, 2, 3, 3, 4, 5, 6])):
        step = gen_step(rng, st, tie_stream)
        st2 = abs_apply(st, step, sc)
        if st2 is None:
            break
        steps.append(step)
        st = st2
    c["steps"] = steps
    return c


def c_step(step, st_after, sc):
    op = step["op"]
    if op == "thr":
        return "(SetThr %s)" % cz(step["thr"])
    if op == "ctrls":
        return "(SetCtrls %s %s)" % (clist([c_ctrl(c, sc) for c in st_after["ctrls"]]), cz(step["thr"]))
    if op == "note":
        return "(SetNotes %s %s)" % (clist([c_note(x, sc) for x in st_after["notes"]]), cz(step["thr"]))
    if op == "rebuild":
        return "(Rebuild %s %s)" % (clist([c_ctrl(c, sc) for c in st_after["ctrls"]]), cz(step["thr"]))
    return "(RoundTrip 480 500000)"


def terms_steps(case, trace):
    """Coq terms for one history.  Normally one; a note-array round trip over a state in which the
    statement leaves a sounding end open starts a new term from the rebuilt part (the model's
    convention for such an end is not demanded of the implementation, so the model is not asked to
    predict the releases of the rebuilt notes)."""
    sc = case["scale"]
    steps = case["steps"][:len(trace) - 1]

    def flush(notes, so0, ctrls, thr, csteps, cobs):
        return ctuple([cz(thr), clist([c_note(x, sc) for x in notes]), c_qlist(so0), clist([c_ctrl(c, sc) for c in ctrls]),
                       clist(csteps), clist([ctuple([c_qlist(o["off"]), c_qlist(o["so"])]) for o in cobs])])

    out = []
    start = (case["notes"], [F(x.get("so", x["off"]), sc) for x in case["notes"]], case["ctrls"], case["thr"])
    csteps, cobs = [], [trace[0][1]]
    for k, s_ in enumerate(steps):
        before, after = trace[k][0], trace[k + 1][0]
        if s_["op"] == "roundtrip":
            v = state_view(before, sc)
            if any(not spec_end(v, before["thr"], i)[1] for i in range(len(before["notes"]))):
                out.append(flush(*start, csteps, cobs))
                start = (after["notes"], [F(x["off"], sc) for x in after["notes"]], after["ctrls"], after["thr"])
                csteps, cobs = [], [trace[k + 1][1]]
                continue
        if s_["op"] == "ppq":
            continue  # the model's part has no ppq / mpq; the sound_off column is untouched (judged in Python)
        csteps.append(c_step(s_, after, sc))
        cobs.append(trace[k + 1][1])
    out.append(flush(*start, csteps, cobs))
    return out


def hist_corpus_cases():
    def N(p, on, off, so=None, ch=0, tr=0, v=64):
        d = dict(midi_pitch=p, on=on, off=off, velocity=v, channel=ch, track=tr)
        if so is not None:
            d["so"] = so
        return d

    def C(t, v, num=64):
        return dict(number=num, t=t, value=v, track=0, channel=0)

    base = dict(thr=64, ppq=480, mpq=500000, scale=16)
    notes = [N(60, 0, 16), N(64, 8, 24), N(60, 64, 80)]
    pedal = [C(3, 127), C(48, 0)]
    other = [C(2, 100, 7), C(5, 127, 67)]
    out = []
    # pedal events removed after they extended notes, the same threshold assigned again
    for how in ("remove_pedal", "remove_pedal_inplace", "clear"):
        out.append(dict(base, notes=[dict(x) for x in notes], ctrls=pedal + other, steps=[dict(op="ctrls", how=how, thr=64)]))
    out.append(dict(base, notes=[dict(x) for x in notes], ctrls=pedal + other,
                    steps=[dict(op="ctrls", how="replace", ctrls=other, thr=64), dict(op="ctrls", how="extend", ctrls=pedal, thr=64),
                           dict(op="ctrls", how="remove_pedal", thr=0), dict(op="thr", thr=127)]))
    # a part without pedal built from notes that carry the sounding ends of a pedalled part
    out.append(dict(base, notes=[N(60, 0, 16, so=48), N(64, 8, 24, so=48), N(60, 64, 80, so=80)], ctrls=list(other), steps=[]))
    for how in ("dicts", "objects", "copy"):
        out.append(dict(base, notes=[dict(x) for x in notes], ctrls=pedal + other,
                        steps=[dict(op="rebuild", how=how, ctrls="nopedal", thr=64), dict(op="rebuild", how=how, ctrls=pedal, thr=64)]))
    # carried sounding ends with a pedal that dictates something else
    out.append(dict(base, notes=[N(60, 0, 16, so=200), N(64, 8, 24, so=24), N(60, 64, 80, so=81)], ctrls=pedal, steps=[dict(op="thr", thr=64)]))
    # release moved past / before the old sounding end, then the threshold assigned; pedal added later
    out.append(dict(base, notes=[dict(x) for x in notes], ctrls=pedal,
                    steps=[dict(op="note", how="off", idx=0, d=60, thr=64), dict(op="note", how="off", idx=0, d=2, thr=64),
                           dict(op="ctrls", how="clear", thr=64), dict(op="ctrls", how="extend", ctrls=[C(1, 100), C(30, 64)], thr=64)]))
    # note array round trip of a pedalled part, pedal added to the rebuilt part afterwards
    out.append(dict(base, notes=[dict(x) for x in notes], ctrls=pedal,
                    steps=[dict(op="roundtrip"), dict(op="ctrls", how="extend", ctrls=[C(40, 127), C(100, 0)], thr=64), dict(op="ctrls", how="clear", thr=64)]))
    return out


# ----------------------------------------------------------------------------
# track renumbering


def gen_perf_case(rng):
    nparts = rng.choice([1, 2, 2, 3, 4])
    # 35%: the parts' NOTE tracks are pairwise disjoint, but a control or a program change of one
    # part sits on a track number that another part uses (uniqueness must look at every event)
    disjoint = nparts > 1 and rng.random() < 0.35
    if disjoint:
        numbers = rng.sample(range(0, 12), 2 * nparts)
        pools = [numbers[2 * k: 2 * k + rng.choice([1, 2])] for k in range(nparts)]
    # 30%: some controls / program changes have no track key at all (the code reads -1 for them)
    keyless = rng.random() < 0.3
    parts = []
    for k in range(nparts):
        tr_pool = pools[k] if disjoint else rng.choice([[0], [0, 1], [0, 0, 2], [1, 5], [0, 1, 2, 3], [7], [-1, 0]])
        notes = [dict(midi_pitch=rng.randint(20, 100), on=i * 4, off=i * 4 + rng.randint(0, 6), velocity=rng.randint(1, 127),
                      channel=rng.randint(0, 15), track=rng.choice(tr_pool)) for i in range(rng.randint(1, 5))]
        if rng.random() < 0.3 and not disjoint:
            for x in notes:
                if rng.random() < 0.5:
                    x["track"] = None  # key absent: PerformedNote stores 0
        foreign = [t for j in range(nparts) if j != k for t in pools[j]] if disjoint else [rng.randint(0, 9)]
        ctrls = [dict(number=rng.choice([64, 64, 67, 1]), t=rng.randint(0, 30), value=rng.choice([0, 127, rng.randint(0, 127)]),
                      track=rng.choice(tr_pool + foreign), channel=rng.randint(0, 15)) for i in range(rng.randint(0, 4))]
        progs = [dict(program=rng.randint(0, 127), t=rng.randint(0, 30), track=rng.choice(tr_pool + foreign),
                      channel=rng.randint(0, 15)) for i in range(rng.randint(0, 2))]
        if keyless:
            for e in ctrls + progs:
                if rng.random() < 0.4:
                    e["track"] = None
            if rng.random() < 0.5:  # ... next to an event that says -1 explicitly, or a note on track -1
                (ctrls if rng.random() < 0.5 else progs).append(dict(number=7, program=1, t=0, value=0, track=-1, channel=0))
        parts.append(dict(notes=notes, ctrls=ctrls, progs=progs))
    if disjoint:
        # make sure at least one control or program change is on another part's track
        k = rng.randrange(nparts)
        t = rng.choice(sorted({x["track"] for j in range(nparts) if j != k for x in parts[j]["notes"]}))  # a track other notes really use
        if rng.random() < 0.5:
            parts[k]["ctrls"].append(dict(number=rng.choice([64, 7]), t=rng.randint(0, 30), value=rng.randint(0, 127), track=t, channel=0))
        else:
            parts[k]["progs"].append(dict(program=rng.randint(0, 127), t=rng.randint(0, 30), track=t, channel=0))
    return dict(parts=parts, scale=16, again=rng.choice([None, None, "sanitize", "rewrap", "single"]), disjoint_note_tracks=disjoint,
                container=rng.choice(["list", "list", "tuple"]), unique=rng.choice(["ctor", "ctor", "later"]))


def perf_passes(case):
    """how many times the parts are renumbered"""
    return 1 + (1 if case.get("again") in ("sanitize", "rewrap") else 0)


def run_perf(case):
    """-> (pairs, num_tracks, details) or an error string.  pairs: ((part, old track), new track)
    over notes, controls, programs; details: what the model and the note-array clause need."""
    import partitura.performance as P

    sc = float(case["scale"])
    pps = []
    olds = []
    for part in case["parts"]:
        notes = []
        for k, x in enumerate(part["notes"]):
            d = dict(id="n%d" % k, midi_pitch=x["midi_pitch"], note_on=x["on"] / sc, note_off=x["off"] / sc, velocity=x["velocity"], channel=x["channel"])
            if x["track"] is not None:
                d["track"] = x["track"]
            notes.append(d)
        ctrls = []
        for c in part["ctrls"]:
            d = dict(number=c["number"], time=c["t"] / sc, value=c["value"], channel=c["channel"])
            if c["track"] is not None:
                d["track"] = c["track"]
            ctrls.append(d)
        progs = []
        for g in part["progs"]:
            d = dict(program=g["program"], time=g["t"] / sc, channel=g["channel"])
            if g["track"] is not None:
                d["track"] = g["track"]
            progs.append(d)
        pp = P.PerformedPart(notes, controls=ctrls, programs=progs)
        pps.append(pp)
        # PerformedNote fills a missing track with 0 at construction; what the renumbering sees is the stored value;
        # a control / program change without the key is read as -1
        olds.append(([n["track"] for n in pp.notes], [c.get("track") for c in pp.controls], [g.get("track") for g in pp.programs]))
    try:
        again = case.get("again")
        arg = pps[0] if again == "single" and len(pps) == 1 else (tuple(pps) if case.get("container") == "tuple" else pps)
        if case.get("unique") == "later":
            perf = P.Performance(arg, ensure_unique_tracks=False)
            perf.sanitize_track_numbers()
        else:
            perf = P.Performance(arg)
        if again == "sanitize":
            perf.sanitize_track_numbers()  # a second renumbering of the renumbered parts
        elif again == "rewrap":
            perf = P.Performance(list(perf.performedparts))  # a performance made of another performance's parts
        pairs = []
        news = []
        for i, pp in enumerate(perf.performedparts):
            on, oc, og = olds[i]
            rd = lambda o: None if o is None else int(o)  # None: the event has no track key (what it is grouped with is not judged)
            now = lambda e: None if e.get("track") is None else int(e.get("track"))  # None: still no track key, the event has no number
            pairs += [((i, rd(o)), now(n)) for o, n in zip(on, pp.notes) if now(n) is not None]
            pairs += [((i, rd(o)), now(c)) for o, c in zip(oc, pp.controls) if now(c) is not None]
            pairs += [((i, rd(o)), now(g)) for o, g in zip(og, pp.programs) if now(g) is not None]
            news.append(([now(n) for n in pp.notes], [now(c) for c in pp.controls], [now(g) for g in pp.programs]))
        # the note array of the whole performance next to what the parts hold
        na = perf.note_array()
        rows = sorted((int(r["pitch"]), int(r["velocity"]), F(float(r["onset_sec"])), F(float(r["duration_sec"])), int(r["onset_tick"])) for r in na)
        held = sorted((int(n["midi_pitch"]), int(n["velocity"]), F(float(n["note_on"])), F(float(n["sound_off"])) - F(float(n["note_on"])), F(float(n["note_off"])))
                      for pp in perf.performedparts for n in pp.notes)
        return pairs, perf.num_tracks, dict(olds=olds, news=news, rows=rows, held=held)
    except Exception as e:
        return "%s: %s" % (type(e).__name__, e)


def build_perf_part(part, sc):
    """the PerformedPart of one abstract part of a performance case (track None = key absent)"""
    import partitura.performance as P

    sc = float(sc)
    notes = []
    for k, x in enumerate(part["notes"]):
        d = dict(id="n%d" % k, midi_pitch=x["midi_pitch"], note_on=x["on"] / sc, note_off=x["off"] / sc, velocity=x["velocity"], channel=x["channel"])
        if x["track"] is not None:
            d["track"] = x["track"]
        notes.append(d)
    ctrls = []
    for c in part["ctrls"]:
        d = dict(number=c["number"], time=c["t"] / sc, value=c["value"], channel=c["channel"])
        if c["track"] is not None:
            d["track"] = c["track"]
        ctrls.append(d)
    progs = []
    for g in part["progs"]:
        d = dict(program=g["program"], time=g["t"] / sc, channel=g["channel"])
        if g["track"] is not None:
            d["track"] = g["track"]
        progs.append(d)
    return P.PerformedPart(notes, controls=ctrls, programs=progs)


def track_snapshot(parts):
    """the track key of every note, control and program change of every part as it is now (None = key absent)"""
    rd = lambda e: None if e.get("track") is None else int(e.get("track"))
    return [([rd(n) for n in pp.notes], [rd(c) for c in pp.controls], [rd(g) for g in pp.programs]) for pp in parts]


def track_pairs(olds, news):
    """((part, old track), new track) over all events that have a number afterwards"""
    pairs = []
    for i, (o, n) in enumerate(zip(olds, news)):
        for side_o, side_n in zip(o, n):
            pairs += [((i, a), b) for a, b in zip(side_o, side_n) if b is not None]
    return pairs


def perf_rows(perf):
    na0 = perf.note_array()
    scribble(na0)
    na = perf.note_array()
    rows = sorted((int(r["pitch"]), int(r["velocity"]), F(float(r["onset_sec"])), F(float(r["duration_sec"])), int(r["onset_tick"])) for r in na)
    held = sorted((int(n["midi_pitch"]), int(n["velocity"]), F(float(n["note_on"])), F(float(n["sound_off"])) - F(float(n["note_on"])), F(float(n["note_off"])))
                  for pp in perf.performedparts for n in pp.notes)
    return dict(rows=rows, held=held)


def gen_perf_hist_case(rng):
    """A performance, then edits through the public API (a part replaced by perf[i] = part, a part appended to /
    deleted from perf.performedparts, a note added on a track number in use, an event's track changed in place, a
    part's pedal threshold assigned), then sanitize_track_numbers() again: everything observed afterwards is
    judged against the parts as they are NOW."""
    base = gen_perf_case(rng)
    base["again"] = None
    nparts = len(base["parts"])
    edits = []
    for _ in range(rng.choice([1, 1, 2, 3])):
        r = rng.random()
        if r < 0.25:
            edits.append(dict(op="replace", idx=rng.randrange(nparts), part=rng.choice(gen_perf_case(rng)["parts"])))
        elif r < 0.45:
            edits.append(dict(op="append", part=rng.choice(gen_perf_case(rng)["parts"])))
            nparts += 1
        elif r < 0.6:
            edits.append(dict(op="add_note", idx=rng.randrange(nparts), track=rng.choice([0, 1, 2, 3, rng.randint(0, 9)]),
                              note=dict(midi_pitch=rng.randint(20, 100), on=rng.randint(0, 30), d=rng.randint(0, 6), velocity=rng.randint(1, 127), channel=rng.randint(0, 15))))
        elif r < 0.8:
            edits.append(dict(op="set_track", idx=rng.randrange(nparts), which=rng.choice(["note", "note", "ctrl", "prog"]), k=rng.randint(0, 9),
                              track=rng.choice([0, 1, 2, 3, rng.randint(0, 9)])))
        elif r < 0.92:
            edits.append(dict(op="thr", idx=rng.randrange(nparts), thr=rng.choice([0, 127, 64, rng.randint(0, 127)])))
        elif nparts > 1:
            edits.append(dict(op="del_part", idx=rng.randrange(nparts)))
            nparts -= 1
    base["edits"] = edits
    return base


def run_perf_hist(case):
    """-> dict of observations, or an error string"""
    import copy
    import partitura.performance as P

    sc = case["scale"]
    try:
        pps = [build_perf_part(part, sc) for part in case["parts"]]
        olds1 = track_snapshot(pps)
        perf = P.Performance(tuple(pps) if case.get("container") == "tuple" else pps)
        out = dict(olds1=olds1, news1=track_snapshot(perf.performedparts), nt1=perf.num_tracks, na1=perf_rows(perf))
        for e in case["edits"]:
            n = len(perf.performedparts)
            op = e["op"]
            if op == "replace":
                perf[e["idx"] % n] = build_perf_part(e["part"], sc)
            elif op == "append":
                perf.performedparts.append(build_perf_part(e["part"], sc))
            elif op == "del_part":
                if n > 1:
                    del perf.performedparts[e["idx"] % n]
            elif op == "add_note":
                x = e["note"]
                pp = perf[e["idx"] % n]
                pp.notes.append(P.PerformedNote(dict(id="x%d" % len(pp.notes), midi_pitch=x["midi_pitch"], note_on=x["on"] / float(sc), note_off=(x["on"] + x["d"]) / float(sc),
                                                     velocity=x["velocity"], channel=x["channel"], track=e["track"])))
                pp.sustain_pedal_threshold = pp.sustain_pedal_threshold
            elif op == "set_track":
                pp = perf[e["idx"] % n]
                evs = dict(note=pp.notes, ctrl=pp.controls, prog=pp.programs)[e["which"]]
                if evs:
                    evs[e["k"] % len(evs)]["track"] = e["track"]
            elif op == "thr":
                perf[e["idx"] % n].sustain_pedal_threshold = e["thr"]
        out["olds2"] = track_snapshot(perf.performedparts)
        out["nt2"] = perf.num_tracks
        out["na2"] = perf_rows(perf)
        fresh = P.Performance(copy.deepcopy(list(perf.performedparts)), ensure_unique_tracks=False)
        out["nt2_fresh"] = fresh.num_tracks
        perf.sanitize_track_numbers()
        out["news3"] = track_snapshot(perf.performedparts)
        out["nt3"] = perf.num_tracks
        out["na3"] = perf_rows(perf)
        fresh = P.Performance(copy.deepcopy(list(perf.performedparts)), ensure_unique_tracks=False)
        out["nt3_fresh"] = fresh.num_tracks
        return out
    except Exception as e:
        return "%s: %s" % (type(e).__name__, e)


def perf_hist_term(case, out):
    """The history as the model sees it (Model/C14_State.v): the track keys observed after construction, the
    edits as pstep values (indices resolved as run_perf_hist resolves them), the tracks observed after the
    final renumbering.  None: an event without track key is involved (outside the statement)."""
    opt = lambda l: clist([copt(None if o is None else int(o), cz) for o in l])
    pt = lambda n, c, g: ctuple([opt(n), opt(c), opt(g)])

    def abstract(part):
        return ([0 if x["track"] is None else x["track"] for x in part["notes"]], [c["track"] for c in part["ctrls"]], [g["track"] for g in part["progs"]])

    state = [tuple(list(side) for side in part) for part in out["news1"]]
    if any(v is None for part in state for side in part for v in side):
        return None
    steps = []
    for e in case["edits"]:
        n = len(state)
        op = e["op"]
        if op == "replace":
            a = abstract(e["part"])
            state[e["idx"] % n] = a
            steps.append("(PReplace %d%%nat %s)" % (e["idx"] % n, pt(*a)))
        elif op == "append":
            a = abstract(e["part"])
            state.append(a)
            steps.append("(PAppend %s)" % pt(*a))
        elif op == "del_part":
            if n > 1:
                del state[e["idx"] % n]
                steps.append("(PDelete %d%%nat)" % (e["idx"] % n))
        elif op == "add_note":
            state[e["idx"] % n][0].append(e["track"])
            steps.append("(PAddNote %d%%nat (Some %s))" % (e["idx"] % n, cz(e["track"])))
        elif op == "set_track":
            k = dict(note=0, ctrl=1, prog=2)[e["which"]]
            evs = state[e["idx"] % n][k]
            if evs:
                evs[e["k"] % len(evs)] = e["track"]
                steps.append("(PSetTrack %d%%nat %s %d%%nat %s)" % (e["idx"] % n, ["KNote", "KCtrl", "KProg"][k], e["k"] % len(evs), cz(e["track"])))
    if any(v is None for part in state for side in part for v in side) or any(v is None for part in out["news3"] for side in part for v in side):
        return None
    if [tuple(list(side) for side in part) for part in out["olds2"]] != [tuple(list(side) for side in part) for part in state]:
        return "bookkeeping"  # the harness's own account of the edits differs from what the parts hold
    return ctuple([clist([pt(*part) for part in out["news1"]]), clist(steps),
                   clist([ctuple([clist([cz(v) for v in n_]), clist([cz(v) for v in c_]), clist([cz(v) for v in g_])]) for n_, c_, g_ in out["news3"]])])


def oracle_perf_hist(out):
    bad = []
    bad += ["after construction: " + b for b in oracle_tracks(track_pairs(out["olds1"], out["news1"])) + oracle_perf_note_array(out["na1"])]
    bad += ["after the edits: " + b for b in oracle_perf_note_array(out["na2"])]
    if out["nt2"] != out["nt2_fresh"]:
        bad.append("after the edits: num_tracks is %d, a performance built afresh from the same parts has %d (state carried between calls)" % (out["nt2"], out["nt2_fresh"]))
    bad += ["after the edits and sanitize_track_numbers(): " + b for b in oracle_tracks(track_pairs(out["olds2"], out["news3"])) + oracle_perf_note_array(out["na3"])]
    if out["nt3"] != out["nt3_fresh"]:
        bad.append("after the edits and sanitize_track_numbers(): num_tracks is %d, a performance built afresh from the same parts has %d (state carried between calls)"
                   % (out["nt3"], out["nt3_fresh"]))
    return bad


def oracle_perf_note_array(det):
    """Performance.note_array(): every note of every part is reported once with its pitch, velocity,
    onset and the duration up to its sounding end; the onset tick agrees with the onset in seconds
    (all parts of a generated performance have ppq 480, mpq 500000)."""
    bad = []
    rows, held = det["rows"], det["held"]
    if [r[:4] for r in rows] != [h[:4] for h in held]:
        extra = [r[:4] for r in rows if r[:4] not in [h[:4] for h in held]]
        missing = [h[:4] for h in held if h[:4] not in [r[:4] for r in rows]]
        bad.append("Performance.note_array(): rows (pitch, velocity, onset, duration) %s are not notes of the parts; notes not reported %s (%d rows, %d notes)"
                   % ([(a, b, float(c), float(d)) for a, b, c, d in extra[:3]], [(a, b, float(c), float(d)) for a, b, c, d in missing[:3]], len(rows), len(held)))
    for r in rows:
        if abs(r[4] - ticks_of(480, 500000, r[2])) > F(1, 2) + TICK_EPS:
            bad.append("Performance.note_array(): onset_tick %d for onset %s s (ppq 480, mpq 500000)" % (r[4], float(r[2])))
    return bad


def term_sanitize(case, det):
    def side(l):
        return clist([copt(None if o is None else int(o), cz) for o in l])

    ps = clist([ctuple([side(n), side(c), side(g)]) for n, c, g in det["olds"]])
    obs = clist([ctuple([clist([cz(v) for v in n]), clist([cz(v) for v in c]), clist([cz(v) for v in g])]) for n, c, g in det["news"]])
    return ctuple(["%d%%nat" % perf_passes(case), ps, obs])


def oracle_tracks(pairs, num_tracks=None):
    """What the statement says and no more: after sanitising no track number is used by two
    different parts, and two events (notes, controls, program changes) of one part share a number
    exactly when they shared one before.  Which numbers are used is not prescribed; with which
    track an event without a track key is grouped is not judged (only that its number is not used
    by another part)."""
    bad = []
    fwd, owner, back = {}, {}, {}
    for old, new in pairs:
        if old[1] is not None and fwd.setdefault(old, new) != new:
            bad.append("events of part %d that shared track %s are now on tracks %d and %d (split)" % (old[0], old[1], fwd[old], new))
    for old, new in sorted(pairs, key=lambda x: (x[0][0], x[0][1] is None, x[0][1] or 0, x[1])):
        if owner.setdefault(new, old[0]) != old[0]:
            bad.append("track number %d is used by part %d and by part %d after sanitising (not unique across parts)" % (new, owner[new], old[0]))
        if old[1] is not None and back.setdefault((old[0], new), old[1]) != old[1]:
            bad.append("part %d: tracks %s and %s both became track %d (merged)" % (old[0], back[(old[0], new)], old[1], new))
    return sorted(set(bad))


# ----------------------------------------------------------------------------


def shrink(case, still_fails, keys=("ctrls", "thrs", "notes")):
    """ddmin over controls, then later assignments / steps, then notes."""
    c = dict(case)
    for key in keys:
        if len(c[key]) >= 2 or (key != "notes" and len(c[key]) >= 1):
            def fails(sub, key=key):
                d = dict(c)
                d[key] = sub
                if key == "notes" and not sub:
                    return False
                try:
                    return still_fails(d)
                except Exception:
                    return False
            if key != "notes" and fails([]):
                c[key] = []
                continue
            c[key] = core.ddmin(c[key], fails)
    return c


def shrink_hist(case, still_fails):
    def guarded(d):
        try:
            return still_fails(d)
        except Exception:
            return False

    c = shrink(case, still_fails, keys=("steps", "ctrls", "notes", "steps"))
    # carried sounding ends that are not needed
    for k in range(len(c["notes"])):
        if "so" in c["notes"][k]:
            d = dict(c, notes=[({kk: vv for kk, vv in x.items() if kk != "so"} if j == k else x) for j, x in enumerate(c["notes"])])
            if guarded(d):
                c = d
    # control lists inside the steps
    for k, step in enumerate(c["steps"]):
        if isinstance(step.get("ctrls"), list) and len(step["ctrls"]) >= 1:
            def fails(sub, k=k, step=step):
                return guarded(dict(c, steps=[(dict(step, ctrls=sub) if j == k else x) for j, x in enumerate(c["steps"])]))
            sub = [] if fails([]) else (core.ddmin(step["ctrls"], fails) if len(step["ctrls"]) >= 2 else step["ctrls"])
            c = dict(c, steps=[(dict(step, ctrls=sub) if j == k else x) for j, x in enumerate(c["steps"])])
    return c


CASE_TYPES = {
    "check_history": "Z * list note * list ctrl * list Z * option (list Q) * list (list Q)",
    "check_note_array": "Z * Z * Z * list note * list ctrl * list (Z * Z * Z * option Z)",
    "check_note_array_exact": "Z * Z * Z * list note * list ctrl * list (Z * Z * Z * option Z)",
    "check_steps": "Z * list note * list Q * list ctrl * list step * list (list Q * list Q)",
    "check_tracks": "list ((Z * Z) * Z)",
    "check_pp_new": "Z * Z * Z * list ndict * list ctrl * option (list Q * list (Z * Z * Z * option Z))",
    "check_pp_new_exact": "Z * Z * Z * list ndict * list ctrl * option (list Q * list (Z * Z * Z * option Z))",
    "check_pnote": "ndict * list edit * option pnote * list (option pnote)",
    "check_sanitize": "nat * list ptracks * list (list Z * list Z * list Z)",
    "check_sanitize_exact": "nat * list ptracks * list (list Z * list Z * list Z)",
    "check_perf_history": "list ptracks * list pstep * list (list Z * list Z * list Z)",
    "check_strike": "Z * list note * list ctrl * list Q",
}


def coq_failing(ctx, name, imports, terms, checker, shard):
    """ctx.coq_failing with every case term cast to the checker's case type: a shard whose cases all
    have an empty list in some position (a last shard of one or two cases) would otherwise leave the
    type of `[]` unresolved and make coqc reject the file."""
    if not terms:
        return []
    defs = "Definition pv_ty := (%s)%%type." % CASE_TYPES[checker]
    return ctx.coq_failing(name, imports, defs, ["(%s : pv_ty)" % t for t in terms], checker, shard=shard)


def empty_part_checks(ctx):
    """The empty note list is a note list: a part without notes (what load_performance_midi creates for a
    track holding only controls) is built, takes threshold assignments, has an empty note array, is rebuilt
    from it, and sits in a performance next to other parts."""
    import partitura.performance as P

    def go():
        out = []
        ctrls = [dict(number=64, time=0.5, value=127, track=0, channel=0), dict(number=64, time=2.0, value=0, track=0, channel=0)]
        for controls in (None, [], ctrls):
            what = "PerformedPart([], controls=%s)" % ("None" if controls is None else "%d pedal events" % len(controls))
            try:
                pp = P.PerformedPart([], controls=controls, sustain_pedal_threshold=64)
                pp.sustain_pedal_threshold = 10
                na = pp.note_array()
                if len(na) != 0:
                    out.append("%s.note_array() has %d rows" % (what, len(na)))
                rb = P.PerformedPart.from_note_array(na)
                if len(rb.notes) != 0:
                    out.append("from_note_array of the empty note array of %s has %d notes" % (what, len(rb.notes)))
                other = P.PerformedPart([dict(id="n0", midi_pitch=60, note_on=0.0, note_off=1.0, velocity=64)], controls=list(ctrls))
                perf = P.Performance([pp, other])
                pna = perf.note_array()
                if len(pna) != 1 or float(pna["duration_sec"][0]) != 2.0:
                    out.append("Performance([empty part, part]).note_array(): %s" % (pna,))
            except Exception as e:
                out.append("%s: construction / threshold assignment / note_array / from_note_array(note_array()) / Performance raised %s: %s" % (what, type(e).__name__, e))
        return out

    bad, tmo = guarded(go)
    ctx.evaluations += 3
    if tmo or bad:
        ctx.violation("a part without notes: " + (tmo or "; ".join(bad[:3])), {"kind": "empty-part", "failures": bad or [tmo]})
    else:
        ctx.count("empty_part:built_assigned_tabulated_rebuilt", 3)


# ----------------------------------------------------------------------------
# round j: the re-strike stream -- few pitches, many notes per pitch, chains of strikes exactly at releases, zero-length
# notes, strikes while the key is held, notes the pedal does not hold next to held ones; compared with the array-level
# model Model/C14_Strike.v (np.unique, gather, searchsorted + np.maximum(arange), np.minimum, in-place scatter)


def gen_strike_case(rng):
    sc = rng.choice([4, 4, 16, 1])
    npitch = rng.choice([1, 1, 2, 2, 3, 4])
    pitches = rng.sample(range(0, 128), npitch)
    n = rng.choice([2, 3, 4, 5, 6, 8, 10, 12, 14])
    span = rng.choice([6, 10, 16, 24])
    notes = []
    for _ in range(n):
        p = rng.choice(pitches)
        same = [m for m in notes if m["midi_pitch"] == p]
        r = rng.random()
        if same and r < 0.35:
            on = rng.choice(same)["off"]  # struck again exactly at a release
        elif same and r < 0.5:
            m = rng.choice(same)
            on = rng.randint(m["on"], m["off"])  # struck while the key is held (or at its ends)
        elif same and r < 0.6:
            on = rng.choice(same)["off"] + rng.choice([1, 1, 2])
        else:
            on = rng.randint(0, span)
        dur = rng.choice([0, 0, 1, 1, 2, 3, rng.randint(0, 8)])
        notes.append(dict(midi_pitch=p, on=on, off=on + dur, velocity=rng.randint(1, 127), channel=rng.choice([0, 0, 1, 9]), track=0))
    # a zero-length note sharing its onset with a note of its pitch leaves numpy's order of equal sort keys open: lengthen it
    for a in notes:
        if a["on"] == a["off"] and any(b is not a and b["midi_pitch"] == a["midi_pitch"] and b["on"] == a["on"] for b in notes):
            if rng.random() < 0.5:
                a["off"] += rng.choice([1, 1, 2])
            else:
                a["on"] = a["off"] = max(x["off"] for x in notes) + rng.choice([0, 1, 3])
                while any(b is not a and b["midi_pitch"] == a["midi_pitch"] and b["on"] == a["on"] for b in notes):
                    a["on"] = a["off"] = a["on"] + 1
    o = rng.random()
    if o < 0.25:
        notes.sort(key=lambda x: x["on"])
    elif o < 0.4:
        notes.sort(key=lambda x: -x["on"])
    else:
        rng.shuffle(notes)
    thr = rng.choice(THRS[:5]) if rng.random() < 0.7 else rng.randint(0, 126)
    lo, hi = min(x["on"] for x in notes), max(x["off"] for x in notes)
    ctrls = []
    if rng.random() < 0.55:
        # one long hold (down before / inside, up inside / after), possibly a second one
        t0 = rng.choice([lo - 1, lo, lo + 1, rng.randint(lo, hi)])
        t1 = max(t0 + 1, rng.choice([hi + 2, hi, rng.randint(lo, hi + 1)]))
        ctrls += [dict(number=64, t=t0, value=rng.choice([127, thr + 1, 100]), track=0, channel=0),
                  dict(number=64, t=t1, value=rng.choice([0, thr, 10 if thr >= 10 else 0]), track=0, channel=0)]
        used = {t0, t1}
        ctrls += gen_ctrls(rng, notes, thr, rng.choice([0, 0, 1, 2, 4]), ped_prob=0.7, used=used)
        rng.shuffle(ctrls)
    else:
        ctrls = gen_ctrls(rng, notes, thr, rng.choice([1, 2, 3, 4, 6, 9]), ped_prob=0.85)
    return dict(notes=notes, ctrls=ctrls, thr=thr, thrs=[], ppq=480, mpq=500000, scale=sc)


def run_strike(case):
    """-> dict(part=[Fraction]|None, direct=[Fraction]|None, err=str|None): the sounding ends of the part built from the notes and
    of adjust_offsets_w_sustain called on plain dicts"""
    import partitura.performance as P

    out = dict(part=None, direct=None, err=None)
    try:
        out["part"] = so_column(build_part(case))
        ds = [note_dict(x, k, case["scale"]) for k, x in enumerate(case["notes"])]
        P.adjust_offsets_w_sustain(ds, [ctrl_dict(c, case["scale"]) for c in case["ctrls"]], case["thr"])
        out["direct"] = [F(float(d["sound_off"])) for d in ds]
    except Exception as e:
        out["err"] = "%s: %s" % (type(e).__name__, e)
    return out


def oracle_strike(case, out):
    if out["err"] or out["part"] is None or out["direct"] is None:
        return ["building the part / adjust_offsets_w_sustain failed for notes with 0 <= onset <= release: %s" % out["err"]]
    bad = []
    sc, ns, thr = case["scale"], case["notes"], case["thr"]
    if len(out["part"]) != len(ns) or len(out["direct"]) != len(ns):
        return ["sound_off column has %d / %d entries for %d notes" % (len(out["part"]), len(out["direct"]), len(ns))]
    if out["part"] != out["direct"]:
        bad.append("adjust_offsets_w_sustain on dicts gives %s, the part has %s" % ([float(x) for x in out["direct"]], [float(x) for x in out["part"]]))
    for i, so in enumerate(out["part"]):
        off = F(ns[i]["off"], sc)
        exp, stated = spec_end(case, thr, i)
        if so < off:
            bad.append("threshold %d note %d: sound_off %s < note_off %s" % (thr, i, float(so), float(off)))
        elif stated and so != exp:
            bad.append("threshold %d note %d (pitch %d, on %s, off %s): sound_off %s, the pedal dictates %s"
                       % (thr, i, ns[i]["midi_pitch"], ns[i]["on"] / sc, float(off), float(so), float(exp)))
    return bad


def judge_strike(case):
    out, tmo = guarded(run_strike, case)
    if tmo:
        out = dict(part=None, direct=None, err=tmo)
    return oracle_strike(case, out), out


def term_strike(case, out):
    sc = case["scale"]
    return ctuple([cz(case["thr"]), clist([c_note(x, sc) for x in case["notes"]]), clist([c_ctrl(c, sc) for c in case["ctrls"]]), c_qlist(out["part"])])


def strike_features(case):
    """what the array-level algorithm meets in this case (for the evidence)"""
    f = set()
    ns, thr = case["notes"], case["thr"]
    groups = {}
    for k, x in enumerate(ns):
        groups.setdefault(x["midi_pitch"], []).append((k, x))
    f.add("passes(np.unique):%s" % ("1" if len(groups) == 1 else "2" if len(groups) == 2 else "3+"))
    big = max(len(g) for g in groups.values())
    f.add("largest_group:%s" % ("1" if big == 1 else "2-3" if big <= 3 else "4-7" if big <= 7 else "8+"))
    if len(groups) > 1 and any(abs(a - b) == 1 and ns[a]["midi_pitch"] != ns[b]["midi_pitch"] for a in range(len(ns)) for b in range(len(ns))):
        f.add("groups_interleaved_in_the_array")
    for g in groups.values():
        idx = [k for k, _ in sorted(g, key=lambda e: e[1]["on"])]
        if idx != sorted(idx):
            f.add("sorted_indices_not_ascending(gather/scatter permute)")
    ped = [(c["t"], c["value"]) for c in case["ctrls"] if c["number"] == 64]
    for i, x in enumerate(ns):
        g = sorted([e for e in groups[x["midi_pitch"]]], key=lambda e: e[1]["on"])
        ons = [e[1]["on"] for e in g]
        pos = [k for k, _ in g].index(i)
        ss = sum(1 for o in ons if o < x["off"])
        if ss <= pos:
            f.add("np.maximum_decides(searchsorted <= own position)")
        if ss > pos + 1:
            f.add("searchsorted_skips_strikes_while_held")
        if max(ss, pos + 1) >= len(g):
            f.add("has_next_false")
        elif ons[max(ss, pos + 1)] == x["off"]:
            f.add("next_strike_exactly_at_release")
        if x["on"] == x["off"]:
            f.add("zero_length_note")
        before = [(t, k, v) for k, (t, v) in enumerate(ped) if t < x["off"]]
        down = bool(before) and max(before, key=lambda e: (e[0], e[1]))[2] > thr
        if not down and any(b["midi_pitch"] == x["midi_pitch"] and b is not x for b in ns):
            f.add("note_not_held_by_the_pedal_in_a_group")
        if not down and max(ss, pos + 1) < len(g):
            f.add("unheld_note_has_a_next_strike(np.minimum keeps the release)")
    for why_ in end_reasons(case, thr):
        f.add("end_decided_by:" + why_)
    return f


def strike_stream(ctx, ok):
    rng = ctx.rng
    n = 400 if ctx.tier == "quick" else 8000
    terms, kept = [], []
    n_viol = 0
    for _ in range(n):
        case = gen_strike_case(rng)
        if has_order_tie(case):
            ctx.count("strike:order_tie(skipped)")
            continue
        bad, out = judge_strike(case)
        ctx.evaluations += 2
        ctx.count("strike:cases")
        if bad:
            if n_viol < 3:
                def still(d):
                    if not d["notes"] or has_order_tie(d):
                        return False
                    b, _ = judge_strike(d)
                    return bool(b) and b[0][:25] == bad[0][:25]
                small = shrink(case, still, keys=("ctrls", "notes"))
                b2, _ = judge_strike(small)
                ctx.violation("C14 fails on the implementation (re-strike stream): " + "; ".join((b2 or bad)[:3]),
                              {"kind": "strike", "case": small, "failures": (b2 or bad)[:5]})
            n_viol += 1
            continue
        sc = case["scale"]
        if any(so != F(x["off"], sc) for so, x in zip(out["part"], case["notes"])):
            ctx.nontrivial("strike:" + json.dumps(case, sort_keys=True))
        for ft in strike_features(case):
            ctx.count("strike:" + ft)
        terms.append(term_strike(case, out))
        kept.append((case, out))
    if ok and terms:
        imports_k = "From PV Require Import Lib.Base Model.C14 Model.C14_Strike."
        failing = coq_failing(ctx, "strike", imports_k, terms, "check_strike", shard=250)
        ctx.obligation("correspondence: Model.C14_Strike.sound_offs_code (adjust_offsets_w_sustain on arrays and indices: np.unique over the pitches, gathers, "
                       "np.maximum(searchsorted, arange), has_next / np.minimum, in-place scatter; the model of code_level_refines_model / restrike_loop_pointwise) = sound_off "
                       "column of the part and of adjust_offsets_w_sustain on plain dicts, %d cases of the re-strike stream" % len(terms), not failing, failing[:5])
        for i in failing[:3]:
            case, out = kept[i]
            ctx.violation("array-level model and implementation disagree on the sound_off column (the round-j theorems of Props/C14.v no longer describe this code)",
                          {"kind": "strike-model", "case": case, "impl_sound_off": [float(x) for x in out["part"]]})


def judge(case):
    tie = has_order_tie(case)
    res, tmo = guarded(run_impl, case)
    if tmo:
        res = dict(obs0=None, hist=[], err="building the part / assigning thresholds " + tmo, na=None, rebuilt=None, fresh=[], vel=None)
    return oracle(case, res, tie), res, tie


def run(ctx):
    ctx.rule = ("cases = (1-15 notes on a 1/16 s grid over 1-5 pitches incl. repeated, touching and overlapping notes of one pitch on "
                "same/different channels, zero-length notes, sorted/unsorted/reversed order; 0-20 controls, 70% sustain (64) with values "
                "weighted to 0/127/63/64/65/thr-1/thr/thr+1, times before the first note, after the last release, exactly on onsets/releases "
                "and one step off them; initial threshold from {0,1,63,64,126,127} or random; 1-6 later assignments; ppq/mpq from 6 pairs or random). "
                "Operation histories (600 / 15000) = such a part, 35% of them built from notes that already carry a sound_off >= release (half of those without any "
                "pedal event), followed by 1-6 steps: threshold assignment 12%, controls replaced / extended (pedal added later) / one deleted / cleared / "
                "all pedal events removed (by assignment and in place) then threshold assigned 40%, note_off or note_on edited / note added / deleted then "
                "threshold assigned 20%, part rebuilt from the part's note dicts / note objects / copies with same, pedal-free or new controls 18%, "
                "from_note_array(note_array()) 10%; 45% of the assigned thresholds equal the current one; judged after construction and after every step. "
                "Time grid 1/16 s (4 in 7), 1, 1/4, 1/1024 s. Performances: 1-4 parts, notes / controls / program changes on shared, missing and further "
                "track numbers, 35% of the multi-part ones with pairwise disjoint note tracks and a control or program change on a track another part's notes "
                "use; 40% sanitised a second time; 30% with controls / program changes without a track key, a third built with ensure_unique_tracks=False and "
                "sanitised afterwards, a third given as a tuple, pedal events that extend notes (Performance.note_array() judged). "
                "45% of the main and history cases hand the notes over in a 'shape': times as float / int / numpy float32 / float64, optional note keys absent, PerformedNote "
                "objects, stored ticks (note_on_tick / note_off_tick by the library's own conversion), carried sound_off, controls without track / channel, controls=None; "
                "pitch 0 / 127 in 25% of the cases, velocity 0 / 127 / 1 / 126 in 12% of the notes, onset 0 in 10%. Histories also: ppq / mpq assigned (6% of the steps), "
                "note_array() judged after construction and after every step under the current ppq / mpq; 120 / 2400 histories start from a part loaded by load_performance_midi "
                "from an in-memory type-1 file (ppq 512, 1-3 tempi in the first track, notes and controls in the second, 30% merge_tracks=True). "
                "PerformedNote stream: 1000 / 24000 dicts (35% with one field outside the statement) each followed by 0-4 assignments note[key] = value. A part without notes: 3 checks. "
                "Second hardening round: 22% of the main / history cases have one or two of the time columns (onsets / releases / control times) on whole seconds only while the "
                "others are not, each column handed over in a number type of its own (int / np.int64 / np.int32 where whole, float / np.float32 / np.float64), thresholds also as numpy ints; "
                "history steps: one control event edited in place (value / time / number), adjust_offsets_w_sustain called directly, edited values in those number types; every note_array() "
                "observation is the second of two calls with the first result overwritten; every third main case the previous one is run again, every fifth is followed by a variant with one "
                "pedal value across the threshold; from_note_array also on the array in 4 other accepted forms; 150 / 3000 Performance histories (part replaced / appended / deleted, note added, "
                "track changed in place, threshold assigned, then sanitize_track_numbers() again; num_tracks and note_array() judged against the current parts). "
                "Round j: a re-strike stream of 400 / 8000 cases generated last (1-4 pitches, 2-14 notes, 35% of the notes struck exactly at a release of their pitch, 15% while the key is held, "
                "durations weighted to 0 / 1, shuffled / sorted / reversed, 55% with one long pedal hold, thresholds at the boundary, no open order ties), the part and adjust_offsets_w_sustain on plain "
                "dicts, compared with the array-level model Model/C14_Strike.v; features counted under strike:*. "
                "Non-trivial = a case in which at least one note's sounding end differs from its release under at least one of the thresholds "
                "(pedal extension, possibly clipped by a re-strike), a history with such a state or with a carried sound_off different from the release, "
                "a performance with more than one (part, track) pair; counted distinct by the full case.")
    ctx.trusted = ["Coq 8.16.1 kernel incl. vm_compute", "harness/props/c14.py (generator, in-memory MIDI writer, literal printer, Python oracle)",
                   "mido (MIDI file object handed to load_performance_midi)", "numpy argsort on distinct keys sorts ascending"]
    ctx.assumptions = [
        "times are multiples of 1/scale s (scale 1, 4, 16, 1024; 2048 for parts loaded from MIDI) with numerators below 2^17, so that the float64/float32 arithmetic of the implementation "
        "is exact; compared exactly as rationals",
        "histories: the oracle and the Coq model are fed the notes / controls / threshold the harness's own bookkeeping of the steps (abs_apply) arrives at; "
        "the part's pitch, onset and release columns are compared with that bookkeeping after every step; notes carrying a sound_off below their release "
        "(which PerformedNote rejects) and edits that would put a release before its onset are not generated",
        "an order tie is open under a threshold only if two pedal events at one time differ in value > threshold, or a zero-length note shares its onset "
        "with a note of its pitch; the direct oracle compares with the specification whenever the tie is not open; no-pedal identity, threshold >= 127 identity, "
        "sound_off >= note_off and equality with a part built afresh are required on every state",
        "main stream: pedal events at pairwise distinct times and no zero-length note sharing its onset with another note of its pitch "
        "(numpy's default argsort leaves the order of equal keys unspecified); inputs with such ties go to a separate stream on which only "
        "totality, sound_off >= note_off and identity at threshold >= 127 are required, agreement with the stable-order model is counted",
        "when the pedal is down at a release and no later pedal value is at or below the threshold and the pitch is not struck again, the statement does "
        "not say when the note ends: only sound_off >= note_off is required there (the implementation's and the model's convention is "
        "max(last pedal time, last release) + 1 s; Model/C14_Spec.v states it as the closing moment, the correspondence does not demand it)",
        "tick columns: onset_tick within 1/2 + 1/1000 of 1e6*ppq*onset/mpq, duration_tick within 1 + 1/1000 of 1e6*ppq*duration/mpq when no pedal extends "
        "the note (1/1000 tick allowed for the float evaluation); equality with the model's own formulas is counted only",
        "track renumbering: required is that no new number is used by two parts and that events of one part share a number iff they did before "
        "(notes, controls, programs); which numbers are used and num_tracks are not judged",
        "float32 columns of note_array and the rebuilt part are compared with relative tolerance 2^-20",
        "PerformedNote: required is that a note the statement is about (0 <= onset <= release, MIDI pitch / velocity, carried sounding end >= release, stored ticks ordered) "
        "is accepted and stored as given, and that an assignment keeping 0 <= onset <= release <= sounding end is accepted and stored; what is rejected and which defaults are "
        "stored (velocity 60) is compared with the model as an obligation only",
        "stored ticks (note_on_tick): the tick columns of note_array are judged only while the stored ticks are consistent with the note's seconds under the part's ppq / mpq "
        "(not after an onset edit, a ppq / mpq change, or for a MIDI file whose tempo map is not the part's single mpq)",
        "events without a track key: only uniqueness of their new number across parts is required; their grouping (the code reads -1) is compared with the model as an obligation only; "
        "an implementation that leaves such an event without a number is not judged for it",
        "parts loaded from MIDI: ppq 512 and tempi 250000 / 500000 / 1000000 make every time a multiple of 1/2048 s, exact in the loader's float arithmetic; same-pitch notes that "
        "touch or overlap get different channels (a MIDI stream cannot tell them apart otherwise)",
        "every implementation call runs under a budget of 60 s CPU time (ITIMER_VIRTUAL / SIGVTALRM, exception derived from BaseException); exceeding it is reported as 'did not terminate'",
    ]
    ok, why = ctx.coq_props(expect_min=EXPECT_MIN)
    if not ok:
        ctx.log("coq_props failed: " + why[:1500])

    rng = ctx.rng
    quick = ctx.tier == "quick"
    n_main = 800 if quick else 18000
    n_tie = 120 if quick else 2400
    n_perf = 250 if quick else 5000

    # ---- corpus + generated main stream
    cases = []
    for c in corpus_cases():
        cases.append((c, "corpus"))
    for i in range(n_main):
        c = gen_case(rng)
        if has_order_tie(c):
            ctx.count("main:moved_to_tie_stream")
            cases.append((c, "tie"))
        else:
            cases.append((c, "main"))
        peds = [k for k, x in enumerate(c["ctrls"]) if x["number"] == 64]
        if i % 5 == 0 and peds:
            # the same part once more with ONE pedal value moved across the threshold (same times, same lengths, same
            # threshold: whatever the library may remember about the previous call does not apply to this one)
            c2 = json.loads(json.dumps(c))
            x = c2["ctrls"][rng.choice(peds)]
            x["value"] = rng.choice([0, c["thr"]]) if x["value"] > c["thr"] else rng.choice([127, min(127, c["thr"] + 1)])
            ctx.count("main:variant_with_one_pedal_value_across_the_threshold")
            cases.append((c2, "tie" if has_order_tie(c2) else "main"))
    for i in range(n_tie):
        cases.append((gen_case(rng, tie_stream=True), "tie?"))

    hist_terms, hist_cases, na_terms, na_cases = [], [], [], []
    pp_terms, pp_cases = [], []
    n_viol = 0
    tie_terms, tie_cases = [], []
    prev = None
    for k_case, (case, kind) in enumerate(cases):
        bad, res, tie = judge(case)
        ctx.evaluations += 1 + len(case["thrs"])
        ctx.count("cases:" + ("tie" if tie else "main"))
        if not bad and prev is not None and k_case % 3 == 0:
            # same process, two inputs, both orders: the previous case once more, after this one went through the library
            again, tmo = guarded(run_impl, prev[0])
            ctx.evaluations += 1
            ctx.count("cases:run_again_after_another_case")
            if tmo or any(again.get(key) != prev[1].get(key) for key in ("obs0", "hist", "na", "rebuilt", "err")):
                if n_viol < 5:
                    ctx.violation("C14 fails on the implementation: the same notes, controls and thresholds give another result after another part went through the library: "
                                  "sounding ends %s then, %s now (state carried between calls)"
                                  % ([float(x) for x in prev[1]["obs0"]], None if tmo or again["obs0"] is None else [float(x) for x in again["obs0"]]),
                                  {"kind": "pedal-pair", "first": prev[0], "between": case})
                n_viol += 1
        if not bad:
            prev = (case, res)
        if bad:
            if n_viol < 5:
                def still(d):
                    b, _, _ = judge(d)
                    return bool(b) and (b[0][:25] == bad[0][:25])
                small = shrink(case, still)
                b2, r2, _ = judge(small)
                ctx.violation("C14 fails on the implementation: " + "; ".join((b2 or bad)[:3]),
                              {"kind": "pedal", "case": small, "failures": (b2 or bad)[:5]})
            n_viol += 1
            continue
        # statistics
        sc = case["scale"]
        ext = any(so != F(x["off"], sc) for col in [res["obs0"]] + res["hist"] for so, x in zip(col, case["notes"]))
        if ext:
            ctx.nontrivial(json.dumps(case, sort_keys=True))
            ctx.count("cases:some_note_extended")
        ped = [c for c in case["ctrls"] if c["number"] == 64]
        ctx.count("pedal_events:%s" % ("0" if not ped else "1-3" if len(ped) <= 3 else "4-9" if len(ped) <= 9 else "10+"))
        if any(a is not b and a["midi_pitch"] == b["midi_pitch"] and a["on"] < b["off"] and b["on"] < a["off"]
               for a in case["notes"] for b in case["notes"]):
            ctx.count("cases:overlapping_same_pitch")
        if any(x["on"] == x["off"] for x in case["notes"]):
            ctx.count("cases:zero_length_note")
        if any(case["thr"] == 127 or t == 127 for t in case["thrs"]):
            ctx.count("cases:threshold_127")
        if len(ctx.samples) < 3 and ext:
            ctx.sample({"case": case, "sound_off_after_construction": [float(x) for x in res["obs0"]]})
        if not tie:
            for t in {case["thr"]} | set(case["thrs"]):
                for why_ in end_reasons(case, t):
                    ctx.count("end_decided_by:" + why_)
        if res.get("rebuilt2") is not None:
            ctx.count("cases:from_note_array_of_an_array_in_another_accepted_form(variant %d)" % res["variant"])
        if res.get("direct") is not None:
            ctx.count("cases:adjust_offsets_w_sustain_called_directly_on_dicts")
        elif res.get("direct_err"):
            ctx.count("cases:adjust_offsets_w_sustain_on_dicts_raised(not judged)")
        shp = case.get("shape")
        if case.get("whole"):
            w = case["whole"]
            ctx.count("whole_seconds_only:" + "+".join(w))
            ends = [spec_end(case, t, i) for t in {case["thr"]} | set(case["thrs"]) for i in range(len(case["notes"]))] if not tie else []
            for col in w:
                kd = kind_of(shp, col)
                if kd in ("int", "npint", "npint32"):
                    ctx.count("whole_seconds_only:%s_handed_over_as_%s" % (col, kd))
                    if col == "off" and any(st_ and e.denominator != 1 for e, st_ in ends):
                        ctx.count("whole_seconds_only:integer_releases_and_a_sounding_end_off_the_whole_seconds")
        if shp:
            if shp.get("kinds"):
                ctx.count("shape:time_columns_in_different_number_types")
            if shp.get("thr_np"):
                ctx.count("shape:threshold_as_numpy_int")
            ctx.count("shape:times_as_%s" % shp["num"])
            if shp.get("obj"):
                ctx.count("shape:PerformedNote_objects_handed_over")
            if any(x.get("omit") for x in case["notes"]):
                ctx.count("shape:optional_note_keys_absent")
            if any(x.get("tk") for x in case["notes"]):
                ctx.count("shape:notes_carry_stored_ticks")
            if any("so" in x for x in case["notes"]):
                ctx.count("shape:notes_carry_sound_off")
            if not tie:
                pp_terms.append(term_pp_new(case, res))
                pp_cases.append((case, res))
        if tie:
            tie_terms.append(term_history(case, res))
            tie_cases.append(case)
        else:
            hist_terms.append(term_history(case, res))
            hist_cases.append((case, res))
            na_terms.append(term_note_array(case, res))
            na_cases.append((case, res))

    imports = "From PV Require Import Lib.Base Model.C14."
    ctx.log("main stream judged in Python (%d cases)" % len(cases))
    if ok:
        failing = coq_failing(ctx, "hist", imports, hist_terms, "check_history", shard=250)
        ctx.obligation("correspondence: Model.C14.construct / set_threshold = sound_off column of PerformedPart after construction and after "
                       "each of %d threshold assignments, %d cases (equal, or >= release where the model's value is the closing moment the statement does not fix)"
                       % (sum(len(c["thrs"]) for c, _ in hist_cases), len(hist_terms)),
                       not failing, failing[:5])
        for i in failing[:3]:
            case, res = hist_cases[i]
            ctx.violation("model and implementation disagree on the sound_off column (the theorems of Props/C14.v no longer describe this code)",
                          {"kind": "pedal-model", "case": case, "impl_sound_off": [float(x) for x in res["obs0"]],
                           "impl_history": [[float(x) for x in h] for h in res["hist"]]})
        failing = coq_failing(ctx, "na", imports, na_terms, "check_note_array", shard=250)
        ctx.obligation("correspondence: rows of PerformedPart.note_array() have the note's pitch and velocity, the onset tick nearest to the onset in "
                       "seconds under ppq/mpq and, where no pedal extends the note, a tick duration within one tick of the duration in seconds "
                       "(Model.C14.check_note_array; the bounds of onset_tick_agrees / duration_tick_agrees), %d cases" % len(na_terms), not failing, failing[:5])
        for i in failing[:3]:
            case, res = na_cases[i]
            ctx.violation("model and implementation disagree on note_array()", {"kind": "note-array-model", "case": case,
                                                                                 "impl_rows": [{k: (float(v) if isinstance(v, F) else v) for k, v in r.items()} for r in res["na"]]})
        # agreement with the model's own tick formulas (round half even; tick(release) - tick(onset)) is counted, not required
        xa_terms = na_terms[::2] if quick else na_terms[::3]  # counted only: a part of the cases
        xfail = coq_failing(ctx, "na_exact", imports, xa_terms, "check_note_array_exact", shard=250)
        ctx.count("note_array:rows_equal_model_formulas", len(xa_terms) - len(xfail))
        ctx.count("note_array:rows_differ_from_model_formulas(reported only)", len(xfail))
        # tie stream: agreement with the stable-order model is counted, not required
        tfail = coq_failing(ctx, "tie", imports, tie_terms, "check_history", shard=250) if tie_terms else []
        ctx.count("tie_stream:agrees_with_stable_order_model", len(tie_terms) - len(tfail))
        ctx.count("tie_stream:differs_from_stable_order_model(reported only)", len(tfail))

        imports_n = "From PV Require Import Lib.Base Model.C14 Model.C14_Note."
        failing = coq_failing(ctx, "pp_new", imports_n, pp_terms, "check_pp_new", shard=250)
        ctx.obligation("correspondence: Model.C14_Note.pp_new (PerformedNote defaults and field checks per dict, validated write-back of the computed "
                       "sounding ends) and note_array_n (stored onset tick wins) = sound_off column and note_array rows of PerformedPart built from dicts with "
                       "optional keys absent / carried sound_off / stored ticks, %d cases" % len(pp_terms), not failing, failing[:5])
        for i in failing[:3]:
            case, res = pp_cases[i]
            ctx.violation("model and implementation disagree on a part built from note dicts (Model.C14_Note.pp_new; the theorems of Props/C14.v no longer describe this code)",
                          {"kind": "pedal-model", "case": case, "impl_sound_off": [float(x) for x in res["obs0"]],
                           "impl_history": [[float(x) for x in h] for h in res["hist"]]})
        xp_terms = pp_terms[::2] if quick else pp_terms[::3]
        xfail = coq_failing(ctx, "pp_new_exact", imports_n, xp_terms, "check_pp_new_exact", shard=250)
        ctx.count("pp_new:rows_equal_model_formulas(default velocity 60, stored tick wins; counted only)", len(xp_terms) - len(xfail))

    # ---- PerformedNote: field validation at construction and on assignment
    n_pn = 1000 if quick else 24000
    pn_terms, pn_valid = [], []
    for i in range(n_pn):
        pc = gen_pnote_case(rng)
        r, tmo = guarded(run_pnote, pc)
        ctx.evaluations += 1
        if tmo:
            ctx.violation("PerformedNote " + tmo, {"kind": "pnote", "case": pc})
            continue
        f0, outs, errs = r
        bad = oracle_pnote(pc, f0, outs)
        if bad:
            if n_viol < 8:
                ctx.violation("PerformedNote field validation: " + "; ".join(bad[:3]), {"kind": "pnote", "case": pc, "failures": bad[:5]})
            n_viol += 1
            continue
        valid = pn_dict_valid(pc["d"])
        ctx.count("pnote:dict_%s" % ("valid" if valid else "outside_the_statement(%s)" % ("rejected" if f0 is None else "accepted")))
        if valid and pc["edits"]:
            ctx.nontrivial("pnote" + json.dumps(pc, sort_keys=True))
        for (key, v), o in zip(pc["edits"], outs):
            ctx.count("pnote:assign_%s_%s" % (key if key in TIME_KEYS + ("velocity", "pitch", "note_on_tick", "note_off_tick") else "other_key", "accepted" if o is not None else "rejected"))
        pn_terms.append(term_pnote(pc, f0, outs))
        pn_valid.append(valid)
    if ok:
        failing = coq_failing(ctx, "pnote", imports_n, pn_terms, "check_pnote", shard=600)
        # acceptance of what the statement is about is judged by the direct oracle above; what is rejected / which defaults are stored
        # is outside the statement, so a disagreement with the model is recorded as a failed obligation (model drift), not as a violation
        ctx.obligation("correspondence: Model.C14_Note.pn_new / pn_set (defaults, _validate_* per key, accepted keys) = PerformedNote(dict) and note[key] = value: "
                       "accepted or raised, stored fields after every assignment, %d notes with %d assignments (%d of the dicts are notes the statement is about)"
                       % (len(pn_terms), sum(t.count("(E") + t.count("EOther") + t.count("EBadKey") for t in pn_terms), sum(pn_valid)), not failing, failing[:5])
    empty_part_checks(ctx)

    # ---- operation histories
    ctx.log("main stream compared in Coq")
    n_hist = 600 if quick else 15000
    n_hist_tie = 80 if quick else 1600
    hcases = [(c, "corpus") for c in hist_corpus_cases()]
    hcases += [(gen_hist_case(rng), "hist") for _ in range(n_hist)]
    hcases += [(gen_hist_case(rng, tie_stream=True), "tie?") for _ in range(n_hist_tie)]
    hcases += [(gen_midi_hist_case(rng), "midi") for _ in range(120 if quick else 2400)]
    sna_terms = []
    st_terms, st_cases, stt_terms = [], [], []
    n_hviol = 0
    n_hist_steps = 0
    for case, kind in hcases:
        bad, trace, tie = judge_hist(case)
        ctx.evaluations += max(1, len(trace))
        ctx.count("histories:" + ("tie" if tie else "main"))
        if bad:
            if n_hviol < 5:
                cls = fail_class(bad[0])

                def still(d, cls=cls):
                    b, _, _ = judge_hist(d)
                    return bool(b) and fail_class(b[0]) == cls
                small = shrink_hist(case, still)
                b2, _, _ = judge_hist(small)
                ctx.violation("C14 fails on the implementation after a history of operations: " + "; ".join((b2 or bad)[:3]),
                              {"kind": "history", "case": small, "failures": (b2 or bad)[:5]})
            n_hviol += 1
            continue
        sc = case["scale"]
        steps = case["steps"][:len(trace) - 1]
        if not tie:
            n_hist_steps += len(steps)
        for s_ in steps:
            ctx.count("hist_step:%s%s" % (s_["op"], ":" + s_["how"] if "how" in s_ else ""))
            if s_.get("num"):
                ctx.count("hist_step:values_handed_over_as_%s" % s_["num"])
            if s_.get("direct"):
                ctx.count("hist_step:adjust_offsets_w_sustain_called_directly")
            if s_.get("thr_np"):
                ctx.count("hist_step:threshold_as_numpy_int")
        if case.get("whole"):
            ctx.count("histories:whole_seconds_only:" + "+".join(case["whole"]))
        ext = [any(so != off for so, off in zip(o["so"], o["off"])) for _, o in trace]
        noped = [not any(c["number"] == 64 for c in st["ctrls"]) for st, _ in trace]
        carried = any(x.get("so", x["off"]) != x["off"] for x in case["notes"])
        if any(ext[k] and noped[k + 1] for k in range(len(trace) - 1)):
            ctx.count("histories:pedal_events_gone_after_they_extended_notes")
        if any(noped[k] and ext[k + 1] for k in range(len(trace) - 1)):
            ctx.count("histories:pedal_events_added_later_extend_notes")
        if carried:
            ctx.count("histories:notes_carry_sound_off" + ("_no_pedal" if noped[0] else "_with_pedal"))
        if any(s_["op"] != "thr" and s_.get("thr") == trace[k][0]["thr"] for k, s_ in enumerate(steps)):
            ctx.count("histories:edit_then_same_threshold_assigned")
        if any(ext) or carried:
            ctx.nontrivial("hist" + json.dumps(case, sort_keys=True))
        if case.get("midi"):
            ctx.count("histories:part_loaded_by_load_performance_midi")
            if len(case["midi"]["tempos"]) > 1 and not case["midi"].get("merge"):
                ctx.count("histories:loaded_midi_times_moved_after_construction(tempo change in another track)" + ("_pedal_extends" if ext[0] else ""))
        if any(x.get("tk") for x in case["notes"]):
            ctx.count("histories:notes_carry_stored_ticks")
        if any(x.get("tk") and not x.get("tk_stale") for st, _ in trace[1:] for x in st["notes"]):
            ctx.count("histories:stored_ticks_judged_after_a_step")
        if not tie:
            # the rows of note_array() in the last state of the history, for the Coq bounds (stale stored ticks left out)
            st_l, o_l = trace[-1]
            if not any(x.get("tk") and x.get("tk_stale") for x in st_l["notes"]):
                rows = [ctuple([cz(r["pitch"]), cz(r["velocity"]), cz(r["onset_tick"]), copt(r["duration_tick"] if o_l["so"][i] == o_l["off"][i] else None, cz)])
                        for i, r in enumerate(o_l["na"])]
                sna_terms.append(ctuple([cz(st_l["ppq"]), cz(st_l["mpq"]), cz(st_l["thr"]), clist([c_note(x, sc, o_l["vel"][i]) for i, x in enumerate(st_l["notes"])]),
                                         clist([c_ctrl(c, sc) for c in st_l["ctrls"]]), clist(rows)]))
        if len(ctx.samples) < 5 and any(ext[k] and noped[k + 1] for k in range(len(trace) - 1)) and len(steps) <= 3:
            ctx.sample({"history_case": case, "sound_off_after_each_step": [[float(x) for x in o["so"]] for _, o in trace]})
        for t in terms_steps(case, trace):
            if tie:
                stt_terms.append(t)
            else:
                st_terms.append(t)
                st_cases.append((case, trace))
        if any(not spec_end(state_view(st, sc), st["thr"], i)[1] for st, _ in trace for i in range(len(st["notes"]))):
            ctx.count("histories:some_sounding_end_left_open_by_the_statement")
    ctx.log("histories judged in Python (%d)" % len(hcases))
    if ok:
        failing = coq_failing(ctx, "steps", imports, st_terms, "check_steps", shard=200)
        ctx.obligation("correspondence: Model.C14.new_part_carrying / apply_step (SetThr, SetCtrls, SetNotes, Rebuild, RoundTrip) = note_off and sound_off "
                       "columns of the PerformedPart after construction from notes carrying sound_off values and after each of %d steps, %d histories "
                       "(equal, or >= release where the model's value is the closing moment the statement does not fix)"
                       % (n_hist_steps, len(st_terms)), not failing, failing[:5])
        for i in failing[:3]:
            case, trace = st_cases[i]
            ctx.violation("model and implementation disagree on the sound_off column after a history of operations "
                          "(the theorems of Props/C14.v no longer describe this code)",
                          {"kind": "history-model", "case": case, "impl_sound_off_after_each_step": [[float(x) for x in o["so"]] for _, o in trace]})
        failing = coq_failing(ctx, "state_na", imports, sna_terms, "check_note_array", shard=300)
        ctx.obligation("correspondence: rows of note_array() in the LAST state of each history (after edits, rebuilds, round trips, ppq / mpq changes) have the "
                       "note's pitch and velocity, the onset tick nearest to the onset under the part's current ppq / mpq and, where no pedal extends the note, a tick "
                       "duration within one tick (Model.C14.check_note_array), %d states" % len(sna_terms), not failing, failing[:5])
        if failing:
            ctx.violation("model and implementation disagree on note_array() after a history of operations", {"kind": "history-model", "case": "state_na term %d" % failing[0]}, no_input=True)
        tfail = coq_failing(ctx, "steps_tie", imports, stt_terms, "check_steps", shard=200) if stt_terms else []
        ctx.count("tie_histories:agree_with_stable_order_model", len(stt_terms) - len(tfail))
        ctx.count("tie_histories:differ_from_stable_order_model(reported only)", len(tfail))

    # ---- track renumbering
    ctx.log("histories compared in Coq")
    tr_terms, tr_cases = [], []
    sn_terms, sn_cases, snk_terms = [], [], []
    for i in range(n_perf):
        pc = gen_perf_case(rng)
        r, tmo = guarded(run_perf, pc)
        ctx.evaluations += 1
        if tmo or isinstance(r, str):
            if n_viol < 8:
                ctx.violation("building / sanitising a Performance " + (tmo or "raised: " + r), {"kind": "tracks", "case": pc})
            n_viol += 1
            continue
        pairs, nt, det = r
        bad = oracle_tracks(pairs) + oracle_perf_note_array(det)
        if bad:
            if n_viol < 8:
                ctx.violation(("" if bad[0].startswith("Performance.note_array") else "track renumbering: ") + "; ".join(bad[:3]), {"kind": "tracks", "case": pc, "pairs": pairs})
            n_viol += 1
            continue
        if len({o for o, _ in pairs}) > 1:
            ctx.nontrivial("tracks" + json.dumps(pc, sort_keys=True))
        ctx.count("perf:parts=%d" % len(pc["parts"]))
        if pc.get("again"):
            ctx.count("perf:again=%s" % pc["again"])
        if pc.get("unique") == "later":
            ctx.count("perf:ensure_unique_tracks=False_then_sanitize_track_numbers()")
        if pc.get("container") == "tuple":
            ctx.count("perf:parts_given_as_tuple")
        if pc.get("disjoint_note_tracks"):
            ctx.count("perf:note_tracks_disjoint_but_control_or_program_on_another_parts_track")
        keyless = any(o is None for part in det["olds"] for side in part for o in side)
        unnumbered = any(v is None for part in det["news"] for side in part for v in side)
        if keyless:
            ctx.count("perf:control_or_program_without_track_key")
        if unnumbered:
            ctx.count("perf:event_without_track_key_left_without_number(not judged, not modelled)")
        if any(h[3] != h[4] - h[2] for h in det["held"]):
            ctx.count("perf:pedal_extends_a_note_reported_by_Performance.note_array()")
        if nt == len({nw for _, nw in pairs}):
            ctx.count("perf:num_tracks_equals_number_of_new_track_numbers(counted only)")
        keyed = [(o, nw) for o, nw in pairs if o[1] is not None]
        tr_terms.append(clist([ctuple([ctuple([cz(o[0]), cz(o[1])]), cz(nw)]) for o, nw in keyed]))
        tr_cases.append((pc, pairs))
        if unnumbered:
            pass
        elif keyless:
            snk_terms.append(term_sanitize(pc, det))
        else:
            sn_terms.append(term_sanitize(pc, det))
            sn_cases.append((pc, pairs))
    # ---- histories over a Performance: edits through the public API, then renumbered again
    snh_terms, snh_cases = [], []
    ph_terms, ph_cases = [], []
    for i in range(150 if quick else 3000):
        pc = gen_perf_hist_case(rng)
        r, tmo = guarded(run_perf_hist, pc)
        ctx.evaluations += 3
        if tmo or isinstance(r, str):
            if n_viol < 8:
                ctx.violation("a Performance edited through its public attributes and sanitised again " + (tmo or "raised: " + r), {"kind": "tracks-history", "case": pc})
            n_viol += 1
            continue
        bad = oracle_perf_hist(r)
        if bad:
            if n_viol < 8:
                ctx.violation("track renumbering / Performance.note_array() over a history of edits: " + "; ".join(bad[:3]), {"kind": "tracks-history", "case": pc, "failures": bad[:5]})
            n_viol += 1
            continue
        ctx.nontrivial("perfhist" + json.dumps(pc, sort_keys=True))
        for e in pc["edits"]:
            ctx.count("perf_history:edit_%s" % e["op"])
        numbers = {}
        for (i_, a), b in track_pairs(r["olds2"], r["olds2"]):
            numbers.setdefault(b, set()).add(i_)
        if any(len(v) > 1 for v in numbers.values()):
            ctx.count("perf_history:a_track_number_shared_by_two_parts_before_the_second_renumbering")
        if r["na1"]["held"] != r["na2"]["held"]:
            ctx.count("perf_history:notes_or_sounding_ends_changed_between_two_note_array_calls")
        keyless = any(o is None for part in r["olds2"] for side in part for o in side)
        unnumbered = any(v is None for part in r["news3"] for side in part for v in side)
        t = perf_hist_term(pc, r)
        if t == "bookkeeping":
            ctx.violation("after edits through the public API the parts of the Performance do not hold the track keys the edits lead to: %s" % (r["olds2"],),
                          {"kind": "tracks-history", "case": pc})
            n_viol += 1
            continue
        if t is not None:
            ph_terms.append(t)
            ph_cases.append(pc)
        if not keyless and not unnumbered:
            side = lambda l: clist([copt(int(o), cz) for o in l])
            snh_terms.append(ctuple(["1%nat", clist([ctuple([side(n_), side(c_), side(g_)]) for n_, c_, g_ in r["olds2"]]),
                                     clist([ctuple([clist([cz(v) for v in n_]), clist([cz(v) for v in c_]), clist([cz(v) for v in g_])]) for n_, c_, g_ in r["news3"]])]))
            snh_cases.append(pc)
    if ok:
        imports_t = "From PV Require Import Lib.Base Model.C14 Model.C14_Note Model.C14_Trk."
        pass  # the renumbering of the state after the edits is checked through check_perf_history below (its bookkeeping is compared with the observed track keys in Python)
    if ok:
        imports_s = "From PV Require Import Lib.Base Model.C14 Model.C14_Note Model.C14_Trk Model.C14_State."
        failing = coq_failing(ctx, "perf_hist", imports_s, ph_terms, "check_perf_history", shard=400)
        ctx.obligation("correspondence: Model.C14_State.prun (the state machine of the theorems perf_history_*: PReplace / PAppend / PDelete / PAddNote / PSetTrack from the "
                       "track keys observed after construction, then sanitize) = shape and partition of the tracks after the same edits and sanitize_track_numbers() on the "
                       "real Performance, %d histories" % len(ph_terms), not failing, failing[:5])
        for i in failing[:3]:
            ctx.violation("model and implementation disagree on track renumbering after a history of edits (Model.C14_State.prun)", {"kind": "tracks-history", "case": ph_cases[i]})
    if ok:
        failing = coq_failing(ctx, "tracks", imports, tr_terms, "check_tracks", shard=400)
        ctx.obligation("correspondence: Model.C14.track_map induces the same partition of the (part, track) pairs of notes, controls and programs as "
                       "Performance.sanitize_track_numbers (same number iff same part and same old track), %d performances" % len(tr_terms), not failing, failing[:5])
        for i in failing[:3]:
            ctx.violation("model and implementation disagree on track renumbering", {"kind": "tracks-model", "case": tr_cases[i][0], "pairs": tr_cases[i][1]})
        imports_t = "From PV Require Import Lib.Base Model.C14 Model.C14_Note Model.C14_Trk."
        failing = coq_failing(ctx, "sanitize", imports_t, sn_terms, "check_sanitize", shard=400)
        ctx.obligation("correspondence: Model.C14_Trk.sanitize (pairs (part, track) of every note, control and program change, numbered in sorted order, "
                       "written back event by event; once or twice) keeps the shape of every part and induces the same partition of the events as "
                       "Performance.sanitize_track_numbers, %d performances" % len(sn_terms), not failing, failing[:5])
        for i in failing[:3]:
            ctx.violation("model and implementation disagree on track renumbering (Model.C14_Trk.sanitize)", {"kind": "tracks-model", "case": sn_cases[i][0], "pairs": sn_cases[i][1]})
        xs_terms = sn_terms[::2]
        xfail = coq_failing(ctx, "sanitize_exact", imports_t, xs_terms, "check_sanitize_exact", shard=400)
        ctx.count("perf:new_numbers_equal_model_numbers(sorted order; counted only)", len(xs_terms) - len(xfail))
        # events without a track key: the model reads -1 as the code does; with which track such an event is grouped is not
        # part of the statement, so a disagreement is recorded as an obligation (model drift), not as a violation
        kfail = coq_failing(ctx, "sanitize_keyless", imports_t, snk_terms, "check_sanitize", shard=400) if snk_terms else []
        ctx.obligation("correspondence (outside the statement: events without a track key are grouped with track -1): Model.C14_Trk.sanitize = "
                       "Performance.sanitize_track_numbers, %d performances" % len(snk_terms), not kfail, kfail[:5])
    strike_stream(ctx, ok)
    if not ok and not ctx.violations:
        ctx.violation("proof obligations of Props/C14.v no longer check: " + why, {"theorem_or_build": why}, no_input=True)


def corpus_cases():
    """Hand-written edge cases (always run first)."""
    def N(p, on, off, ch=0, tr=0, v=64):
        return dict(midi_pitch=p, on=on, off=off, velocity=v, channel=ch, track=tr)

    def C(t, v, num=64):
        return dict(number=num, t=t, value=v, track=0, channel=0)

    base = dict(thr=64, thrs=[0, 127, 64, 63], ppq=480, mpq=500000, scale=16)
    out = []
    # D21: overlapping notes of one pitch, same and different channel, with and without pedal
    out.append(dict(base, notes=[N(60, 0, 160), N(60, 80, 96)], ctrls=[C(16, 100), C(320, 0)]))
    out.append(dict(base, notes=[N(60, 0, 160), N(60, 80, 96, ch=3)], ctrls=[]))
    out.append(dict(base, notes=[N(60, 0, 160), N(60, 80, 96), N(60, 192, 208)], ctrls=[C(16, 100), C(320, 0)]))
    # pedal pressed before the first note and never released; pedal event exactly at the release
    out.append(dict(base, notes=[N(60, 16, 32), N(62, 32, 48)], ctrls=[C(-16, 127)]))
    out.append(dict(base, notes=[N(60, 16, 32)], ctrls=[C(0, 127), C(32, 0), C(48, 127)]))
    out.append(dict(base, notes=[N(60, 16, 32)], ctrls=[C(0, 0), C(32, 127), C(48, 0)]))
    # values straddling the threshold, other controllers interleaved
    out.append(dict(base, notes=[N(60, 16, 32), N(64, 20, 40)], ctrls=[C(0, 65), C(8, 127, 67), C(36, 64), C(44, 63), C(50, 0, 1)]))
    # unsorted notes, re-strike while the pedal is down, zero-length note
    out.append(dict(base, notes=[N(60, 64, 80), N(60, 16, 32), N(60, 40, 40)], ctrls=[C(0, 127), C(200, 0)]))
    return out


def replay(obj):
    r = obj.get("replay", obj)
    print(json.dumps(obj, indent=1, default=str)[:6000])
    kind = r.get("kind")
    if kind in ("pedal", "pedal-model", "note-array-model"):
        case = r["case"]
        bad, res, tie = judge(case)
        print("implementation: sound_off after construction:", None if res["obs0"] is None else [float(x) for x in res["obs0"]], "error:", res["err"])
        for t, h in zip(case["thrs"], res["hist"]):
            print("  after threshold = %d:" % t, [float(x) for x in h])
        print("specification (pedal dictates):")
        for t in [case["thr"]] + case["thrs"]:
            print("  threshold %d:" % t, [float(spec_sound_off(case, t, i)) for i in range(len(case["notes"]))])
        print("oracle:", bad or "holds")
    elif kind in ("strike", "strike-model"):
        case = r["case"]
        bad, out = judge_strike(case)
        print("implementation: sound_off of the part:", None if out["part"] is None else [float(x) for x in out["part"]], "error:", out["err"])
        print("adjust_offsets_w_sustain on plain dicts:", None if out["direct"] is None else [float(x) for x in out["direct"]])
        print("specification (pedal dictates):", [float(spec_sound_off(case, case["thr"], i)) for i in range(len(case["notes"]))])
        print("oracle:", bad or "holds")
    elif kind == "pedal-pair":
        a = run_impl(r["first"])
        run_impl(r["between"])
        b = run_impl(r["first"])
        print("implementation, first case: sound_off after construction:", [float(x) for x in a["obs0"]], "after the thresholds", [[float(x) for x in h] for h in a["hist"]])
        print("the same case after the other one went through the library:", [float(x) for x in b["obs0"]], [[float(x) for x in h] for h in b["hist"]])
        print("oracle:", "holds" if all(a.get(k) == b.get(k) for k in ("obs0", "hist", "na", "rebuilt", "err")) else "the results differ")
    elif kind in ("history", "history-model"):
        case = r["case"]
        sc = case["scale"]
        bad, trace, tie = judge_hist(case)
        labels = ["construction"] + ["step %d %s" % (k + 1, json.dumps(s_)) for k, s_ in enumerate(case["steps"])]
        for (st, o), lab in zip(trace, labels):
            v = state_view(st, sc)
            print(lab[:300])
            print("  notes (pitch, on, off):", [(x["midi_pitch"], x["on"] / sc, x["off"] / sc) for x in st["notes"]])
            print("  controls (number, time, value):", [(c["number"], c["t"] / sc, c["value"]) for c in st["ctrls"]], "threshold", st["thr"])
            print("  implementation sound_off:", [float(x) for x in o["so"]])
            print("  the pedal dictates      :", "(order tie: not determined)" if has_order_tie(v) else [float(spec_sound_off(v, st["thr"], i)) for i in range(len(st["notes"]))])
        print("oracle:", bad or "holds")
    elif kind in ("tracks", "tracks-model"):
        rr = run_perf(r["case"])
        if isinstance(rr, str):
            print("implementation raised:", rr)
        else:
            pairs, nt, det = rr
            print("implementation: ((part, old track), new track):", pairs, "num_tracks", nt)
            print("Performance.note_array() rows (pitch, velocity, onset, duration, onset_tick):", [(a, b, float(c), float(d), e) for a, b, c, d, e in det["rows"]])
            print("oracle:", (oracle_tracks(pairs) + oracle_perf_note_array(det)) or "holds")
    elif kind == "tracks-history":
        rr = run_perf_hist(r["case"])
        if isinstance(rr, str):
            print("implementation raised:", rr)
        else:
            print("implementation: track keys before / after construction:", rr["olds1"], rr["news1"], "num_tracks", rr["nt1"])
            print("  after the edits:", rr["olds2"], "num_tracks", rr["nt2"], "(a performance built afresh from these parts:", rr["nt2_fresh"], ")")
            print("  after sanitize_track_numbers():", rr["news3"], "num_tracks", rr["nt3"], "(afresh:", rr["nt3_fresh"], ")")
            print("oracle:", oracle_perf_hist(rr) or "holds")
    elif kind == "pnote":
        f0, outs, errs = run_pnote(r["case"])
        print("implementation: after construction:", f0, "after each assignment:", outs, "errors:", errs)
        print("oracle:", oracle_pnote(r["case"], f0, outs) or "holds")
    elif kind == "empty-part":
        class _C:
            evaluations = 0

            def violation(self, what, obj, **kw):
                print("oracle:", what)

            def count(self, *a):
                print("oracle: holds")
        empty_part_checks(_C())
    return 0
