"""C03 -- MusicXML export then import returns the same score; re-export is a fixpoint.

Per generated score (built through the public score API from a JSON spec):
  (b)  O1: the bytes written by save_musicxml are parsed with lxml into the element type of
       Model/C03.v and read by the INDEPENDENT timing interpreter -- once transcribed in
       Python (direct oracle) and once as the Coq function interp_q + sounding (ctx.coq_failing) --
       and must denote exactly the score's sounding notes (onset, duration in quarters, pitch;
       tie chains merged; quarters computed from the spec, not from partitura's maps).
  (a)  model tie: the element stream of every written measure equals Model.C03.lin_measure of
       the same abstract measure (notes from the score via Part.iter_all, positions of the
       non-note elements as read back by the interpreter).
  (c)  O2: canonical fingerprint of every timed object / note attribute the property lists,
       before save and after load.   O3: save(load(save(s))) == save(s) byte for byte.
  model ties of the import side and of the bookkeeping (all evaluated in Coq on the written file and on what
  load_musicxml returned; a mismatch on a score whose direct oracles pass is MODEL-DRIFT, not a violation):
  (a-imp)/(c-imp)  Model/C03_Imp.v: the importer's measure reader (imp / imp_part) reads every written measure as
       the spec reader does, and gives every loaded note its start/duration and every loaded measure its extent;
  (g)  Model/C03_Grp.v: export_groups writes the <part-list> children written, parse_groups reads the loaded structure;
  (r)  Model/C03_Rng.v: export_notes writes the slur/tuplet numbers written, import_notes pairs them as loaded;
  (w)  Model/C03_Rng.v: wexport writes the wedge/dashes numbers written, wimport pairs them as loaded.
"""
import io
import json
import os
import random
import sys
import warnings
from fractions import Fraction

import core
from core import cz, cq, clist, ctuple, cbool

PID = "C03"

# ---------------------------------------------------------------------------------------------
# generator weights (each feature behind one weight so that alarms can be bisected:
# VERIF_C03_OFF=feat1,feat2 switches features off)

W = {
    "gap": 0.25,          # a gap between two notes of a voice / before the first / after the last
    "chord": 0.25,        # several notes at one onset in one voice
    "uneven": 0.12,       # chord members of different duration / overlapping notes (needs voice re-assignment)
    "rest": 0.10,
    "grace": 0.10,        # grace-note run before a note
    "tie": 0.30,          # tie over a segment / measure boundary (chains over several barlines)
    "divchange": 0.30,    # per measure: divisions change (at the barline or mid-measure)
    "midchange": 0.5,     # ... of which mid-measure
    "midchange3": 0.4,    # ... of the mid-measure changes: two changes in one measure (A -> B -> A or A -> B -> C)
    "pickup": 0.3,
    "irregular": 0.15,
    "voices": 0.85,       # more than one voice
    "staves": 0.4,
    "attrs": 0.5,         # articulations, fingering, stem, fermata, explicit symbolic durations
    "unpitched": 0.08,
    "slur": 0.5,
    "tuplet": 0.3,
    "dirs": 0.5,          # dynamics, wedges, words, dashes, tempo
    "sigs": 0.4,          # key/time signature and clef changes (also mid-measure)
    "repeats": 0.3,       # repeats, endings, barline fermatas
    "groups": 0.5,        # part groups (nested)
    "parts": 0.5,         # more than one part
    "slurpair": 0.6,      # of the parts with slurs: a nested or overlapping pair of slurs (open together, usually over a barline)
    "sym": 0.25,          # explicit symbolic duration (type, dots, tuplet ratio) on a note/rest, also one that
                          # does not match the numeric duration
    "xtie": 0.35,         # per part: extra ties between ANY note ending at a segment/measure boundary and any
                          # note starting there (other voice, other staff, non-first chord member)
    "pedal": 0.15,        # share of the directions that are sustain pedals (line / sign), also over barlines
    "staves3": 0.1,       # three staves
    "deepgroups": 0.5,    # of the scores with groups: 3-5 parts, groups nested two deep, sibling groups
    "harmony": 0.25,      # per part: 1-3 harmony elements (roman numeral, chord symbol with kind / bass, cadence, also two at one
                          # time): do_harmony / _handle_harmony; they take part in the linearisation (O1) and the byte fixpoint (O3)
    "prints": 0.2,        # per part: a new system / a new page at the start of a later measure (do_prints / _handle_print)
    "staffdet": 0.1,      # per part: score.Staff objects (what load_kern creates): <staff-details>
    "tupletpair": 0.35,   # of the parts with tuplets: two tuplets open together (nested or overlapping) over notes of ANY voices,
                          # so that a tuplet stop can be written before its start
    # constructs that hit a KNOWN FINDING (kept rare; see findings.d/C03.json)
    "variants": 0.3,      # of the parts with directions: 2-3 more words directions from ONE family of case / whitespace / prefix variants
    "k_words": 0.04,      # K1: an unparsed text direction (score.Words) is not exported
    "nopoint": 0.3,       # of the parts: voice 1 is NOT forced to start a note at a mid-measure divisions change, so the
                          # change can fall at a time without a TimePoint (was known finding K2, repaired 83f0338)
    "k_fermata": 0.04,    # K3: fermata on the right barline of a measure that is not the last one
    "overlap": 0.5,       # of the parts with directions: wedges/dashes may overlap in time and nest (their numbers
                          # must stay distinct while open, also over barlines) -- was known finding K4, repaired a5e2056
}
for _f in os.environ.get("VERIF_C03_OFF", "").split(","):
    if _f in W:
        W[_f] = 0.0

for _kv in os.environ.get("VERIF_C03_W", "").split(","):      # VERIF_C03_W=feat=0.9,... overrides single weights
    if "=" in _kv and _kv.split("=")[0] in W:
        W[_kv.split("=")[0]] = float(_kv.split("=")[1])

STEPS = "CDEFGAB"
STEP_PC = {"C": 0, "D": 2, "E": 4, "F": 5, "G": 7, "A": 9, "B": 11}
ARTICULATIONS = ["accent", "breath-mark", "caesura", "detached-legato", "doit", "falloff", "plop", "scoop",
                 "spiccato", "staccatissimo", "staccato", "stress", "strong-accent", "tenuto", "unstress"]
DYNAMICS = ["f", "ff", "p", "pp", "mf", "mp", "sfz", "fp", "fz"]
# every class parse_direction can produce (dynamic/constant/impulsive loudness, tempo, articulation, reset tempo,
# plain Direction, compound texts, two directions from one text, a metronome text)
WORDS = ["cresc.", "dim.", "rit.", "accel.", "Allegro", "adagio", "dolce", "a tempo",
         "staccato", "legato", "forte", "piano", "molto cresc.", "Allegro molto", "tempo I", "poco a poco cresc.",
         "Andante", "rall.", "smorzando", "a tempo, dolce", "Presto", "rubato", "rinforzando", "piu f", "tenuto",
         "Allegro ma non troppo", "calando"]
DASHABLE = ("cresc.", "dim.", "rit.", "accel.", "rall.", "smorzando", "calando", "molto cresc.", "poco a poco cresc.")
# Families of texts that differ only in CASE, in inner / outer WHITESPACE, or are PREFIXES of each other: whatever the library
# keeps between two parses (a memo keyed by a normalised text, a prefix table) shows when two members of one family meet in
# one score, in two scores of one process, or in two files loaded one after the other.  Every observation is judged against
# the text the CURRENT score states.  (The parser drops outer whitespace of the text it is given: `text_pieces`.)
TEXT_FAMILIES = [
    ["Allegro", "allegro", "ALLEGRO", "allegro ", " Allegro", "Allegro molto", "allegro molto", "allegro  molto",
     "Allegro ma non troppo", "allegro ma non troppo", "ALLEGRO MA NON TROPPO"],
    ["cresc.", "Cresc.", "CRESC.", "cresc", "cresc. ", "molto cresc.", "Molto cresc.", "molto Cresc.", "poco a poco cresc.",
     "Poco a poco cresc."],
    ["dim.", "Dim.", "DIM.", "dim"],
    ["rit.", "Rit.", "RIT.", "rit"],
    ["a tempo", "A tempo", "A Tempo", "a tempo, dolce", "A tempo, Dolce", "a tempo, Dolce", "dolce", "Dolce", "DOLCE"],
    ["P", "F", "piu f", "Piu f", "Piu F", "forte", "Forte", "piano", "Piano"],
    ["adagio", "Adagio", "ADAGIO", "Andante", "andante"],
    ["tempo I", "Tempo I", "tempo i", "Presto", "presto", "PRESTO"],
    ["legato", "Legato", "staccato", "Staccato", "tenuto", "Tenuto"],
]
DASHABLE_L = frozenset(x.lower() for x in DASHABLE) | {"cresc", "dim"}


def is_dashable(text):
    return text.strip().lower() in DASHABLE_L


def text_pieces(text):
    """the texts a words direction built from `text` states, by the SPEC alone: one direction per comma-separated piece,
    outer whitespace not part of it"""
    return [x.strip() for x in text.split(",")]
SYMTYPES = ["whole", "half", "quarter", "eighth", "16th", "32nd"]
TAGORDER = {"barline": 0, "attributes": 1, "direction": 2, "print": 3, "sound": 4, "harmony": 5}
BARLINE_TAG = {"left": -3, "middle": -2, "right": -1}


def midi_of(step, alter, octave):
    return 12 * (octave + 1) + STEP_PC[step] + (alter or 0)


# ---------------------------------------------------------------------------------------------
# spec generator


class IdGen:
    def __init__(self):
        self.n = 0

    def new(self, pre="n"):
        self.n += 1
        return "%s%d" % (pre, self.n)


def gen_pitch(rng):
    step = rng.choice(STEPS)
    alter = rng.choice([None, None, None, 0, 1, -1, 2, -2])
    octave = rng.randint(2, 6)
    return step, alter, octave


def note_attrs(rng, o):
    """optional notation attributes of one note/rest (feature 'attrs')"""
    if rng.random() < W["attrs"]:
        if rng.random() < 0.4:
            o["art"] = sorted(rng.sample(ARTICULATIONS, rng.randint(1, 3)))
        if rng.random() < 0.3 and o["k"] != "rest":
            o["fing"] = rng.randint(1, 5)
        if rng.random() < 0.4 and o["k"] != "rest":
            o["stem"] = rng.choice(["up", "down"])
        if rng.random() < 0.15 and o["k"] != "grace":
            o["ferm"] = True
    if o["k"] != "grace" and rng.random() < W["sym"]:
        sd = {"type": rng.choice(SYMTYPES)}
        if rng.random() < 0.5:
            sd["dots"] = rng.choice([1, 1, 2, 3])
        if rng.random() < 0.4:
            sd["actual_notes"], sd["normal_notes"] = rng.choice([(3, 2), (5, 4), (6, 4), (2, 3), (7, 8)])
        o["sym"] = sd


def gen_voice_segment(rng, ids, objs, s, e, voice, staff, pending, poly, last_seg, ties_open, force_first=False, mi=0, next_mi=0):
    """Fill [s, e) of one voice.  pending = (id, pitch) of a note tied into this segment or None.
    Returns the pending tie leaving the segment."""
    c = s
    out_pending = None
    first = True
    while c < e:
        room = e - c
        if pending is None and rng.random() < W["gap"] and not (first and force_first):
            c += rng.randint(1, room)
            first = False
            continue
        d = rng.choice([x for x in (1, 1, 2, 2, 3, 4, 4, 6, 8, 12, 16, room, room) if x <= room])
        if pending is None and rng.random() < W["rest"]:
            o = {"k": "rest", "id": ids.new("r"), "t": c, "e": c + d, "voice": voice, "staff": staff}
            note_attrs(rng, o)
            objs.append(o)
            c += d
            first = False
            continue
        # a note or a chord
        k = 1
        if rng.random() < W["chord"]:
            k = rng.randint(2, 3)
        members = []
        used = set()
        for j in range(k):
            if j == 0 and pending is not None:
                step, alter, octave = pending[1]
            else:
                for _ in range(20):
                    step, alter, octave = gen_pitch(rng)
                    if (step, octave) not in used:
                        break
            used.add((step, octave))
            dj = d
            if poly and j > 0 and rng.random() < 0.6:
                dj = rng.randint(1, room)
            if j == 0 and rng.random() < W["unpitched"] and pending is None:
                o = {"k": "unp", "id": ids.new("u"), "t": c, "e": c + dj, "step": step, "oct": octave,
                     "voice": voice, "staff": staff}
                if rng.random() < 0.5:
                    o["notehead"] = rng.choice(["x", "diamond", "triangle"])
                    o["filled"] = rng.random() < 0.5
            else:
                o = {"k": "note", "id": ids.new("n"), "t": c, "e": c + dj, "step": step, "alter": alter,
                     "oct": octave, "voice": voice, "staff": staff}
            note_attrs(rng, o)
            members.append(o)
        tied_in = pending is not None
        if pending is not None:
            objs.append({"k": "tie", "a": pending[0], "b": members[0]["id"]})
            pending = None
        # grace run before the chord: attached to the top note (MusicXML has no main-note link:
        # a reader attaches the run to the note that follows it in the document)
        if rng.random() < W["grace"] and not poly and all(m["k"] == "note" for m in members):
            top = max((m for m in members if m["k"] == "note"), key=lambda m: (midi_of(m["step"], m["alter"], m["oct"]), m["step"]), default=None)
            if top is not None:
                run = []
                gt = rng.choice(["grace", "acciaccatura"])
                for g in range(rng.randint(1, 3)):
                    step, alter, octave = gen_pitch(rng)
                    go = {"k": "grace", "id": ids.new("g"), "t": c, "e": c, "step": step, "alter": alter, "oct": octave,
                          "voice": voice, "staff": staff, "gtype": gt}
                    if rng.random() < 0.5:
                        go["sym"] = {"type": rng.choice(["eighth", "16th"])}
                    note_attrs(rng, go)
                    run.append(go)
                for a, b in zip(run, run[1:] + [top]):
                    a["next"] = b["id"]
                objs.extend(run)
        objs.extend(members)
        # tie out of the segment: the first member, if it ends exactly at the segment end
        m0 = members[0]
        if m0["k"] == "note" and m0["e"] == e and not last_seg and rng.random() < W["tie"]:
            mp = midi_of(m0["step"], m0["alter"], m0["oct"])
            # concurrently tied notes of one part have distinct pitches (quantifier).  MusicXML pairs
            # ties by pitch in document order, so "concurrently" is taken measure-wise: two ties of
            # one pitch never touch the same measure
            # (round j: the tie that ENDS at this very note is no rival -- a chain over several barlines; the reader
            # handles the stop of a note before its start)
            if all(not (mp == p and a <= next_mi and mi <= b) or (tied_in and p == mp and b == mi) for (p, a, b) in ties_open):
                ties_open.append((mp, mi, next_mi))
                out_pending = (m0["id"], (m0["step"], m0["alter"], m0["oct"]))
        adv = d
        if poly and rng.random() < 0.3:
            adv = rng.randint(1, d)      # next note starts before this one ends
        c += adv
        first = False
    return out_pending


def gen_part(rng, ids, pid, small=False):
    q = rng.choice([1, 2, 4, 4, 6, 8, 12, 16, 24])
    ts = rng.choice([(4, 4), (3, 4), (2, 4), (6, 8), (5, 8), (2, 2), (3, 8)])
    nm = rng.randint(1, 2 if small else 4)
    nstaves = 2 if rng.random() < W["staves"] else 1
    if nstaves == 2 and rng.random() < W["staves3"] / max(W["staves"], 1e-9):
        nstaves = 3
    nvoices = rng.randint(2, 4) if rng.random() < W["voices"] else 1
    poly = rng.random() < W["uneven"] * 2
    part = {"id": pid, "name": rng.choice(["Piano", "Violin I", None, "Vc."]),
            "abbr": rng.choice([None, None, "Pno."]), "q0": None, "qchanges": [], "measures": [],
            "objs": [], "nstaves": nstaves, "poly": poly}
    objs = part["objs"]
    t = 0
    segments = []   # (start, end, q, measure index)
    nopoint = rng.random() < W["nopoint"]
    cur_q = None
    cur_ts = None
    number = 0
    for mi in range(nm):
        L = Fraction(ts[0] * 4, ts[1])
        name_suffix = ""
        if mi == 0 and nm > 1 and rng.random() < W["pickup"]:
            L = L * rng.choice([Fraction(1, 4), Fraction(1, 2)])
        elif rng.random() < W["irregular"]:
            L = L + rng.choice([Fraction(1, 2), Fraction(1), Fraction(-1, 2)])
            if L <= 0:
                L = Fraction(1)
            name_suffix = "X"
        # time signature change at the barline
        if mi > 0 and rng.random() < W["sigs"] * 0.4:
            ts = rng.choice([(4, 4), (3, 4), (2, 4), (6, 8)])
            L = Fraction(ts[0] * 4, ts[1])
        newq = cur_q
        if cur_q is None:
            newq = q
        elif rng.random() < W["divchange"] * (1 - W["midchange"]):
            newq = rng.choice([x for x in (1, 2, 3, 4, 6, 8, 12, 16, 24, 48) if x != cur_q])
        while (L * newq).denominator != 1:
            newq *= 2
        mstart = t
        segs = []
        if rng.random() < W["divchange"] * W["midchange"] and L >= 1:
            # mid-measure change: the first piece is a multiple of a half quarter
            L1 = Fraction(rng.randint(1, int(L * 2) - 1), 2)
            q1 = newq
            while (L1 * q1).denominator != 1:
                q1 *= 2
            q2 = rng.choice([x for x in (1, 2, 3, 4, 6, 8, 12, 16, 24) if x != q1])
            while ((L - L1) * q2).denominator != 1:
                q2 *= 2
            if q2 == q1:
                q2 *= 2
            segs = [(L1, q1), (L - L1, q2)]
            if L - L1 >= 1 and rng.random() < W["midchange3"]:
                # a second change inside the same measure: back to the value the measure started with (A -> B -> A,
                # the change that a comparison with the measure's first value only does not see) or on to a third one
                L2 = Fraction(rng.randint(1, int((L - L1) * 2) - 1), 2)
                L3 = L - L1 - L2
                if rng.random() < 0.7:
                    while (L3 * q1).denominator != 1:      # q1 must fit the last piece as well
                        q1 *= 2
                    q3 = q1
                else:
                    q3 = rng.choice([x for x in (1, 2, 3, 4, 6, 8, 12, 16, 24) if x != q1])
                    while (L3 * q3).denominator != 1:
                        q3 *= 2
                while (L2 * q2).denominator != 1 or q2 == q1 or q2 == q3:
                    q2 *= 2
                segs = [(L1, q1), (L2, q2), (L3, q3)]
        else:
            segs = [(L, newq)]
        for (Ls, qs) in segs:
            n = int(Ls * qs)
            if qs != cur_q:
                if cur_q is None:
                    part["q0"] = qs
                else:
                    part["qchanges"].append([t, qs])
                cur_q = qs
            segments.append((t, t + n, qs, mi))
            t += n
        number += 1
        part["measures"].append([mstart, t, number, str(number) + name_suffix])
        if cur_ts != ts:
            objs.append({"k": "ts", "t": mstart, "beats": ts[0], "bt": ts[1]})
            cur_ts = ts
    part["end"] = t
    # initial signatures / clefs
    objs.append({"k": "ks", "t": 0, "f": rng.randint(-4, 4), "mode": rng.choice([None, "major", "minor"])})
    for st in range(1, nstaves + 1):
        objs.append({"k": "clef", "t": 0, "staff": st, "sign": "G" if st == 1 else "F", "line": 2 if st == 1 else 4,
                     "oc": rng.choice([None, None, None, -1])})
    # notes
    ties_open = []
    for v in range(1, nvoices + 1):
        staff = min(nstaves, 1 + ((v - 1) * nstaves) // nvoices)
        pending = None
        for si, (s, e, qs, mi) in enumerate(segments):
            # a divisions change needs a TimePoint at its time for the exporter to split there (K2):
            # voice 1 starts a note at every mid-measure segment start
            pending = gen_voice_segment(rng, ids, objs, s, e, v, staff, pending, poly,
                                        si == len(segments) - 1, ties_open,
                                        force_first=(v == 1 and not nopoint), mi=mi,
                                        next_mi=segments[si + 1][3] if si + 1 < len(segments) else mi)
    if rng.random() < W["xtie"]:
        extra_ties(rng, part, segments, ties_open)
    return part, segments


def extra_ties(rng, part, segments, ties_open):
    """Ties between ANY note that ends at a segment boundary and ANY note that starts there: another voice or
    staff, a non-first chord member, a note the exporter will move to a free voice.  The second note takes the
    pitch of the first.  Kept inside the quantifier: two ties of one pitch never touch the same measure."""
    objs = part["objs"]
    seg_mi = {s: mi for (s, e, q, mi) in segments}
    end_mi = {e: mi for (s, e, q, mi) in segments}
    tied_from = {o["a"] for o in objs if o["k"] == "tie"}
    tied_to = {o["b"] for o in objs if o["k"] == "tie"}
    grace_main = {o["next"] for o in objs if o["k"] == "grace" and o.get("next")}
    notes = [o for o in objs if o["k"] == "note"]
    for _ in range(rng.randint(1, 3)):
        bounds = sorted(set(seg_mi) & set(end_mi))
        if not bounds:
            return
        T = rng.choice(bounds)
        A = [o for o in notes if o["e"] == T and o["t"] < T and o["id"] not in tied_from and o["id"] not in tied_to]
        B = [o for o in notes if o["t"] == T and o["e"] > T and o["id"] not in tied_from and o["id"] not in tied_to
             and not any(x["t"] == T and x["voice"] == o["voice"] and x["id"] in grace_main for x in notes)]
        if not A or not B:
            continue
        a, b = rng.choice(A), rng.choice(B)
        mp = midi_of(a["step"], a["alter"], a["oct"])
        lo, hi = end_mi[T], seg_mi[T]
        if any(mp == p and x <= hi and lo <= y for (p, x, y) in ties_open):
            continue
        # the chord b belongs to must not already hold this spelling
        if any(o is not b and o["t"] == T and o["voice"] == b["voice"] and (o["step"], o["oct"]) == (a["step"], a["oct"]) for o in notes):
            continue
        b["step"], b["alter"], b["oct"] = a["step"], a["alter"], a["oct"]
        ties_open.append((mp, lo, hi))
        objs.append({"k": "tie", "a": a["id"], "b": b["id"], "x": True})
        tied_from.add(a["id"])
        tied_to.add(b["id"])


def gen_struct(rng, nparts):
    """part list structure: groups over consecutive parts, nested up to two deep, sibling groups"""
    numbers = iter(range(1, 50))

    def group(members, depth):
        return {"g": members, "symbol": rng.choice(["brace", "bracket", "line", None]),
                "name": rng.choice(["Strings", "Winds", "inner", None]), "number": next(numbers)}

    def build_level(items, depth):
        # wrap some runs of consecutive items into groups; recurse into the group
        out = []
        i = 0
        while i < len(items):
            if depth < 3 and rng.random() < (0.7 if depth == 0 else 0.45):
                n = rng.randint(1, len(items) - i)
                out.append(group(build_level(items[i:i + n], depth + 1), depth))
                i += n
            else:
                out.append(items[i])
                i += 1
        return out

    for _ in range(20):
        st = build_level(list(range(nparts)), 0)
        if any(isinstance(x, dict) for x in st):
            return st
    return [group(list(range(nparts)), 0)]


def gen_spec(rng):
    ids = IdGen()
    nparts = 1
    if rng.random() < W["parts"]:
        nparts = rng.randint(2, 3)
    groups = rng.random() < W["groups"]
    deep = groups and rng.random() < W["deepgroups"]
    if deep:
        nparts = rng.randint(3, 5)
    parts = []
    for i in range(nparts):
        p, segs = gen_part(rng, ids, "P%d" % (i + 1), small=deep)
        decorate_part(rng, ids, p, segs)
        parts.append(p)
    # part list structure: nested groups over consecutive parts
    struct = list(range(nparts))
    if deep:
        struct = gen_struct(rng, nparts)
    elif groups:
        a = rng.randint(0, nparts - 1)
        b = rng.randint(a, nparts - 1)
        inner = struct[a:b + 1]
        num = 1
        if len(inner) >= 2 and rng.random() < 0.5:
            c = rng.randint(0, len(inner) - 1)
            inner = inner[:c] + [{"g": [inner[c]], "symbol": rng.choice(["bracket", None]), "name": "inner", "number": 2}] + inner[c + 1:]
        struct = struct[:a] + [{"g": inner, "symbol": rng.choice(["brace", "bracket", None]),
                                "name": rng.choice(["Strings", None]), "number": num}] + struct[b + 1:]
    return {"parts": parts, "struct": struct}


def decorate_part(rng, ids, part, segments):
    """slurs, tuplets, directions, signature/clef changes, repeats/endings/fermatas"""
    objs = part["objs"]
    notes = [o for o in objs if o["k"] in ("note", "unp")]
    end = part["end"]
    mstarts = [m[0] for m in part["measures"]]
    seg_bounds = sorted({s for (s, e, q, mi) in segments} | {end})
    # slurs between notes of one voice (nested / overlapping)
    if notes and rng.random() < W["slur"]:
        for _ in range(rng.randint(1, 3)):
            a = rng.choice(notes)
            # the end note starts later, or (rarely) at the same time: a chord member or a note of another voice,
            # so that the stop can precede the start in the document at one position
            later = [n for n in notes if n["t"] > a["t"]] or [n for n in notes if n["t"] >= a["t"] and n is not a]
            if rng.random() < 0.1:
                later = [n for n in notes if n["t"] == a["t"] and n is not a] or later
            if later:
                b = rng.choice(later)
                objs.append({"k": "slur", "a": a["id"], "b": b["id"]})
        if rng.random() < W["slurpair"]:
            # two slurs open at the same time, nested (1-4, 2-3) or overlapping (1-3, 2-4), over notes of any voices:
            # the numbers of the open slurs must survive barlines, divisions segments and voice switches
            times = sorted({n["t"] for n in notes})
            if len(times) >= 4:
                t1, t2, t3, t4 = sorted(rng.sample(times, 4))
                pick = lambda t: rng.choice([n for n in notes if n["t"] == t])
                n1, n2, n3, n4 = pick(t1), pick(t2), pick(t3), pick(t4)
                if rng.random() < 0.6:
                    objs.append({"k": "slur", "a": n1["id"], "b": n4["id"]})
                    objs.append({"k": "slur", "a": n2["id"], "b": n3["id"]})
                else:
                    objs.append({"k": "slur", "a": n1["id"], "b": n3["id"]})
                    objs.append({"k": "slur", "a": n2["id"], "b": n4["id"]})
    if notes and rng.random() < W["tuplet"]:
        by_voice = {}
        for n in notes:
            by_voice.setdefault(n["voice"], []).append(n)
        for _ in range(rng.randint(1, 2)):
            vn = sorted(by_voice[rng.choice(sorted(by_voice))], key=lambda n: n["t"])
            i = rng.randrange(len(vn))
            j = min(len(vn) - 1, i + rng.randint(0, 2))
            if vn[j]["t"] >= vn[i]["t"]:
                an, nn = rng.choice([(3, 2), (5, 4), (6, 4), (2, 3)])
                ty = rng.choice(["eighth", "16th", "quarter"])
                objs.append({"k": "tuplet", "a": vn[i]["id"], "b": vn[j]["id"], "an": an, "nn": nn, "at": ty,
                             "nt": rng.choice([ty, ty, "quarter"])})
        if rng.random() < W["tupletpair"]:
            times = sorted({n["t"] for n in notes})
            if len(times) >= 4:
                t1, t2, t3, t4 = sorted(rng.sample(times, 4))
                pick = lambda t: rng.choice([n for n in notes if n["t"] == t])
                n1, n2, n3, n4 = pick(t1), pick(t2), pick(t3), pick(t4)
                pairs = [(n1, n4), (n2, n3)] if rng.random() < 0.5 else [(n1, n3), (n2, n4)]
                for a, b in pairs:
                    an, nn = rng.choice([(3, 2), (5, 4), (6, 4)])
                    ty = rng.choice(["eighth", "16th"])
                    objs.append({"k": "tuplet", "a": a["id"], "b": b["id"], "an": an, "nn": nn, "at": ty, "nt": ty})
    if rng.random() < W["harmony"]:
        for _ in range(rng.randint(1, 3)):
            t = rng.randrange(0, end)
            r = rng.random()
            if r < 0.4:
                objs.append({"k": "harm", "kind": "roman", "t": t, "text": rng.choice(["I", "V7", "ii6", "V/V", "viio7", "IV64", "bVI", "i"])})
            elif r < 0.75:
                objs.append({"k": "harm", "kind": "chord", "t": t, "root": rng.choice(STEPS),
                             "ckind": rng.choice([None, "major", "minor", "dominant"]), "bass": rng.choice([None, None, "E", "G"])})
            else:
                objs.append({"k": "harm", "kind": "cadence", "t": t, "text": rng.choice(["PAC", "IAC", "HC"])})
    if rng.random() < W["prints"] and len(mstarts) > 1:
        for t in sorted(rng.sample(mstarts[1:], rng.randint(1, min(2, len(mstarts) - 1)))):
            objs.append({"k": "print", "t": t, "page": rng.random() < 0.3})
    if rng.random() < W["staffdet"]:
        for st in range(1, part["nstaves"] + 1):
            if rng.random() < 0.7:
                objs.append({"k": "staffdet", "t": 0, "number": st, "lines": rng.choice([5, 5, 1, 4])})
    if rng.random() < W["dirs"]:
        ranges = []      # in half of the parts wedges and dashes do not overlap in time
        overlap_ok = rng.random() < W["overlap"]
        tempos = set()

        def free(a, b):
            return overlap_ok or all(b <= x or y <= a for (x, y) in ranges)

        pedals = []      # the importer knows one pedal at a time (no number is written): pedals do not overlap

        for _ in range(rng.randint(1, 4)):
            t = rng.randrange(0, end)
            r = rng.random()
            if rng.random() < W["pedal"]:
                e = rng.randint(t + 1, end)
                if all(e <= x or y <= t for (x, y) in pedals):
                    pedals.append((t, e))
                    objs.append({"k": "dir", "kind": "pedal", "t": t, "e": e, "line": rng.random() < 0.5})
            elif r < 0.3:
                objs.append({"k": "dir", "kind": "dyn", "t": t, "text": rng.choice(DYNAMICS)})
            elif r < 0.55:
                e = rng.randint(t + 1, end)
                if free(t, e):
                    ranges.append((t, e))
                    objs.append({"k": "dir", "kind": rng.choice(["wedge_c", "wedge_d"]), "t": t, "e": e})
            elif r < 0.85:
                o = {"k": "dir", "kind": "words", "t": t, "text": rng.choice(WORDS)}
                if rng.random() < 0.35:
                    o["text"] = rng.choice(rng.choice(TEXT_FAMILIES))
                if rng.random() < W["k_words"]:
                    o["text"] = "spaghetti"
                if rng.random() < 0.4 and is_dashable(o["text"]):
                    e = rng.randint(t + 1, end)      # dashes (only for dynamic directions)
                    if free(t, e):
                        ranges.append((t, e))
                        o["e"] = e
                objs.append(o)
            elif t not in tempos:
                tempos.add(t)
                objs.append({"k": "tempo", "t": t, "bpm": rng.choice([60, 72, 96, 120, 144])})
        if rng.random() < W["variants"]:
            fam = rng.choice(TEXT_FAMILIES)
            for text in rng.sample(fam, min(len(fam), rng.randint(2, 3))):
                objs.append({"k": "dir", "kind": "words", "t": rng.randrange(0, end), "text": text})
    if rng.random() < W["sigs"]:
        for _ in range(rng.randint(1, 2)):
            # at a barline, or mid-measure
            t = rng.choice(mstarts) if rng.random() < 0.5 else rng.randrange(0, end)
            r = rng.random()
            # one key / time signature per time and one clef per time and staff (one <attributes> holds one of each)
            taken = {(o["k"], o["t"], o.get("staff")) for o in objs if o["k"] in ("clef", "ks", "ts")}
            if r < 0.4:
                st = rng.randint(1, part["nstaves"])
                if ("clef", t, st) not in taken:
                    objs.append({"k": "clef", "t": t, "staff": st,
                                 "sign": rng.choice(["G", "F", "C"]), "line": rng.choice([2, 3, 4]), "oc": rng.choice([None, 1, -1])})
            elif r < 0.8:
                if ("ks", t, None) not in taken:
                    objs.append({"k": "ks", "t": t, "f": rng.randint(-6, 6), "mode": rng.choice([None, "major", "minor"])})
            elif ("ts", t, None) not in taken:
                objs.append({"k": "ts", "t": t, "beats": rng.choice([2, 3, 4, 6]), "bt": rng.choice([4, 8])})
    if rng.random() < W["repeats"]:
        bounds = mstarts + [end]
        r = rng.random()
        if r < 0.5 and len(bounds) >= 2:
            if len(bounds) >= 4 and rng.random() < 0.6:
                # repeat with first and second ending: |: ... [1 ... :| [2 ... |
                i = rng.randrange(len(bounds) - 3)
                j = rng.randrange(i + 2, len(bounds) - 1)
                objs.append({"k": "repeat", "t": bounds[i], "e": bounds[j]})
                objs.append({"k": "ending", "t": bounds[j - 1], "e": bounds[j], "n": 1})
                objs.append({"k": "ending", "t": bounds[j], "e": bounds[j + 1], "n": 2})
            else:
                i = rng.randrange(len(bounds) - 1)
                j = rng.randrange(i + 1, len(bounds))
                objs.append({"k": "repeat", "t": bounds[i], "e": bounds[j]})
                if j + 1 < len(bounds) and rng.random() < 0.5:       # a second repeat right after / later
                    i2 = rng.randrange(j, len(bounds) - 1)
                    objs.append({"k": "repeat", "t": bounds[i2], "e": bounds[rng.randrange(i2 + 1, len(bounds))]})
        elif rng.random() < W["k_fermata"] and len(bounds) > 2:
            objs.append({"k": "bferm", "t": rng.choice(bounds[1:-1]), "ref": "right"})     # K3
        elif rng.random() < 0.5:
            objs.append({"k": "bferm", "t": bounds[-1], "ref": "right"})
        else:
            objs.append({"k": "bferm", "t": rng.choice(bounds[:-1]), "ref": "left"})


# ---------------------------------------------------------------------------------------------
# building the score through the public API


def kind_fns(kinds):
    """how the numbers of a spec are handed to the score API (spec["kinds"]): Python ints (default), numpy integers of one
    width ("np64", "np32": what the importers that compute times with numpy hand over), or Python ints with the tempo as a
    float ("fbpm": Tempo(96.0)); the written file must not depend on it."""
    if kinds in ("np64", "np32"):
        import numpy as np
        ty = np.int64 if kinds == "np64" else np.int32
        return (lambda x: None if x is None else ty(x)), (lambda x: np.float64(x))
    if kinds == "fbpm":
        return (lambda x: x), (lambda x: float(x))
    if kinds == "ftime":
        return None, (lambda x: x)
    return (lambda x: x), (lambda x: x)


def build_part(ps, kinds=None):
    import partitura.score as S
    from partitura.directions import parse_direction

    I, B = kind_fns(kinds)
    T = I
    if I is None:
        # times as Python floats with integral values (what an importer computing onsets in beats * divisions hands over)
        I, T = (lambda x: x), (lambda x: None if x is None else float(x))
    if True:
        p = S.Part(ps["id"], part_name=ps.get("name"), part_abbreviation=ps.get("abbr"), quarter_duration=I(ps["q0"]))
        for t, q in ps["qchanges"]:
            p.set_quarter_duration(T(t), I(q))
        # the importer always creates page 1 / system 1 at time 0 (as the repo's own round-trip tests do)
        if not ps.get("nopage"):
            p.add(S.Page(1), 0)
            p.add(S.System(1), 0)
        for (s, e, num, name) in ps["measures"]:
            p.add(S.Measure(number=I(num), name=name), T(s), T(e))
        byid = {}
        present = {o["id"]: o for o in ps["objs"] if "id" in o}

        def chain_ok(o):
            return grace_chain_ok(o, present)

        for o in ps["objs"]:
            k = o["k"]
            if k == "grace" and not chain_ok(o):
                continue
            n = make_note(o, S, I)
            if n is None:
                continue
            p.add(n, T(o["t"]), T(o["e"]))
            byid[o["id"]] = n
            if o.get("ferm"):
                f = S.Fermata(n)
                p.add(f, T(o["t"]))
                n.fermata = f
        for o in ps["objs"]:
            k = o["k"]
            if k == "grace" and o.get("next") in byid and o["id"] in byid:
                a, b = byid[o["id"]], byid[o["next"]]
                a.grace_next = b
                if isinstance(b, S.GraceNote):
                    b.grace_prev = a
            elif k == "tie":
                if o["a"] in byid and o["b"] in byid:
                    a, b = byid[o["a"]], byid[o["b"]]
                    a.tie_next = b
                    b.tie_prev = a
            elif k == "slur":
                if o["a"] in byid and o["b"] in byid:
                    a, b = byid[o["a"]], byid[o["b"]]
                    sl = S.Slur(start_note=a, end_note=b)
                    p.add(sl, a.start.t, b.end.t)
            elif k == "tuplet":
                if o["a"] in byid and o["b"] in byid:
                    a, b = byid[o["a"]], byid[o["b"]]
                    tu = S.Tuplet(start_note=a, end_note=b, actual_notes=I(o["an"]), normal_notes=I(o["nn"]),
                                  actual_type=o["at"], normal_type=o["nt"])
                    p.add(tu, a.start.t, b.end.t)
            elif k == "ts":
                p.add(S.TimeSignature(I(o["beats"]), I(o["bt"])), T(o["t"]))
            elif k == "ks":
                p.add(S.KeySignature(I(o["f"]), o["mode"]), T(o["t"]))
            elif k == "clef":
                p.add(S.Clef(staff=I(o["staff"]), sign=o["sign"], line=I(o["line"]), octave_change=I(o["oc"])), T(o["t"]))
            elif k == "dir":
                kind = o["kind"]
                if kind == "dyn":
                    from partitura.io.importmusicxml import DYN_DIRECTIONS
                    d = DYN_DIRECTIONS[o["text"]](o["text"])
                    p.add(d, T(o["t"]))
                elif kind == "pedal":
                    p.add(S.SustainPedalDirection(line=bool(o.get("line"))), T(o["t"]), T(o["e"]))
                elif kind in ("wedge_c", "wedge_d"):
                    cls = S.IncreasingLoudnessDirection if kind == "wedge_c" else S.DecreasingLoudnessDirection
                    d = cls("crescendo" if kind == "wedge_c" else "diminuendo", wedge=True)
                    p.add(d, T(o["t"]), T(o["e"]))
                else:
                    ds = parse_direction(o["text"])
                    pieces = text_pieces(o["text"])
                    if len(ds) == len(pieces):
                        # the score states the text of the SPEC (public attribute), whatever the parser remembers of
                        # texts it saw before; class and normalised text are the parser's
                        for d, piece in zip(ds, pieces):
                            if isinstance(d, S.Direction):
                                d.raw_text = piece
                    for d in ds:
                        if isinstance(d, S.DynamicDirection) and o.get("e") is not None and len(ds) == 1:
                            p.add(d, T(o["t"]), T(o["e"]))
                        else:
                            p.add(d, T(o["t"]))
            elif k == "tempo":
                p.add(S.Tempo(B(o["bpm"]), o.get("unit", "q")), T(o["t"]))
            elif k == "repeat":
                p.add(S.Repeat(), T(o["t"]), T(o["e"]))
            elif k == "ending":
                p.add(S.Ending(o["n"]), T(o["t"]), T(o["e"]))
            elif k == "bferm":
                p.add(S.Fermata(o["ref"]), T(o["t"]))
            elif k == "harm":
                if o["kind"] == "roman":
                    p.add(S.RomanNumeral(o["text"]), T(o["t"]))
                elif o["kind"] == "chord":
                    p.add(S.ChordSymbol(root=o["root"], kind=o.get("ckind"), bass=o.get("bass")), T(o["t"]))
                else:
                    p.add(S.Cadence(o["text"]), T(o["t"]))
            elif k == "staffdet":
                p.add(S.Staff(number=I(o["number"]), lines=I(o["lines"])), T(o["t"]))
        # new systems / pages at later measure starts, numbered as the importer numbers them
        pg, sy = 1, 1
        for o in sorted((o for o in ps["objs"] if o["k"] == "print"), key=lambda o: o["t"]):
            if o.get("page"):
                pg += 1
                p.add(S.Page(pg), T(o["t"]))
            sy += 1
            p.add(S.System(sy), T(o["t"]))
        S.set_end_times(p)
    return p


def make_note(o, S, I=lambda x: x):
    """the score object of one note / rest spec (None for the other kinds of spec objects)"""
    k = o["k"]
    if k not in ("note", "unp", "rest", "grace"):
        return None
    sym = None
    if o.get("sym"):
        sym = {kk: (I(v) if isinstance(v, int) else v) for kk, v in o["sym"].items()}
    common = dict(id=o["id"], voice=I(o["voice"]), staff=I(o["staff"]),
                  symbolic_duration=sym,
                  articulations=list(o["art"]) if o.get("art") else None,
                  stem_direction=o.get("stem"),
                  technical=[S.Fingering(fingering=I(o["fing"]))] if o.get("fing") else None)
    if k == "note":
        return S.Note(step=o["step"], octave=I(o["oct"]), alter=I(o["alter"]), **common)
    if k == "grace":
        return S.GraceNote(grace_type=o["gtype"], step=o["step"], octave=I(o["oct"]), alter=I(o["alter"]), **common)
    if k == "unp":
        return S.UnpitchedNote(step=o["step"], octave=I(o["oct"]), notehead=o.get("notehead"),
                               noteheadstyle=o.get("filled", True), **common)
    return S.Rest(**common)


def build(spec):
    import partitura.score as S

    built = [build_part(ps, spec.get("kinds")) for ps in spec["parts"]]

    def mk(node):
        if isinstance(node, int):
            return built[node]
        g = S.PartGroup(group_symbol=node.get("symbol"), group_name=node.get("name"), number=node.get("number"))
        g.children = [mk(c) for c in node["g"]]
        for c in g.children:
            c.parent = g
        return g

    partlist = [mk(n) for n in spec["struct"]]
    scr = S.Score(partlist=partlist)
    partlist.clear()          # the caller's list stays the caller's: the score does not change with it
    return scr


# ---------------------------------------------------------------------------------------------
# the written file -> elements (lxml), and the independent interpreter transcribed in Python


def parse_written(data):
    """bytes -> list of parts: {"id", "measures": [{"number", "elems": [...]}]}.
    elem = ("note", id, dur, chord, grace, voice, info) | ("forward", d) | ("backup", d)
         | ("other", tagorder, tag) | ("divisions", q)"""
    from lxml import etree

    root = etree.fromstring(data)
    parts = []
    for part_el in root.findall("part"):
        measures = []
        for m in part_el.findall("measure"):
            elems = []
            for e in m:
                if not isinstance(e.tag, str):
                    continue
                if e.tag == "note":
                    d = e.find("duration")
                    v = e.find("voice")
                    pitch = e.find("pitch")
                    unp = e.find("unpitched")
                    mp = -1
                    if pitch is not None:
                        al = pitch.find("alter")
                        mp = midi_of(pitch.find("step").text, int(al.text) if al is not None else 0, int(pitch.find("octave").text))
                    elif unp is not None:
                        mp = midi_of(unp.find("display-step").text, 0, int(unp.find("display-octave").text))
                    ties = {x.get("type") for x in e.findall("tie")}
                    rng = {}
                    for kind in ("slur", "tuplet"):
                        rng[kind] = [(int(x.get("number") or 0), x.get("type")) for x in e.findall("notations/" + kind)]
                    elems.append(("note", e.get("id"), int(d.text) if d is not None else 0, e.find("chord") is not None,
                                  e.find("grace") is not None, int(v.text) if v is not None else 0,
                                  {"midi": mp, "stop": "stop" in ties, "start": "start" in ties, "ranges": rng}))
                elif e.tag in ("forward", "backup"):
                    elems.append((e.tag, int(e.find("duration").text)))
                elif e.tag == "attributes" and e.find("divisions") is not None:
                    elems.append(("divisions", int(e.find("divisions").text)))
                elif e.tag == "direction":
                    evs = []
                    for dt in e.findall("direction-type"):
                        for x in dt:
                            if x.tag in ("wedge", "dashes"):
                                evs.append((x.tag, int(x.get("number") or 1), x.get("type")))
                    elems.append(("other", TAGORDER["direction"], e.tag, evs))
                elif e.tag == "barline":
                    # the location decides where the importer puts the barline's repeat/ending (Model/C03_Imp.v:
                    # -3 left, -2 middle, -1 right or none); all three sort like the exporter's order 0
                    elems.append(("other", BARLINE_TAG.get(e.get("location"), -1), e.tag))
                else:
                    elems.append(("other", TAGORDER.get(e.tag, 9), e.tag))
            measures.append({"number": m.get("number"), "elems": elems})
        parts.append({"id": part_el.get("id"), "measures": measures})
    return parts


def interp_measure_t(elems, start):
    """Independent reader on the division time axis, one measure: returns
    ([(elem index, start position)], position after, furthest position)."""
    pos = start
    last = start
    mx = start
    placed = []
    for i, e in enumerate(elems):
        if e[0] == "note":
            _, nid, d, chord, grace, voice, info = e
            st = last if chord else pos
            placed.append((i, st))
            if not grace:
                if not chord:
                    pos = pos + d
                last = st
                mx = max(mx, pos)
        elif e[0] == "forward":
            pos += e[1]
            mx = max(mx, pos)
        elif e[0] == "backup":
            pos -= e[1]
        else:
            placed.append((i, pos))
    return placed, pos, mx


def interp_part_q(measures):
    """Independent reader in quarters over a whole part: [(id, onset_q, dur_q, info)]."""
    pos = Fraction(0)
    last = Fraction(0)
    mx = Fraction(0)
    div = 1
    out = []
    for m in measures:
        pos = mx
        for e in m["elems"]:
            if e[0] == "note":
                _, nid, d, chord, grace, voice, info = e
                st = last if chord else pos
                if grace:
                    out.append((nid, st, Fraction(0), info))
                else:
                    out.append((nid, st, Fraction(d, div), info))
                    if not chord:
                        pos = pos + Fraction(d, div)
                    last = st
                    mx = max(mx, pos)
            elif e[0] == "forward":
                pos += Fraction(e[1], div)
                mx = max(mx, pos)
            elif e[0] == "backup":
                pos -= Fraction(e[1], div)
            elif e[0] == "divisions":
                div = e[1]
    return out


def merge_ties(written):
    """[(pitch, onset, dur, stop, start)] in time order -> sounding notes (MusicXML pairs ties by pitch)."""
    op = []          # (pitch, onset, dur)
    out = []
    for (p, o, d, stop, start) in sorted(written, key=lambda w: w[1]):
        cur = (o, d)
        if stop:
            for k, (pp, oo, dd) in enumerate(op):
                if pp == p:
                    cur = (oo, dd + d)
                    del op[k]
                    break
        if start:
            op.append((p, cur[0], cur[1]))
        else:
            out.append((p, cur[0], cur[1]))
    out.extend(op)
    return sorted(out, key=lambda x: (x[1], x[0], x[2]))


# ---------------------------------------------------------------------------------------------
# expectations computed from the spec (not from partitura's maps)


def quarter_fn(ps):
    ch = [(0, ps["q0"])] + [tuple(x) for x in ps["qchanges"]]

    def qf(t):
        acc = Fraction(0)
        for i, (t0, q) in enumerate(ch):
            t1 = ch[i + 1][0] if i + 1 < len(ch) else None
            if t1 is None or t < t1:
                return acc + Fraction(t - t0, q)
            acc += Fraction(t1 - t0, q)
        return acc

    return qf


def grace_chain_ok(o, present):
    """a grace note is built only when its run still leads to a main note (shrinking may have removed it)"""
    while o is not None and o["k"] == "grace":
        o = present.get(o.get("next"))
    return o is not None


def expected_sounding(ps):
    qf = quarter_fn(ps)
    present = {o["id"]: o for o in ps["objs"] if "id" in o}
    notes = {o["id"]: o for o in ps["objs"] if o["k"] in ("note", "grace", "unp") and grace_chain_ok(o, present)}
    nxt = {o["a"]: o["b"] for o in ps["objs"] if o["k"] == "tie" and o["a"] in notes and o["b"] in notes}
    has_prev = set(nxt.values())
    out = []
    for nid, o in notes.items():
        if nid in has_prev:
            continue
        d = Fraction(0)
        cur = nid
        while cur is not None:
            c = notes[cur]
            d += qf(c["e"]) - qf(c["t"])
            cur = nxt.get(cur)
        out.append((midi_of(o["step"], o.get("alter"), o["oct"]), qf(o["t"]), d))
    return sorted(out, key=lambda x: (x[1], x[0], x[2]))


# ---------------------------------------------------------------------------------------------
# canonical fingerprint of a score (O2)


def _sym(n):
    sd = n.symbolic_duration or {}
    if not isinstance(sd, dict):
        return ("?", str(sd))
    return (sd.get("type"), sd.get("dots") or 0, sd.get("actual_notes"), sd.get("normal_notes"))


def canon_divisions(rows):
    """the divisions FUNCTION: change points whose value repeats the one in force are dropped"""
    out = []
    for t, q in rows:
        if not out or out[-1][1] != int(q):
            out.append((int(t), int(q)))
    return out


def fingerprint(scr, with_voice=True):
    """dict path -> value; only what the property lists.  Keys starting with "~" are attributes the statement
    does NOT list (notehead, kind of grace note, grace-run links): they are compared for the evidence only
    (counted, never a violation; a loss on the way in still shows as a byte difference in O3)."""
    import partitura.score as S

    fp = {}

    def struct(node):
        if isinstance(node, S.PartGroup):
            return ["group", node.group_symbol, node.group_name, node.number, [struct(c) for c in node.children]]
        return ["part", node.id]

    fp["partlist"] = [struct(n) for n in scr.part_structure]
    for p in scr.parts:
        P = "part[%s]." % p.id
        fp[P + "name"] = p.part_name or None
        fp[P + "abbr"] = p.part_abbreviation or None
        fp[P + "divisions"] = canon_divisions(p.quarter_durations())
        fp[P + "measures"] = [(m.start.t, m.end.t, m.number, m.name) for m in p.iter_all(S.Measure)]
        fp[P + "timesigs"] = sorted((o.start.t, o.beats, o.beat_type) for o in p.iter_all(S.TimeSignature))
        fp[P + "keysigs"] = sorted((o.start.t, o.fifths, o.mode or None) for o in p.iter_all(S.KeySignature))
        fp[P + "clefs"] = sorted((o.start.t, o.staff, o.sign, o.line, o.octave_change or 0) for o in p.iter_all(S.Clef))
        for n in p.iter_all(S.GenericNote, include_subclasses=True):
            N = P + "note[%s]." % n.id
            kind = type(n).__name__
            fp[N + "kind"] = kind
            fp[N + "onset"] = n.start.t
            fp[N + "duration"] = n.end.t - n.start.t
            if isinstance(n, S.Note):
                fp[N + "spelling"] = (n.step, n.alter or 0, n.octave)
            elif isinstance(n, S.UnpitchedNote):
                fp[N + "spelling"] = (n.step, n.octave)
                fp["~" + N + "notehead"] = (n.notehead, bool(n.noteheadstyle) if n.notehead is not None else None)
            if isinstance(n, S.GraceNote):
                fp["~" + N + "grace_type"] = n.grace_type
                fp["~" + N + "grace_next"] = getattr(n.grace_next, "id", None)
                fp["~" + N + "grace_prev"] = getattr(n.grace_prev, "id", None)
            if with_voice:
                fp[N + "voice"] = n.voice
            fp[N + "staff"] = n.staff
            fp[N + "symbolic_duration"] = _sym(n)
            fp[N + "tie_next"] = getattr(n.tie_next, "id", None)
            fp[N + "tie_prev"] = getattr(n.tie_prev, "id", None)
            fp[N + "articulations"] = sorted(n.articulations or [])
            fp[N + "fingering"] = sorted(t.fingering for t in (n.technical or []) if isinstance(t, S.Fingering))
            fp[N + "stem"] = n.stem_direction
            fp[N + "fermata"] = n.fermata is not None
        fp[P + "slurs"] = sorted((getattr(s.start_note, "id", None), getattr(s.end_note, "id", None),
                                  s.start.t if s.start else None, s.end.t if s.end else None) for s in p.iter_all(S.Slur))
        fp[P + "tuplets"] = sorted((getattr(s.start_note, "id", None), getattr(s.end_note, "id", None),
                                    s.actual_notes, s.normal_notes, s.actual_type, s.normal_type,
                                    s.start.t if s.start else None, s.end.t if s.end else None) for s in p.iter_all(S.Tuplet))
        dirs = []
        for d in p.iter_all(S.Direction, include_subclasses=True):
            dirs.append((d.start.t, d.end.t if d.end is not None else None, type(d).__name__, d.text,
                         d.raw_text or d.text, bool(getattr(d, "wedge", False))))
        fp[P + "directions"] = sorted(_py(dirs), key=repr)
        fp[P + "words"] = sorted((w.start.t, w.text) for w in p.iter_all(S.Words))
        fp[P + "tempo"] = sorted((o.start.t, int(o.bpm), o.unit or "q") for o in p.iter_all(S.Tempo))
        fp[P + "repeats"] = sorted((o.start.t if o.start else None, o.end.t if o.end else None) for o in p.iter_all(S.Repeat))
        fp[P + "endings"] = sorted((o.start.t if o.start else None, o.end.t if o.end else None, str(o.number)) for o in p.iter_all(S.Ending))
        fp[P + "barline_fermatas"] = sorted((o.start.t, o.ref) for o in p.iter_all(S.Fermata)
                                            if not isinstance(o.ref, S.GenericNote))
        fp[P + "note_fermatas"] = sorted((o.start.t, o.ref.id) for o in p.iter_all(S.Fermata) if isinstance(o.ref, S.GenericNote))
        # not listed by the statement (evidence only; a loss shows as a byte difference in O3)
        fp["~" + P + "harmony"] = sorted([(o.start.t, type(o).__name__, o.text) for o in p.iter_all(S.Harmony, include_subclasses=True)]
                                         + [(o.start.t, "Cadence", o.text) for o in p.iter_all(S.Cadence)], key=repr)
        fp["~" + P + "systems"] = sorted(o.start.t for o in p.iter_all(S.System))
        fp["~" + P + "pages"] = sorted(o.start.t for o in p.iter_all(S.Page))
        fp["~" + P + "staff_details"] = sorted((o.start.t, o.number, o.lines) for o in p.iter_all(S.Staff))
    return {k: _py(v) for k, v in fp.items()}


def _py(v):
    """numbers as Python numbers (a score built from numpy integers is the same score)"""
    if isinstance(v, (list, tuple)):
        return type(v)(_py(x) for x in v)
    if isinstance(v, bool) or v is None or isinstance(v, str):
        return v
    if hasattr(v, "dtype") and hasattr(v, "item"):
        return v.item()
    return v


def fp_diff(a, b, limit=6, unlisted=False):
    out = []
    for k in sorted(set(a) | set(b)):
        if k.startswith("~") != unlisted:
            continue
        if a.get(k, "<absent>") != b.get(k, "<absent>"):
            out.append((k, a.get(k, "<absent>"), b.get(k, "<absent>")))
            if len(out) >= limit:
                break
    return out


# ---------------------------------------------------------------------------------------------
# abstract measures for the model (a)


def pitch_skey(n, S):
    if isinstance(n, S.GraceNote):
        k = 0
        g = n
        while isinstance(g.grace_prev, S.GraceNote):
            g = g.grace_prev
            k += 1
        return k
    if hasattr(n, "midi_pitch"):
        return -(8 * n.midi_pitch + (ord(n.step) - ord("A")) + 1)
    return 1


def voices_sequential(ps):
    """True when no voice re-assignment is needed (then O2 also compares voices)."""
    bounds = sorted({0, ps["end"]} | {m[0] for m in ps["measures"]} | {t for t, q in ps["qchanges"]})
    notes = [o for o in ps["objs"] if o["k"] in ("note", "unp", "rest", "grace")]
    for i in range(len(bounds) - 1):
        s, e = bounds[i], bounds[i + 1]
        byv = {}
        for o in notes:
            if s <= o["t"] < e:
                byv.setdefault(o["voice"], []).append(o)
        for v, l in byv.items():
            on = {}
            for o in l:
                if o["k"] != "grace":
                    on.setdefault(o["t"], set()).add(o["e"] - o["t"])
            if any(len(x) > 1 for x in on.values()):
                return False
            allon = sorted({o["t"] for o in l})
            for o in l:
                later = [x for x in allon if x > o["t"]]
                if later and o["e"] > later[0]:
                    return False
    return True


def cnote(oid, n, S):
    return "(mkN %s %s %s %s %s %s)" % (cz(oid), cz(n.start.t), cz(n.end.t - n.start.t), cz(n.voice or 0),
                                        cbool(isinstance(n, S.GraceNote)), cz(pitch_skey(n, S)))


def celem(e, idmap):
    if e[0] == "note":
        return "(ENote %s %s %s %s %s)" % (cz(idmap[e[1]]), cz(e[2]), cbool(e[3]), cbool(e[4]), cz(e[5]))
    if e[0] == "forward":
        return "(EForward %s)" % cz(e[1])
    if e[0] == "backup":
        return "(EBackup %s)" % cz(e[1])
    if e[0] == "divisions":
        return "(EDivisions %s)" % cz(e[1])
    return "(EOther %s)" % cz(e[1])


def measure_cases(part, written_part, idmap, split_times):
    """One Coq case per measure: (segments, start, end, written stream)."""
    import partitura.score as S

    cases = []
    measures = list(part.iter_all(S.Measure))
    if len(measures) != len(written_part["measures"]):
        return None
    for m, wm in zip(measures, written_part["measures"]):
        elems = wm["elems"]
        placed, _, _ = interp_measure_t(elems, m.start.t)
        pos_of = dict(placed)
        bounds = [m.start.t] + [t for t in split_times if m.start.t < t < m.end.t] + [m.end.t]
        # cut the written stream into divisions segments: segment k+1 starts at the <attributes>
        # carrying the new divisions at the split time
        cuts = [0]
        k = 1
        for i, e in enumerate(elems):
            if k < len(bounds) - 1 and e[0] == "divisions" and pos_of.get(i) == bounds[k]:
                cuts.append(i)
                k += 1
        if len(cuts) != len(bounds) - 1:
            return None
        cuts.append(len(elems))
        segs = []
        for k in range(len(bounds) - 1):
            ns = list(part.iter_all(S.GenericNote, start=bounds[k], end=bounds[k + 1], include_subclasses=True))
            others = []
            for i in range(cuts[k], cuts[k + 1]):
                e = elems[i]
                if e[0] == "divisions":
                    others.append("(mkO %s 1 (Some %s))" % (cz(pos_of[i]), cz(e[1])))
                elif e[0] == "other":
                    others.append("(mkO %s %s None)" % (cz(pos_of[i]), cz(e[1])))
            segs.append(ctuple([clist([cnote(idmap[n.id], n, S) for n in ns]), clist(others)]))
        cases.append(ctuple([clist(segs), cz(m.start.t), cz(m.end.t), clist([celem(e, idmap) for e in elems])]))
    return cases


def import_expectation(loaded_part, idmap):
    """what load_musicxml really returned for one part, for Model/C03_Imp.v check_import: every note in DOCUMENT order
    (doc_order is set by the importer per <note> element) with (id, start, duration), and every measure's extent"""
    import partitura.score as S
    notes = sorted(loaded_part.iter_all(S.GenericNote, include_subclasses=True), key=lambda n: n.doc_order)
    if any(n.id not in idmap for n in notes):
        return None
    inotes = [ctuple([cz(idmap[n.id]), cz(n.start.t), cz(n.end.t - n.start.t)]) for n in notes]
    imeas = [ctuple([cz(m.start.t), cz(m.end.t)]) for m in loaded_part.iter_all(S.Measure)]
    return clist(inotes), clist(imeas)


def part_case(written_part, idmap, expected, imp_exp):
    stream = []
    tab = []
    for m in written_part["measures"]:
        stream.append("EBar")
        for e in m["elems"]:
            stream.append(celem(e, idmap))
            if e[0] == "note":
                info = e[6]
                tab.append(ctuple([cz(idmap[e[1]]), ctuple([cz(info["midi"]), cbool(info["stop"]), cbool(info["start"])])]))
    exp = [ctuple([cz(p), cq(o), cq(d)]) for (p, o, d) in expected]
    return ctuple([clist(stream), clist(tab), clist(exp), imp_exp[0], imp_exp[1]])


# ---------------------------------------------------------------------------------------------
# slur / tuplet numbers for Model/C03_Rng.v


def range_cases(part, loaded_part, written_part, idmap):
    """One Coq case per kind of range that occurs in the part: (rogue, notes in document order with the ranges that
    stop / start at them in the score's own list order, the (number, is-start) elements written at each note, the
    (start note, end note) pairs of the loaded part)."""
    import partitura.score as S
    byid = {n.id: n for n in part.iter_all(S.GenericNote, include_subclasses=True)}
    wnotes = [e for m in written_part["measures"] for e in m["elems"] if e[0] == "note"]
    cases = []
    for kind, cls, rogue in (("slur", S.Slur, True), ("tuplet", S.Tuplet, False)):
        rid = {}
        ns, written = [], []
        for e in wnotes:
            n = byid[e[1]]
            stops = getattr(n, kind + "_stops")
            starts = getattr(n, kind + "_starts")
            for r in list(stops) + list(starts):
                rid.setdefault(id(r), len(rid) + 10)
            ns.append("(mkRN %s %s %s)" % (ctuple([cz(idmap[e[1]]), cz(n.start.t)]),
                                           clist([cz(rid[id(r)]) for r in stops]), clist([cz(rid[id(r)]) for r in starts])))
            evs = e[6]["ranges"][kind]
            if any(t not in ("start", "stop") for (_, t) in evs):
                ns = None
                break
            written.append(clist([ctuple([cz(num), cbool(t == "start")]) for (num, t) in evs]))
        if not ns or not rid:
            continue
        loaded = []
        for r in loaded_part.iter_all(cls):
            a = idmap.get(getattr(r.start_note, "id", None), -1)
            b = idmap.get(getattr(r.end_note, "id", None), -1)
            loaded.append(ctuple([cz(a), cz(b)]))
        # what the case exercises (for the evidence): a stop written before its start, how many ranges are open at once
        seen, mx, first_stop, first_start = set(), 0, {}, {}
        for i, e in enumerate(wnotes):
            n = byid[e[1]]
            for r in getattr(n, kind + "_stops"):
                first_stop.setdefault(id(r), i)
            for r in getattr(n, kind + "_starts"):
                first_start.setdefault(id(r), i)
            for r in list(getattr(n, kind + "_stops")) + list(getattr(n, kind + "_starts")):
                seen.symmetric_difference_update({id(r)})
            mx = max(mx, len(seen))
        sbs = any(k in first_start and first_stop[k] < first_start[k] for k in first_stop)
        same = any(k in first_start and first_stop[k] == first_start[k] for k in first_stop)
        stats = ((["%s: a stop written at an EARLIER note than its start" % kind] if sbs else [])
                 + (["%s: start and stop at one note" % kind] if same else [])
                 + ["%s: up to %s ranges open between notes" % (kind, mx if mx < 3 else "3+")])
        cases.append((kind, ctuple([cbool(rogue), clist(ns), clist(written), clist(loaded)]), stats))
    return cases


def tie_cases(part, loaded_part, written_part, idmap):
    """One Coq case per written part that holds a tie (Model/C03_Tie.v check_ties): the score's notes in the document
    order of the file with the score's tie_prev / tie_next, what was written at every <note> (pitch key, voice, <tie>
    types), the (tie_prev, note) and (note, tie_next) links of the loaded part; plus what the case exercises."""
    import partitura.score as S
    byid = {n.id: n for n in part.iter_all(S.GenericNote, include_subclasses=True)}
    wnotes = [e for m in written_part["measures"] for e in m["elems"] if e[0] == "note"]
    if not any(e[6]["stop"] or e[6]["start"] or byid[e[1]].tie_prev is not None or byid[e[1]].tie_next is not None for e in wnotes):
        return None
    ref = lambda x: "None" if x is None else "(Some %s)" % cz(idmap.get(x.id, -1))
    ns, ws = [], []
    for e in wnotes:
        n = byid[e[1]]
        key = getattr(n, "midi_pitch", -1)
        ns.append("(mkT %s %s %s %s %s)" % (cz(idmap[e[1]]), cz(int(key)), cz(e[5]), ref(n.tie_prev), ref(n.tie_next)))
        ws.append("(mkW %s %s %s %s %s)" % (cz(idmap[e[1]]), cz(e[6]["midi"]), cz(e[5]), cbool(e[6]["stop"]), cbool(e[6]["start"])))
    lprev, lnext = [], []
    for n in loaded_part.iter_all(S.GenericNote, include_subclasses=True):
        if n.tie_prev is not None:
            lprev.append(ctuple([cz(idmap.get(n.tie_prev.id, -1)), cz(idmap.get(n.id, -1))]))
        if n.tie_next is not None:
            lnext.append(ctuple([cz(idmap.get(n.id, -1)), cz(idmap.get(n.tie_next.id, -1))]))
    # features (document order of the written file)
    pos = {e[1]: i for i, e in enumerate(wnotes)}
    voice = {e[1]: e[5] for e in wnotes}
    ties = [(pos[n.id], pos[n.tie_next.id], n) for n in byid.values() if n.tie_next is not None and n.tie_next.id in pos]
    stats = ["parts with ties"]
    if any(n.tie_prev is not None for (_, _, n) in ties):
        stats.append("a chain (note with tie stop and tie start)")
    if any(voice[n.id] != voice[n.tie_next.id] for (_, _, n) in ties):
        stats.append("a tie whose two notes are written in different voices")
    if any(getattr(n, "voice", None) != voice[n.id] for (_, _, n) in ties):
        stats.append("a tied note the exporter moved to another voice")
    if any(getattr(byid[e[1]], "midi_pitch", -1) == getattr(n, "midi_pitch", -1) and a < pos[e[1]] < b
           for (a, b, n) in ties for e in wnotes):
        stats.append("another note of the same pitch written between the two notes of a tie")
    mx = max((sum(1 for (a, b, _) in ties if a <= i < b) for i in range(len(wnotes))), default=0)
    stats.append("up to %s ties open between written notes" % (mx if mx < 3 else "3+"))
    if any(isinstance(n, S.GraceNote) or isinstance(n.tie_next, S.GraceNote) for (_, _, n) in ties):
        stats.append("a tie from / to a grace note")
    if any(b - a > 1 and len({m_i for m_i, m in enumerate(written_part["measures"]) for e in m["elems"]
                              if e[0] == "note" and e[1] in (n.id, n.tie_next.id)}) > 1 for (a, b, n) in ties):
        stats.append("a tie over a barline with other notes written in between")
    return ctuple([clist(ns), clist(ws), clist(lprev), clist(lnext)]), stats


def wedge_cases(part, loaded_part, written_part):
    """One Coq case per label (wedge, dashes) that occurs in the part: the stop and start events of the score in the order of
    time (stops first at one time; the order in which do_directions numbers and writes them) as (position, range, is-start),
    the (number, is-start) attributes in document order, the (start, end) of the loaded directions."""
    import partitura.score as S
    from partitura.io.importmusicxml import DYN_DIRECTIONS, PEDAL_DIRECTIONS
    label_of = lambda d: "wedge" if getattr(d, "wedge", False) else "dashes"
    evs = []
    for d in part.iter_all(S.DynamicDirection, include_subclasses=True, mode="ending"):
        evs.append((d.end.t, 0, d))
    for d in part.iter_all(S.Direction, include_subclasses=True):
        text = d.raw_text or d.text
        if text in PEDAL_DIRECTIONS or text in DYN_DIRECTIONS:
            continue
        if getattr(d, "wedge", False) or (isinstance(d, S.DynamicDirection) and d.end is not None):
            evs.append((d.start.t, 1, d))
    evs.sort(key=lambda x: (x[0], x[1]))
    # the written attributes with the position a reader is at
    wr = {"wedge": [], "dashes": []}
    start = 0
    for m in written_part["measures"]:
        placed, _, mx = interp_measure_t(m["elems"], start)
        pos_of = dict(placed)
        for i, e in enumerate(m["elems"]):
            if e[0] == "other" and len(e) > 3:
                for (lab, num, ty) in e[3]:
                    if ty == "continue":
                        return []
                    wr[lab].append((pos_of[i], num, ty != "stop"))
        start = mx
    cases = []
    for lab in ("wedge", "dashes"):
        mine = [(t, k, d) for (t, k, d) in evs if label_of(d) == lab]
        if not mine:
            continue
        rid = {}
        for (_, _, d) in mine:
            rid.setdefault(id(d), len(rid) + 20)
        loaded = []
        for d in loaded_part.iter_all(S.Direction, include_subclasses=True):
            text = d.raw_text or d.text
            if text in PEDAL_DIRECTIONS or text in DYN_DIRECTIONS:
                continue
            if lab == "wedge" and getattr(d, "wedge", False):
                loaded.append((d.start.t, d.end.t if d.end is not None else -1))
            elif lab == "dashes" and not getattr(d, "wedge", False) and isinstance(d, S.DynamicDirection) and d.end is not None:
                loaded.append((d.start.t, d.end.t))
        # (wedges that were never stopped are removed by the importer; a wedge of the loaded part without end can only be
        # one that was overwritten while open: the model lists it as (start, -1))
        cases.append((lab, ctuple([clist([ctuple([cz(t), cz(rid[id(d)]), cbool(k == 1)]) for (t, k, d) in mine]),
                                   clist([ctuple([cz(num), cbool(st)]) for (_, num, st) in wr[lab]]),
                                   clist([ctuple([cz(a), cz(b)]) for (a, b) in loaded])])))
    return cases


# ---------------------------------------------------------------------------------------------
# part-group structure for Model/C03_Grp.v (groups are named by their number, parts by the digits of their id)


def _pnum(pid):
    d = "".join(ch for ch in str(pid) if ch.isdigit())
    return int(d) if d else None


def cnode(n):
    return "(NPart %s)" % cz(n[1]) if n[0] == "p" else "(NGroup %s %s)" % (cz(n[1]), clist([cnode(c) for c in n[2]]))


def group_numbers(tree):
    out = []
    for n in tree:
        if n[0] == "g":
            out.append(n[1])
            out.extend(group_numbers(n[2]))
    return out


def spec_tree(spec):
    def mk(node):
        if isinstance(node, int):
            return ("p", _pnum(spec["parts"][node]["id"]))
        return ("g", node.get("number"), [mk(c) for c in node["g"]])
    return [mk(n) for n in spec["struct"]]


def loaded_tree(scr):
    import partitura.score as S

    def mk(node):
        if isinstance(node, S.PartGroup):
            return ("g", node.number, [mk(c) for c in node.children])
        return ("p", _pnum(node.id))
    return [mk(n) for n in scr.part_structure]


def written_partlist(data):
    from lxml import etree
    toks = []
    pl = etree.fromstring(data).find("part-list")
    for e in (pl if pl is not None else []):
        if e.tag == "part-group":
            num = e.get("number")
            toks.append("(%s %s)" % ("TStart" if e.get("type") == "start" else "TStop", cz(int(num))) if num and num.lstrip("-").isdigit() else None)
        elif e.tag == "score-part":
            toks.append("(TPart %s)" % cz(_pnum(e.get("id"))) if _pnum(e.get("id")) is not None else None)
    return toks


def group_case(spec, data, scr2):
    """(structure of the score, <part-list> children as written, structure after load) or None when the groups of the
    spec are not told apart by their numbers (the model names a group by its number)"""
    tree = spec_tree(spec)
    nums = group_numbers(tree)
    toks = written_partlist(data)
    lt = loaded_tree(scr2)
    if len(set(nums)) != len(nums) or any(not isinstance(x, int) for x in nums) or None in toks \
            or any(not isinstance(x, int) for x in group_numbers(lt)):
        return None
    return ctuple([clist([cnode(n) for n in tree]), clist(toks), clist([cnode(n) for n in lt])])


# ---------------------------------------------------------------------------------------------
# one score through the implementation


def bytes_diff(a, b, n=12):
    import difflib
    d = list(difflib.unified_diff(a.decode().splitlines(), b.decode().splitlines(), lineterm="", n=1))
    return " | ".join(x.strip() for x in d[2:2 + n])


class Outcome:
    data = None
    loaded = None

    def __init__(self):
        self.problems = []     # (kind, text)
        self.measure_cases = []
        self.part_cases = []
        self.nontrivial = False
        self.unlisted_diffs = 0
        self.unaligned = 0
        self.group_case = None
        self.range_cases = []
        self.range_stats = []
        self.wedge_cases = []
        self.tie_cases = []
        self.tie_stats = []


def check_spec(spec, want_coq=True, scr=None):
    """Run save/load/save on the score of `spec`; direct oracles; collect Coq cases.
    scr: a LIVE score object that is claimed to be in the state `spec` describes (history stream): it is judged
    instead of a freshly built one, against the expectations computed from `spec` alone."""
    import partitura.score as S
    from partitura import save_musicxml, load_musicxml

    out = Outcome()
    with warnings.catch_warnings():
        warnings.simplefilter("ignore")
        try:
            if scr is None:
                scr = build(spec)
        except Exception as ex:   # the generator produced something the API refuses: not a property failure
            out.problems.append(("build", "%s: %s" % (type(ex).__name__, ex)))
            return out
        seq = all(voices_sequential(ps) for ps in spec["parts"])
        try:
            fp0 = fingerprint(scr, with_voice=seq)
            data = save_musicxml(scr)
        except Exception as ex:
            out.problems.append(("save", "save_musicxml raised %s: %s" % (type(ex).__name__, ex)))
            return out
        # ---- O1 (b): independent reader
        try:
            written = parse_written(data)
        except Exception as ex:
            out.problems.append(("O1", "written file is not parseable: %s" % ex))
            return out
        if [w["id"] for w in written] != [ps["id"] for ps in spec["parts"]]:
            out.problems.append(("O1", "parts written %s, expected %s" % ([w["id"] for w in written], [ps["id"] for ps in spec["parts"]])))
            return out
        pending_parts = []
        for ps, wp, part in zip(spec["parts"], written, scr.parts):
            exp = expected_sounding(ps)
            try:
                got = interp_part_q(wp["measures"])
                snd = merge_ties([(info["midi"], o, d, info["stop"], info["start"]) for (nid, o, d, info) in got if info["midi"] >= 0])
            except Exception as ex:
                out.problems.append(("O1", "independent reader failed on part %s: %s" % (ps["id"], ex)))
                continue
            if snd != exp:
                bad = [x for x in exp if x not in snd][:3]
                bad2 = [x for x in snd if x not in exp][:3]
                out.problems.append(("O1", "part %s: written file denotes other sounding notes: expected-but-missing %s, written-but-unexpected %s"
                                     % (ps["id"], [(p, str(o), str(d)) for p, o, d in bad], [(p, str(o), str(d)) for p, o, d in bad2])))
            ids = [e[1] for m in wp["measures"] for e in m["elems"] if e[0] == "note"]
            if want_coq and None not in ids and len(set(ids)) == len(ids):
                idmap = {nid: i for i, nid in enumerate(ids)}
                allnotes = list(part.iter_all(S.GenericNote, include_subclasses=True))
                if sorted(n.id for n in allnotes) == sorted(ids):
                    mc = measure_cases(part, wp, idmap, [t for t, q in ps["qchanges"]])
                    if mc is None:
                        # not judged here: a lost measure shows in O2 (measures), a <divisions> that is not written at
                        # its time shows in O1 (durations in quarters); the part only gets no Coq measure cases
                        out.unaligned += 1
                    else:
                        out.measure_cases.extend((ps["id"], i, c) for i, c in enumerate(mc))
                    pending_parts.append((ps["id"], wp, idmap, exp, part))
                else:
                    out.problems.append(("O1", "part %s: written note ids differ from the score's: missing %s extra %s" % (
                        ps["id"], sorted(set(n.id for n in allnotes) - set(ids))[:5], sorted(set(ids) - set(n.id for n in allnotes))[:5])))
        # ---- O2 (c)
        try:
            scr2 = load_musicxml(io.BytesIO(data))
            fp1 = fingerprint(scr2, with_voice=seq)
        except Exception as ex:
            out.problems.append(("O2", "load_musicxml of the written file raised %s: %s" % (type(ex).__name__, ex)))
            return out
        for k, a, b in fp_diff(fp0, fp1):
            out.problems.append(("O2", "%s: before save %r, after load %r" % (k, a, b)))
        if want_coq:
            try:
                out.group_case = group_case(spec, data, scr2)
            except Exception:
                out.group_case = None
        # the Coq part cases need what the importer really returned (check_import)
        loaded = {p.id: p for p in scr2.parts}
        for pid, wp, idmap, exp, part in pending_parts:
            imp_exp = import_expectation(loaded[pid], idmap) if pid in loaded else None
            if imp_exp is None:
                out.unaligned += 1
            else:
                out.part_cases.append((pid, part_case(wp, idmap, exp, imp_exp)))
                try:
                    for (kind, c, stats) in range_cases(part, loaded[pid], wp, idmap):
                        out.range_cases.append((pid, kind, c))
                        out.range_stats.extend(stats)
                    out.wedge_cases.extend((pid, lab, c) for (lab, c) in wedge_cases(part, loaded[pid], wp))
                    tc = tie_cases(part, loaded[pid], wp, idmap)
                    if tc is not None:
                        out.tie_cases.append((pid, tc[0]))
                        out.tie_stats.extend(tc[1])
                except KeyError:
                    out.unaligned += 1
        out.unlisted_diffs = len(fp_diff(fp0, fp1, limit=1000, unlisted=True))
        # ---- O3
        try:
            data2 = save_musicxml(scr2)
        except Exception as ex:
            out.problems.append(("O3", "second save raised %s: %s" % (type(ex).__name__, ex)))
            return out
        if data2 != data:
            out.problems.append(("O3", "save(load(save(s))) differs from save(s): " + bytes_diff(data, data2)))
        out.seq = seq
        out.data = data
        out.loaded = scr2
    return out


# ---------------------------------------------------------------------------------------------
# shrinking


def signature(kind, text):
    """what a shrunk case must still show: the kind and, for O2, the attribute that differs"""
    if kind == "O2":
        return kind + ":" + text.split(":")[0].split(".")[-1]
    return kind


def struct_without(struct, i):
    """the part list structure after removing part i (indices renumbered, emptied groups dropped)"""
    out = []
    for n in struct:
        if isinstance(n, dict):
            g = struct_without(n["g"], i)
            if g:
                out.append(dict(n, g=g))
        elif n != i:
            out.append(n - 1 if n > i else n)
    return out


def shrink(spec, kind, text="", check=None):
    """ddmin over parts, then over the objects of each part, keeping a failure with the same signature.
    check: spec -> [(kind, text, ...)] evaluated elsewhere (a fresh interpreter state) instead of in this process."""
    sig = signature(kind, text)

    def fails(sp):
        try:
            if check is not None:
                return any(signature(p[0], p[1]) == sig for p in check(sp))
            o = check_spec(sp, want_coq=False)
        except Exception:
            return False
        return any(signature(k, t) == sig for k, t in o.problems)

    spec = json.loads(json.dumps(spec))
    # drop whole parts
    if len(spec["parts"]) > 1:
        for i in range(len(spec["parts"]) - 1, -1, -1):
            if len(spec["parts"]) == 1:
                break
            cand = json.loads(json.dumps(spec))
            del cand["parts"][i]
            cand["struct"] = struct_without(cand["struct"], i)
            if fails(cand):
                spec = cand
    for pi in range(len(spec["parts"])):
        def with_objs(objs, pi=pi):
            c = json.loads(json.dumps(spec))
            c["parts"][pi]["objs"] = objs
            return c
        objs = core.ddmin(spec["parts"][pi]["objs"], lambda sub: fails(with_objs(sub)))
        if fails(with_objs(objs)):
            spec = with_objs(objs)
    return spec


# ---------------------------------------------------------------------------------------------
# HISTORY stream: state carried between calls (design.d/C03.md "State between calls")
#
# A history is {"specs": {"A": spec, "B": spec}, "ops": [op, ...]}.  Each track holds a LIVE Score object and the JSON spec that
# describes its CURRENT state; an edit op is applied to the live object (public API / in place) and mirrored on the spec; an
# observation op calls the entry points on the live object and is judged against the current spec ONLY: the one-shot oracles
# O1-O3 computed from the spec, the fingerprint of a freshly built score of the current spec (H-state: the live object IS in
# that state, no entry point edited its argument), the bytes save_musicxml returns for that fresh score (H-bytes), the other
# accepted argument kinds (H-kinds) and the independence of objects returned earlier (H-alias).  Two tracks interleave in one
# process (module-level state, both orders).

NOTE_FIELDS = {"staff": "staff", "oct": "octave", "stem": "stem_direction", "voice": "voice"}
OBJ_FIELDS = {"tempo": {"bpm": "bpm"}, "ks": {"f": "fifths"}, "ts": {"beats": "beats"}, "clef": {"sign": "sign"}, "ending": {"n": "number"}}
OBJ_CLASS = {"tempo": "Tempo", "ks": "KeySignature", "ts": "TimeSignature", "clef": "Clef", "ending": "Ending"}


def free_notes(ps):
    """plain notes no other spec object refers to (their times / existence can be edited without moving anything else)"""
    ref = set()
    for o in ps["objs"]:
        if o["k"] in ("tie", "slur", "tuplet"):
            ref.update((o["a"], o["b"]))
        if o["k"] == "grace" and o.get("next"):
            ref.add(o["next"])
    return [o for o in ps["objs"] if o["k"] == "note" and o["id"] not in ref and not o.get("ferm")]


def segment_of(ps, t):
    bounds = sorted({0, ps["end"]} | {m[0] for m in ps["measures"]} | {x for x, q in ps["qchanges"]})
    for a, b in zip(bounds, bounds[1:]):
        if a <= t < b:
            return a, b
    return None


def spec_obj(ps, op):
    for o in ps["objs"]:
        if o["k"] == op["k"] and o["t"] == op["t"] and (op["k"] != "clef" or o.get("staff") == op.get("staff")):
            return o
    return None


def edit_spec(spec, op):
    """mirror of edit_live on the JSON spec; False when the target does not exist (the op is then skipped on both sides)"""
    kind = op["op"]
    if kind == "replace_part":
        if op["i"] >= len(spec["parts"]):
            return False
        if op.get("plain") and any(isinstance(x, dict) for x in spec["struct"]):
            return False
        new = json.loads(json.dumps(op["part"]))
        new["id"] = spec["parts"][op["i"]]["id"]
        spec["parts"][op["i"]] = new
        return True
    if op["part"] >= len(spec["parts"]):
        return False
    ps = spec["parts"][op["part"]]
    if kind in ("note_end", "note_attr", "art_append", "sym_set", "sym_poke", "remove_note"):
        o = next((x for x in ps["objs"] if x.get("id") == op["id"] and x["k"] in ("note", "unp", "rest")), None)
        if o is None:
            return False
        if kind == "note_end":
            o["e"] = op["e"]
        elif kind == "note_attr":
            o[op["field"]] = op["value"]
        elif kind == "art_append":
            o["art"] = sorted(set((o.get("art") or []) + [op["value"]]))
        elif kind == "sym_set":
            o["sym"] = dict(o["sym"] if (op.get("inplace") and o.get("sym")) else {"type": "quarter"}, **{op["key"]: op["value"]})
        elif kind == "sym_poke":
            pass          # writing into the dict an UNSET symbolic duration returns (an estimate) does not change the score
        else:
            ps["objs"].remove(o)
        return True
    if kind == "obj_attr":
        if op["k"] == "measure":
            m = next((m for m in ps["measures"] if m[0] == op["t"]), None)
            if m is None:
                return False
            m[3] = op["value"]
            return True
        o = spec_obj(ps, op)
        if o is None:
            return False
        o[op["field"]] = op["value"]
        return True
    if kind == "dir_text":
        o = next((x for x in ps["objs"] if x["k"] == "dir" and x.get("kind") == "words" and x["t"] == op["t"] and x["text"] == op["old"]), None)
        if o is None or "," in op["old"] or sum(1 for x in ps["objs"] if x["k"] == "dir" and x.get("kind") == "words" and x["t"] == op["t"]
                                                for pc in text_pieces(x["text"]) if pc == text_pieces(op["old"])[0]) != 1:
            return False
        o["text"] = op["new"]
        return True
    if kind == "divs":
        if op["t"] == 0:
            ps["q0"] = op["q"]
        else:
            row = next((r for r in ps["qchanges"] if r[0] == op["t"]), None)
            if row is not None:
                row[1] = op["q"]
            else:
                ps["qchanges"] = sorted(ps["qchanges"] + [[op["t"], op["q"]]])
        return True
    if kind == "add_note":
        if any(x.get("id") == op["obj"]["id"] for x in ps["objs"]):
            return False
        ps["objs"].append(json.loads(json.dumps(op["obj"])))
        return True
    raise ValueError(kind)


class AliasError(Exception):
    pass


def live_note(part, nid, S):
    return next((n for n in part.iter_all(S.GenericNote, include_subclasses=True) if n.id == nid), None)


def edit_live(scr, op, S):
    kind = op["op"]
    if kind == "replace_part":
        i = op["i"]
        if i >= len(scr.parts):
            return False
        old = scr.parts[i]
        grouped = any(isinstance(x, S.PartGroup) for x in scr.part_structure)
        if op.get("plain") and grouped:
            return False
        new = build_part(dict(op["part"], id=old.id))
        if op.get("plain"):
            scr[i] = new                        # Score.__setitem__ alone: part_structure keeps the old part (same id)
            return True
        holder = old.parent.children if old.parent is not None else scr.part_structure
        holder[[id(x) for x in holder].index(id(old))] = new
        new.parent, old.parent = old.parent, None
        scr[i] = new
        return True
    if op["part"] >= len(scr.parts):
        return False
    part = scr.parts[op["part"]]
    if kind in ("note_end", "note_attr", "art_append", "sym_set", "sym_poke", "remove_note"):
        n = live_note(part, op["id"], S)
        if n is None or isinstance(n, S.GraceNote):
            return False
        if kind == "note_end":
            st = n.start.t
            part.remove(n)
            part.add(n, st, op["e"])
        elif kind == "note_attr":
            setattr(n, NOTE_FIELDS[op["field"]], op["value"])
        elif kind == "art_append":
            if not isinstance(n.articulations, list):     # None, or the empty dict of a loaded note
                n.articulations = [op["value"]]
            elif op["value"] not in n.articulations:
                n.articulations.append(op["value"])          # in place: the list the note holds
        elif kind == "sym_set":
            if op.get("inplace") and isinstance(n.symbolic_duration, dict):
                n.symbolic_duration[op["key"]] = op["value"]  # in place: the dict the note holds
            else:
                n.symbolic_duration = {"type": "quarter", op["key"]: op["value"]}
        elif kind == "sym_poke":
            d = n.symbolic_duration                           # unset: estimated from duration and divisions on every access
            if isinstance(d, dict):
                before = dict(d)
                d["type"] = "long"
                d["dots"] = 3
                d["actual_notes"], d["normal_notes"] = 7, 4
                if n.symbolic_duration != before:
                    raise AliasError("writing into the dict returned by the symbolic_duration of note %s (unset: estimated from its "
                                     "duration and the divisions) changed what the next access returns: %r -> %r"
                                     % (n.id, before, n.symbolic_duration))
        else:
            part.remove(n)
        return True
    if kind == "obj_attr":
        if op["k"] == "measure":
            m = next((m for m in part.iter_all(S.Measure) if m.start.t == op["t"]), None)
            if m is None:
                return False
            m.name = op["value"]
            return True
        cls = getattr(S, OBJ_CLASS[op["k"]])
        o = next((x for x in part.iter_all(cls) if x.start is not None and x.start.t == op["t"]
                  and (op["k"] != "clef" or x.staff == op.get("staff"))), None)
        if o is None:
            return False
        setattr(o, OBJ_FIELDS[op["k"]][op["field"]], op["value"])
        return True
    if kind == "dir_text":
        # the spelling of a text direction is rewritten in place (case variant: class and normalised text stay)
        want = text_pieces(op["old"])[0]
        ds = [d for d in part.iter_all(S.Direction, include_subclasses=True) if d.start.t == op["t"] and d.raw_text == want]
        if len(ds) != 1:
            return False
        ds[0].raw_text = text_pieces(op["new"])[0]
        return True
    if kind == "divs":
        part.set_quarter_duration(op["t"], op["q"])
        return True
    if kind == "add_note":
        if live_note(part, op["obj"]["id"], S) is not None:
            return False
        part.add(make_note(op["obj"], S), op["obj"]["t"], op["obj"]["e"])
        return True
    raise ValueError(kind)


def gen_edit(rng, spec, ids, adopted=False):
    """one edit op that is applicable to `spec` (None when the draw finds no target)"""
    pi = rng.randrange(len(spec["parts"]))
    ps = spec["parts"][pi]
    free = free_notes(ps)
    r = rng.random()
    wd = [o for o in ps["objs"] if o["k"] == "dir" and o.get("kind") == "words" and "," not in o["text"] and o["text"] != "spaghetti"]
    if wd and rng.random() < 0.3:
        o = rng.choice(wd)
        base = o["text"].strip()
        alts = [x for x in (base.lower(), base.upper(), base.capitalize(), base.title()) if x != base and x.lower() == base.lower()]
        same = [x for x in ps["objs"] if x["k"] == "dir" and x.get("kind") == "words" and x["t"] == o["t"]]
        if alts and len(same) == 1:
            return {"op": "dir_text", "part": pi, "t": o["t"], "old": o["text"], "new": rng.choice(sorted(set(alts)))}
    if r < 0.16 and free:
        o = rng.choice(free)
        seg = segment_of(ps, o["t"])
        if seg:
            cand = [e for e in range(o["t"] + 1, seg[1] + 1) if e != o["e"]]
            if cand:
                return {"op": "note_end", "part": pi, "id": o["id"], "e": rng.choice(cand)}
    elif r < 0.30 and free:
        o = rng.choice(free)
        f = rng.choice(["staff", "oct", "stem", "voice"])
        maxv = max([x.get("voice", 0) for x in ps["objs"] if "voice" in x] + [1])
        v = {"staff": rng.randint(1, ps["nstaves"] + (1 if rng.random() < 0.3 else 0)), "oct": rng.choice([1, 7]),
             "stem": rng.choice(["up", "down", None]), "voice": maxv + 1}[f]
        if f == "staff":
            ps["nstaves"] = max(ps["nstaves"], v)
        return {"op": "note_attr", "part": pi, "id": o["id"], "field": f, "value": v}
    elif r < 0.38:
        notes = [o for o in ps["objs"] if o["k"] in ("note", "unp", "rest")]
        if notes:
            return {"op": "art_append", "part": pi, "id": rng.choice(notes)["id"], "value": rng.choice(ARTICULATIONS)}
    elif r < 0.48:
        notes = [o for o in ps["objs"] if o["k"] in ("note", "unp", "rest")]
        if notes:
            key = rng.choice(["type", "dots"])
            o = rng.choice(notes)
            if not o.get("sym") and not adopted and rng.random() < 0.75:
                return {"op": "sym_poke", "part": pi, "id": o["id"]}
            return {"op": "sym_set", "part": pi, "id": o["id"], "key": key, "inplace": bool(o.get("sym")),
                    "value": rng.choice(SYMTYPES) if key == "type" else rng.choice([1, 2])}
    elif r < 0.60:
        cands = [o for o in ps["objs"] if o["k"] in OBJ_FIELDS and (o["k"] != "tempo" or True)]
        if cands and rng.random() < 0.8:
            o = rng.choice(cands)
            f = sorted(OBJ_FIELDS[o["k"]])[0]
            v = {"bpm": rng.choice([50, 66, 84, 132]), "f": rng.randint(-5, 5), "beats": rng.choice([2, 3, 4, 5, 7]),
                 "sign": rng.choice(["G", "F", "C"]), "n": rng.choice([1, 2, 3, 4])}[f]
            op = {"op": "obj_attr", "part": pi, "k": o["k"], "t": o["t"], "field": f, "value": v}
            if o["k"] == "clef":
                op["staff"] = o["staff"]
            # the same key only once per time (one <attributes> holds one of each): targets are unique by construction
            if sum(1 for x in ps["objs"] if x["k"] == o["k"] and x["t"] == o["t"] and x.get("staff") == o.get("staff")) == 1:
                return op
        else:
            m = rng.choice(ps["measures"])
            return {"op": "obj_attr", "part": pi, "k": "measure", "t": m[0], "value": rng.choice(["7", "12a", "X1", "99"])}
    elif r < 0.74:
        times = [0] + [m[0] for m in ps["measures"][1:]] + [t for t, q in ps["qchanges"]]
        t = rng.choice(times)
        rows = sorted([(0, ps["q0"])] + [tuple(x) for x in ps["qchanges"]])
        # never a row that repeats the value in force (before it, or making the next row repeat it): the exporter writes
        # such a row as a second <divisions> of the same value, which the importer rightly does not turn into a row again
        before = [q for (x, q) in rows if x < t]
        after = [q for (x, q) in rows if x > t]
        avoid = {q for (x, q) in rows if x == t} | set(before[-1:]) | set(after[:1])
        q = rng.choice([x for x in (1, 2, 3, 4, 5, 6, 8, 12, 16, 24, 48) if x not in avoid])
        return {"op": "divs", "part": pi, "t": t, "q": q}
    elif r < 0.84:
        seg = segment_of(ps, rng.randrange(0, max(1, ps["end"])))
        if seg and seg[1] > seg[0]:
            t = rng.randrange(seg[0], seg[1])
            e = rng.randint(t + 1, seg[1])
            maxv = max([x.get("voice", 0) for x in ps["objs"] if "voice" in x] + [0])
            st = rng.randint(1, ps["nstaves"])
            step, alter, octave = gen_pitch(rng)
            return {"op": "add_note", "part": pi, "obj": {"k": "note", "id": ids.new("h"), "t": t, "e": e, "step": step, "alter": alter,
                                                           "oct": octave, "voice": maxv + 1, "staff": st}}
    elif r < 0.90 and free:
        return {"op": "remove_note", "part": pi, "id": rng.choice(free)["id"]}
    else:
        sub = IdGen()
        sub.n = ids.n + 500
        ids.n += 1000
        newp, segs = gen_part(rng, sub, ps["id"], small=True)
        decorate_part(rng, sub, newp, segs)
        plain = not any(isinstance(x, dict) for x in spec["struct"]) and rng.random() < 0.6
        return {"op": "replace_part", "i": pi, "part": newp, "plain": plain}
    return None


def gen_history(rng):
    saved = dict(W)
    W.update(k_words=0.0, k_fermata=0.0, parts=0.6)
    try:
        ids = IdGen()
        specs = {}
        for name in ("A", "B"):
            sp = gen_spec(rng)
            if rng.random() < 0.3:
                sp["kinds"] = rng.choice(["np64", "np32", "fbpm", "ftime"])
            specs[name] = sp
        if rng.random() < 0.7:
            # the two scores of the history state texts of ONE family (case / whitespace / prefix variants of each other)
            fam = rng.choice(TEXT_FAMILIES)
            for name in ("A", "B"):
                ps = rng.choice(specs[name]["parts"])
                for text in rng.sample(fam, rng.randint(1, 2)):
                    ps["objs"].append({"k": "dir", "kind": "words", "t": rng.randrange(0, ps["end"]), "text": text})
        sim = {k: json.loads(json.dumps(v)) for k, v in specs.items()}
        ops = [{"on": "A", "op": "save"}, {"on": "B", "op": "save_light"}] if rng.random() < 0.5 else \
              [{"on": "B", "op": "save"}, {"on": "A", "op": "save_light"}]
        ids.n = 5000
        adopted = set()
        if rng.random() < 0.6:
            on = rng.choice("AB")
            pi = rng.randrange(len(sim[on]["parts"]))
            cand = [o for o in sim[on]["parts"][pi]["objs"] if o["k"] in ("note", "rest") and not o.get("sym")]
            if cand:
                ops.append({"on": on, "op": "sym_poke", "part": pi, "id": rng.choice(cand)["id"]})
        for _ in range(rng.randint(4, 8)):
            on = rng.choice("AAB")
            r = rng.random()
            if r < 0.62:
                op = gen_edit(rng, sim[on], ids, adopted=on in adopted)
                if op is None:
                    continue
                op["on"] = on
                if edit_spec(sim[on], op):
                    ops.append(op)
                    if rng.random() < 0.5:
                        ops.append({"on": on, "op": rng.choice(["save_light", "save_light", "save", "kinds"])})
            elif r < 0.72:
                ops.append({"on": on, "op": "adopt"})
                adopted.add(on)
            elif r < 0.86:
                ops.append({"on": on, "op": "load_twice"})
            else:
                ops.append({"on": on, "op": "kinds", "i": rng.randrange(len(sim[on]["parts"]))})
        ops.append({"on": "A", "op": "save"})
        ops.append({"on": "B", "op": "save_light"})
        return {"specs": specs, "ops": ops}
    finally:
        W.clear()
        W.update(saved)


def scramble(scr, S):
    """edit a score object in place as thoroughly as the public API allows (H-alias: nothing else may change with it)"""
    for p in scr.parts:
        p.set_quarter_duration(0, 7)
        for n in list(p.iter_all(S.GenericNote, include_subclasses=True)):
            if hasattr(n, "octave") and n.octave is not None:
                n.octave = n.octave + 1
            if isinstance(n.articulations, list):
                n.articulations.append("scoop")
            else:
                n.articulations = ["plop"]
            if isinstance(n.symbolic_duration, dict):
                n.symbolic_duration["type"] = "long"
            n.voice = 9
            if isinstance(n.technical, list):
                n.technical.clear()
        for d in p.iter_all(S.Direction, include_subclasses=True):
            d.text = "zz"
            d.raw_text = "zz"
        for o in p.iter_all(S.KeySignature):
            o.fifths = 7
        for o in p.iter_all(S.Measure):
            o.name = "scrambled"
        first = next(iter(p.iter_all(S.GenericNote, include_subclasses=True)), None)
        if first is not None and not isinstance(first, S.GraceNote) and first.tie_next is None and first.tie_prev is None:
            p.remove(first)
        p.part_name = "scrambled"
    for g in scr.part_structure:
        if isinstance(g, S.PartGroup):
            g.group_name = "scrambled"
            g.number = 77


def hist_terms(scr, data, reg):
    """(hscore term, observed term) of one save_musicxml call for Model/C03_Hist.v: per part the note ids in document order and
    the notes with the slurs / tuplets that stop and start at them (from the score object), and what was written: the id with
    its repetition suffix and the (number, is-start) elements at every note.  reg names ids and range objects by integers that
    stay the same over the whole history."""
    import partitura.score as S
    parts_t, obs_t = [], []
    written = parse_written(data)
    if len(written) != len(scr.parts):
        return None
    for part, wp in zip(scr.parts, written):
        byid = {n.id: n for n in part.iter_all(S.GenericNote, include_subclasses=True)}
        ids, oids, rn, ro = [], [], {"slur": [], "tuplet": []}, {"slur": [], "tuplet": []}
        k = 0
        for m in wp["measures"]:
            for e in m["elems"]:
                if e[0] != "note":
                    continue
                wid, rep = e[1], 1
                if wid not in byid and wid and "_" in wid:
                    wid, r = wid.rsplit("_", 1)
                    rep = int(r) if r.isdigit() else -1
                n = byid.get(wid)
                if n is None:
                    return None
                g = reg["ids"].setdefault(wid, len(reg["ids"]) + 1)
                ids.append(cz(g))
                oids.append(ctuple([cz(g), cz(rep)]))
                for kind in ("slur", "tuplet"):
                    names = []
                    for lst in (getattr(n, kind + "_stops"), getattr(n, kind + "_starts")):
                        for r in lst:
                            if id(r) not in reg["ranges"]:
                                reg["ranges"][id(r)] = (len(reg["ranges"]) + 10, r)       # keeps r alive: ids are not reused
                        names.append(clist([cz(reg["ranges"][id(r)][0]) for r in lst]))
                    rn[kind].append("(mkRN %s %s %s)" % (ctuple([cz(k), cz(int(n.start.t))]), names[0], names[1]))
                    evs = e[6]["ranges"][kind]
                    if any(t not in ("start", "stop") for (_, t) in evs):
                        return None
                    ro[kind].append(clist([ctuple([cz(num), cbool(t == "start")]) for (num, t) in evs]))
                k += 1
        parts_t.append("(mkHP %s %s %s)" % (clist(ids), clist(rn["slur"]), clist(rn["tuplet"])))
        obs_t.append(ctuple([clist(oids), clist(ro["slur"]), clist(ro["tuplet"])]))
    return parts_t, clist(obs_t)


def hist_case(records):
    """records of one track [(part terms, observed term, indices replaced through Score.__setitem__ since the call before)]
    -> Coq term (first score, history, what every call wrote)"""
    if not records or any(r is None for r in records) or len({len(r[0]) for r in records}) != 1:
        return None
    ops = []
    for j, (parts_t, _, setitem) in enumerate(records):
        if j > 0:
            ops.extend("(%s %d %s)" % ("HSetPart" if i in setitem else "HEdit", i, t) for i, t in enumerate(parts_t))
        ops.append("HSave")
    return ctuple([clist(records[0][0]), clist(ops), clist([r[1] for r in records])])


def run_history(hist, stop_at_first=True, trace=None, collect=None):
    """-> [(kind, text, step index)].  Deterministic in `hist`."""
    import partitura.score as S
    from partitura import save_musicxml, load_musicxml
    import tempfile

    problems = []
    tracks = {}
    seen_states, seen_step = {}, {}
    with warnings.catch_warnings():
        warnings.simplefilter("ignore")
        for name, sp in hist["specs"].items():
            spec = json.loads(json.dumps(sp))
            try:
                tracks[name] = {"spec": spec, "scr": build(spec), "plain": False, "watch": [], "setitem": set(),
                                "reg": {"ids": {}, "ranges": {}}}
            except Exception as ex:
                return [("build", "%s: %s" % (type(ex).__name__, ex), -1)]

        def seq_of(spec):
            return all(voices_sequential(ps) for ps in spec["parts"])

        def state_check(tr, step, after):
            """the live object is in the state the spec describes; objects returned earlier are untouched"""
            fresh = build(tr["spec"])
            seq = seq_of(tr["spec"])
            for k, a, b in fp_diff(fingerprint(fresh, with_voice=seq), fingerprint(tr["scr"], with_voice=seq), limit=3):
                problems.append(("H-state", "%s after %s: the score object differs from a freshly built score of its current state: %s: "
                                 "fresh %r, live %r" % (k.split(".")[-1], after, k, a, b), step))
            for (what, obj, fp0, wseq) in tr["watch"]:
                for k, a, b in fp_diff(fp0, fingerprint(obj, with_voice=wseq), limit=2):
                    problems.append(("H-alias", "%s changed after %s although it was not touched: %s: was %r, is %r" % (what, after, k, a, b), step))
            return fresh

        for step, op in enumerate(hist["ops"]):
            if problems and stop_at_first:
                break
            tr = tracks.get(op["on"])
            if tr is None:
                continue
            kind = op["op"]
            try:
                if kind in ("save", "save_light"):
                    if kind == "save":
                        o = check_spec(tr["spec"], want_coq=False, scr=tr["scr"])
                        problems.extend((k, t, step) for k, t in o.problems)
                        data = o.data
                    else:
                        data = save_musicxml(tr["scr"])
                    fresh = state_check(tr, step, "save_musicxml")
                    if data is not None:
                        ref = save_musicxml(fresh)
                        key = json.dumps(tr["spec"], sort_keys=True)
                        if key in seen_states and seen_states[key] != ref:
                            problems.append(("H-process", "a freshly built score of the same state is written differently later in the process "
                                             "(- at step %d, + now): " % seen_step[key] + bytes_diff(seen_states[key], ref), step))
                        seen_states.setdefault(key, ref)
                        seen_step.setdefault(key, step)
                        if ref != data and seq_of(tr["spec"]):
                            problems.append(("H-bytes", "save_musicxml of the score object differs from save_musicxml of a freshly built score "
                                             "of its current state (- fresh, + live): " + bytes_diff(ref, data), step))
                        elif ref != data:
                            # voices have to be re-assigned: which note gets which free voice depends on the order in which
                            # simultaneous notes were added; the two files must denote the same score up to voice numbers
                            fa = fingerprint(load_musicxml(io.BytesIO(ref)), with_voice=False)
                            fb = fingerprint(load_musicxml(io.BytesIO(data)), with_voice=False)
                            for k, x, y in fp_diff(fa, fb, limit=2):
                                problems.append(("H-bytes", "the file written for the score object and the file written for a freshly built score of "
                                                 "its current state load as different scores: %s: fresh %r, live %r" % (k, x, y), step))
                        if kind == "save_light":
                            # O1 on the live object's bytes against the current spec
                            for ps, wp in zip(tr["spec"]["parts"], parse_written(data)):
                                got = interp_part_q(wp["measures"])
                                snd = merge_ties([(i["midi"], o_, d, i["stop"], i["start"]) for (_, o_, d, i) in got if i["midi"] >= 0])
                                if snd != expected_sounding(ps):
                                    problems.append(("O1", "part %s: written file denotes other sounding notes than the current state" % ps["id"], step))
                    if trace is not None:
                        trace.append((step, op, len(data or b"")))
                    if collect is not None and data is not None:
                        t = hist_terms(tr["scr"], data, tr["reg"])
                        collect.setdefault(op["on"], []).append(None if t is None else (t[0], t[1], set(tr["setitem"])))
                        tr["setitem"] = set()
                elif kind == "kinds":
                    scr = tr["scr"]
                    full = save_musicxml(scr)
                    buf = io.BytesIO()
                    if save_musicxml(scr, buf) is not None or buf.getvalue() != full:
                        problems.append(("H-kinds", "save_musicxml(score, file object) writes other bytes than save_musicxml(score) returns", step))
                    with tempfile.NamedTemporaryFile(suffix=".musicxml", delete=False) as f:
                        path = f.name
                    try:
                        save_musicxml(scr, path)
                        if open(path, "rb").read() != full:
                            problems.append(("H-kinds", "save_musicxml(score, path) writes other bytes than save_musicxml(score) returns", step))
                        seq = seq_of(tr["spec"])
                        a = fingerprint(load_musicxml(path), with_voice=seq)
                        b = fingerprint(load_musicxml(io.BytesIO(full)), with_voice=seq)
                        for k, x, y in fp_diff(a, b, limit=2):
                            problems.append(("H-kinds", "load_musicxml(path) and load_musicxml(file object) of the same bytes differ: %s: %r / %r" % (k, x, y), step))
                    finally:
                        os.unlink(path)
                    if not tr["plain"]:
                        other = save_musicxml(list(scr.part_structure))
                        if other != full:
                            problems.append(("H-kinds", "save_musicxml(list of the score's part structure) differs from save_musicxml(score) "
                                             "(- score, + list): " + bytes_diff(full, other), step))
                        if len(scr.part_structure) == 1:
                            other = save_musicxml(scr.part_structure[0])
                            if other != full:
                                problems.append(("H-kinds", "save_musicxml(the single Part / PartGroup) differs from save_musicxml(score) "
                                                 "(- score, + single): " + bytes_diff(full, other), step))
                    i = op.get("i", 0) % len(scr.parts)
                    fresh = state_check(tr, step, "save_musicxml")
                    one, ref = save_musicxml(scr.parts[i]), save_musicxml(fresh.parts[i])
                    if one != ref and voices_sequential(tr["spec"]["parts"][i]):
                        problems.append(("H-kinds", "save_musicxml(part %d of the score) differs from the same call on a freshly built score "
                                         "(- fresh, + live): " % i + bytes_diff(ref, one), step))
                    if save_musicxml(scr) != full:
                        problems.append(("H-bytes", "two consecutive save_musicxml calls on the same score return different bytes: "
                                         + bytes_diff(full, save_musicxml(scr)), step))
                elif kind == "load_twice":
                    data = save_musicxml(tr["scr"])
                    seq = seq_of(tr["spec"])
                    a, b = load_musicxml(io.BytesIO(data)), load_musicxml(io.BytesIO(data))
                    fa, fb = fingerprint(a, with_voice=seq), fingerprint(b, with_voice=seq)
                    for k, x, y in fp_diff(fa, fb, limit=2):
                        problems.append(("H-alias", "two load_musicxml calls on the same bytes return different scores: %s: %r / %r" % (k, x, y), step))
                    scramble(a, S)
                    for k, x, y in fp_diff(fb, fingerprint(b, with_voice=seq), limit=2):
                        problems.append(("H-alias", "editing one loaded score changed another score loaded from the same bytes: %s: was %r, is %r" % (k, x, y), step))
                    c = load_musicxml(io.BytesIO(data))
                    for k, x, y in fp_diff(fb, fingerprint(c, with_voice=seq), limit=2):
                        problems.append(("H-alias", "load_musicxml after an earlier result was edited returns another score for the same bytes: "
                                         "%s: first %r, now %r" % (k, x, y), step))
                    tr["watch"] = [("a score returned by an earlier load_musicxml", b, fb, seq)]
                    state_check(tr, step, "load_musicxml + editing its result")
                elif kind == "adopt":
                    if tr["plain"] or not seq_of(tr["spec"]):
                        continue
                    tr["scr"] = load_musicxml(io.BytesIO(save_musicxml(tr["scr"])))
                    tr["adopted"] = True
                    # a loaded note holds the <type> that was written for it: symbolic durations that were estimates so far
                    # are explicit from here on (O2 of the observations before compared them)
                    for ps, part in zip(tr["spec"]["parts"], tr["scr"].parts):
                        byid = {n.id: n for n in part.iter_all(S.GenericNote, include_subclasses=True)}
                        for o in ps["objs"]:
                            n = byid.get(o.get("id"))
                            if n is not None and o["k"] in ("note", "unp", "rest", "grace") and not o.get("sym"):
                                sd = n.symbolic_duration
                                if isinstance(sd, dict):
                                    o["sym"] = {k: _py(v) for k, v in sd.items() if k in ("type", "dots", "actual_notes", "normal_notes") and v}
                                    o["sym"].setdefault("type", None)     # no <type> was written: explicitly none from here on
                else:
                    if kind == "replace_part" and tr["plain"]:
                        op = dict(op, plain=True)     # part_structure already holds a replaced part: Score.__setitem__ alone
                    a = edit_live(tr["scr"], op, S)
                    b = edit_spec(tr["spec"], op)
                    if a != b:
                        problems.append(("H-state", "edit %s: target found in the %s only" % (kind, "score object" if a else "spec"), step))
                    if kind == "replace_part" and a and op.get("plain"):
                        tr["plain"] = True
                        tr["setitem"].add(op["i"])
            except AliasError as ex:
                problems.append(("H-alias", str(ex), step))
            except Exception as ex:
                import traceback
                problems.append(("H-raise", "%s at step %d (%s) raised %s: %s | %s" % (kind, step, op.get("on"), type(ex).__name__, ex,
                                                                                      traceback.format_exc().strip().splitlines()[-3].strip()), step))
    return problems


def hist_signature(kind, text):
    if kind == "O2":
        return signature(kind, text)
    if kind == "H-state":
        return kind + ":" + text.split(" ")[0]
    return kind


def shrink_history(hist, kind, text, budget=25.0, step=None):
    """shorter op sequence, fewer tracks, fewer objects with the same failure signature (CPU-time guarded)"""
    import time
    sig = hist_signature(kind, text)
    t0 = time.process_time()

    def fails(h):
        if time.process_time() - t0 > budget:
            return False
        try:
            return any(hist_signature(k, t) == sig for k, t, _ in run_history(h))
        except Exception:
            return False

    h = json.loads(json.dumps(hist))
    first = next((st for k, t, st in run_history(h) if hist_signature(k, t) == sig), None)
    if first is None:
        # not reproducible inside this process (the first run changed module-level state for good): keep the ops up to
        # the step that failed and the tracks they use; a replay in a fresh process shows it again
        if step is not None and step >= 0:
            h["ops"] = h["ops"][:step + 1]
            used = {op["on"] for op in h["ops"]}
            h["specs"] = {k: v for k, v in h["specs"].items() if k in used}
        return h
    if first >= 0:
        h["ops"] = h["ops"][:first + 1]
    h["ops"] = core.ddmin(h["ops"], lambda sub: fails(dict(h, ops=sub)))
    for name in list(h["specs"]):
        if len(h["specs"]) > 1:
            c = dict(h, specs={k: v for k, v in h["specs"].items() if k != name})
            if fails(c):
                h = c
    for name in list(h["specs"]):
        sp = h["specs"][name]
        for pi in range(len(sp["parts"])):
            def with_objs(objs, pi=pi, name=name):
                c = json.loads(json.dumps(h))
                c["specs"][name]["parts"][pi]["objs"] = objs
                return c
            objs = core.ddmin(sp["parts"][pi]["objs"], lambda sub: fails(with_objs(sub)))
            if fails(with_objs(objs)):
                h = with_objs(objs)
                sp = h["specs"][name]
    return h


def history_stream(ctx, n, hcases):
    import time
    nviol = 0
    shrink_cpu = 0.0
    for i in range(n):
        hist = gen_history(ctx.rng)
        collect = {}
        probs = run_history(hist, collect=collect)
        if not probs:
            for name in sorted(collect):
                c = hist_case(collect[name])
                if c is None:
                    ctx.count("history:tracks_without_coq_case")
                else:
                    hcases.append((hist, name, c))
        ctx.evaluations += 1
        ctx.count("history:histories")
        for op in hist["ops"]:
            ctx.count("history:op:" + op["op"] + (":plain" if op.get("plain") else "") + (":" + op["field"] if op["op"] == "note_attr" else "")
                      + (":" + op["k"] if op["op"] == "obj_attr" else ""))
        ctx.nontrivial("H" + json.dumps(hist, sort_keys=True))
        if i < 1:
            ctx.sample({"history_ops": [{k: v for k, v in op.items() if k != "part" or not isinstance(v, dict)} for op in hist["ops"]]})
        seen = []
        for k, txt, step in probs:
            if k == "build":
                ctx.count("generator:rejected_by_api")
                continue
            if k in seen:
                continue
            seen.append(k)
            if nviol < 6:
                t0 = time.process_time()
                small = shrink_history(hist, k, txt, budget=25.0 if shrink_cpu < 60 else 0.0, step=step)
                shrink_cpu += time.process_time() - t0
                p2 = run_history(small)
                k2, txt2, st2 = next(((kk, t, st) for kk, t, st in p2 if hist_signature(kk, t) == hist_signature(k, txt)), (k, txt, step))
                note = ""
                if nviol < 3:
                    fr = None
                    try:
                        fr = Fresh()
                        if not any(hist_signature(a, b) == hist_signature(k, txt) for a, b, _ in fr.ask({"hist": small})):
                            if any(hist_signature(a, b) == hist_signature(k, txt) for a, b, _ in fr.ask({"hist": hist})):
                                small, note = hist, " [not shrunk: only the whole history reproduces from a fresh interpreter state]"
                            else:
                                note = (" [NOT reproduced by this history alone in a fresh interpreter: it depends on what ran earlier in "
                                        "the checking process (state kept at module level); the sequence replays give such orders]")
                    except Exception as ex:
                        note = " [fresh-interpreter confirmation not available: %r]" % (ex,)
                    finally:
                        if fr is not None:
                            fr.close()
                r = ctx.violation("history (%d ops, failing at step %d): %s: %s%s" % (len(small["ops"]), st2, k2, txt2, note),
                                  {"kind": "history", "what": "%s: %s" % (k2, txt2), "history": small})
                if r != "known":
                    nviol += 1
    ctx.log("phase: %d histories (call / edit / call again on two interleaved scores) done" % n)


# ---------------------------------------------------------------------------------------------


# ---------------------------------------------------------------------------------------------
# SEQUENCES: several small scores through one process, texts drawn from one family of case / whitespace / prefix variants.
# What the library keeps at MODULE level between two parses (a memo of parse results, a table filled on the way) shows as a
# later score / file coming back with what an earlier one said.  Every observation is judged against the spec of the score
# at hand (check_spec: O1-O3).  Failures are shrunk in a FRESH interpreter state per candidate (fork of a server that has
# imported the library and never called it), because in the checking process the state is already filled.


def gen_sequence(rng):
    fam = rng.choice(TEXT_FAMILIES)
    scores = []
    for i in range(rng.randint(2, 4)):
        nm = rng.randint(1, 2)
        spec = simple_spec([(16 * m, 16 * (m + 1), 1) for m in range(nm)], q0=4, end=16 * nm,
                           measures=[[16 * m, 16 * (m + 1), m + 1, str(m + 1)] for m in range(nm)])
        pool = fam if rng.random() < 0.8 else fam + rng.choice(TEXT_FAMILIES)
        objs = []
        for text in rng.sample(pool, rng.randint(1, min(3, len(pool)))):
            o = {"k": "dir", "kind": "words", "t": rng.choice([0, 4, 8, 12] + ([16, 24] if nm > 1 else [])), "text": text}
            if is_dashable(text) and rng.random() < 0.3 and not any(x.get("e") for x in objs):
                o["e"] = 16 * nm
            objs.append(o)
        if rng.random() < 0.3:
            objs.append({"k": "dir", "kind": "dyn", "t": rng.choice([0, 8]), "text": rng.choice(["p", "f", "pp"])})
        if rng.random() < 0.3:
            objs.append({"k": "tempo", "t": 0, "bpm": rng.choice([60, 96, 120])})
        scores.append(with_objs(spec, objs))
    order = list(range(len(scores)))
    rng.shuffle(order)
    ops = [["rt", i] for i in order]
    for _ in range(rng.randint(1, 3)):
        ops.append([rng.choice(["rt", "load", "loadpath"]), rng.randrange(len(scores))])
    return {"kind": "sequence", "scores": scores, "ops": ops}


def ctext(t):
    return clist([cz(ord(c)) for c in t])


def text_obs(data, scr2):
    """(texts of the <words> elements of a file in document order, raw texts of the directions load_musicxml made of it)"""
    import lxml.etree as ET
    import partitura.score as S
    words = [w.text or "" for w in ET.fromstring(data).iter("words")]
    raws = [d.raw_text for p in scr2.parts for d in p.iter_all(S.Direction, include_subclasses=True) if d.raw_text is not None]
    return words, raws


def run_sequence(seq, stop_at_first=True, collect=None):
    """-> [(kind, text, step)].  rt: build / save / independent reader / load / fingerprint / save again (check_spec) on score i;
    load, loadpath: the file score i was written to earlier in the sequence (written now when it was not) is loaded again from
    memory / from a path and must give the score of spec i and the same bytes when saved."""
    import tempfile
    from partitura import save_musicxml, load_musicxml
    probs, saved = [], {}
    for st, (op, i) in enumerate(seq["ops"]):
        if i >= len(seq["scores"]):
            continue
        spec = seq["scores"][i]
        with warnings.catch_warnings():
            warnings.simplefilter("ignore")
            try:
                if op == "rt":
                    o = check_spec(spec, want_coq=False)
                    for k, t in o.problems:
                        if k != "build":
                            probs.append((k, t, st))
                    if o.data is not None:
                        saved.setdefault(i, o.data)
                        if collect is not None and o.loaded is not None:
                            collect.append(text_obs(o.data, o.loaded))
                else:
                    scr = build(spec)
                    if i not in saved:
                        saved[i] = save_musicxml(scr)
                    if op == "load":
                        scr2 = load_musicxml(io.BytesIO(saved[i]))
                    else:
                        with tempfile.NamedTemporaryFile(suffix=".musicxml", delete=False) as f:
                            f.write(saved[i])
                        try:
                            scr2 = load_musicxml(f.name)
                        finally:
                            os.unlink(f.name)
                    if collect is not None:
                        collect.append(text_obs(saved[i], scr2))
                    for k, a, b in fp_diff(fingerprint(scr), fingerprint(scr2)):
                        probs.append(("O2", "%s: the score states %r, the file written for it loads as %r" % (k, a, b), st))
                    d2 = save_musicxml(scr2)
                    if d2 != saved[i]:
                        probs.append(("O3", "save(load(file)) differs from the file: " + bytes_diff(saved[i], d2), st))
            except Exception as ex:
                probs.append(("harness", "%s on score %d raised %s: %s" % (op, i, type(ex).__name__, ex), st))
        if probs and stop_at_first:
            break
    return probs


def seq_merge(seqs):
    scores, ops = [], []
    for q in seqs:
        off = len(scores)
        scores += q["scores"]
        ops += [[op, i + off] for op, i in q["ops"]]
    return {"kind": "sequence", "scores": scores, "ops": ops}


def _fresh_server():
    """child side of Fresh: imports the library, never calls it; every request runs in a fork of that state"""
    import resource
    core.setup_import_path()
    import partitura  # noqa
    import partitura.score  # noqa
    sys.stdout.write("ready\n")
    sys.stdout.flush()
    for line in sys.stdin:
        line = line.strip()
        if not line:
            continue
        rfd, wfd = os.pipe()
        pid = os.fork()
        if pid == 0:
            os.close(rfd)
            try:
                resource.setrlimit(resource.RLIMIT_CPU, (40, 40))   # CPU-time guard
                req = json.loads(line)
                if "seq" in req:
                    out = json.dumps([list(f) for f in run_sequence(req["seq"])])
                elif "hist" in req:
                    out = json.dumps([list(f) for f in run_history(req["hist"], stop_at_first=False) if f[0] != "build"])
                else:
                    o = check_spec(req["spec"], want_coq=False)
                    out = json.dumps([[k, t, 0] for k, t in o.problems if k != "build"])
            except BaseException as e:   # noqa
                out = json.dumps({"server_error": "%s: %s" % (type(e).__name__, e)})
            with os.fdopen(wfd, "w") as w:
                w.write(out)
            os._exit(0)
        os.close(wfd)
        with os.fdopen(rfd) as r:
            data = r.read()
        os.waitpid(pid, 0)
        sys.stdout.write((data or json.dumps({"server_error": "child died"})) + "\n")
        sys.stdout.flush()


class Fresh:
    """run_sequence / check_spec in the module state right after import"""

    def __init__(self):
        import subprocess
        hdir = os.path.dirname(os.path.dirname(os.path.abspath(__file__)))
        code = "import sys; sys.path.insert(0, %r); import core; from props import c03; c03._fresh_server()" % hdir
        self.p = subprocess.Popen([sys.executable, "-c", code], stdin=subprocess.PIPE, stdout=subprocess.PIPE,
                                  stderr=subprocess.DEVNULL, text=True)
        first = self.p.stdout.readline().strip()
        if first != "ready":
            raise RuntimeError("fresh interpreter did not start: %r" % first)
        self.calls = 0

    def ask(self, req):
        self.calls += 1
        self.p.stdin.write(json.dumps(req) + "\n")
        self.p.stdin.flush()
        out = json.loads(self.p.stdout.readline())
        if isinstance(out, dict):
            raise RuntimeError(out["server_error"])
        return [tuple(f) for f in out]

    def close(self):
        try:
            self.p.stdin.close()
            self.p.wait(timeout=10)
        except Exception:
            self.p.kill()


def shrink_sequence(seq, kind, text, earlier, fresh, max_calls=160):
    """ddmin over the ops, then over the scores' objects, each candidate from a FRESH interpreter state.  When the sequence
    alone does not fail from a fresh state the sequences that ran before it are put in front.  -> (sequence, problems, note)"""
    sig = hist_signature(kind, text)
    try:
        for cand in [seq] + ([seq_merge(list(earlier) + [seq])] if earlier else []):
            f0 = fresh.ask({"seq": cand})
            if not any(hist_signature(k, t) == sig for k, t, _ in f0):
                continue
            start = fresh.calls

            def fails(c):
                if fresh.calls - start > max_calls:
                    return False
                try:
                    return any(hist_signature(k, t) == sig for k, t, _ in fresh.ask({"seq": c}))
                except Exception:
                    return False
            cur = cand
            if len(cur["ops"]) > 1:
                cur = dict(cur, ops=[list(o) for o in core.ddmin(cur["ops"], lambda sub: fails(dict(cur, ops=[list(o) for o in sub])))])
            used = sorted({i for _, i in cur["ops"]})
            cur = {"kind": "sequence", "scores": [cur["scores"][i] for i in used], "ops": [[op, used.index(i)] for op, i in cur["ops"]]}
            for si in range(len(cur["scores"])):
                objs = cur["scores"][si]["parts"][0]["objs"]
                keep = [o for o in objs if o["k"] in ("ts", "note")]
                rest = [o for o in objs if o["k"] not in ("ts", "note")]

                def with_rest(sub, si=si, keep=keep):
                    c = json.loads(json.dumps(cur))
                    c["scores"][si]["parts"][0]["objs"] = keep + [dict(o) for o in sub]
                    return c
                if rest:
                    if fails(with_rest([])):
                        cur = with_rest([])
                    elif len(rest) > 1:
                        cur = with_rest(core.ddmin(rest, lambda sub: fails(with_rest(sub))))
            return cur, fresh.ask({"seq": cur}) or f0, "shrunk in a fresh interpreter state per candidate"
        return seq, None, ("NOT reproduced from a fresh interpreter state, alone or after the %d sequences before it: it depends "
                           "on what else ran earlier in the checking process" % len(earlier))
    except Exception as e:
        return seq, None, "not shrunk: %r" % (e,)


def sequence_stream(ctx, n, tcases=None):
    rng = random.Random(ctx.seed * 7919 + 3)      # own stream: the one-shot stream drawn from ctx.rng stays as it is
    seqs = [gen_sequence(rng) for _ in range(n)]
    fresh, nviol, seen, done = None, 0, set(), []
    try:
        for q in seqs:
            col = []
            probs = run_sequence(q, collect=col)
            if not probs and tcases is not None and col:
                tcases.append((q, clist([ctuple([clist([ctext(t) for t in w]), clist([ctext(t) for t in r])]) for w, r in col])))
            ctx.evaluations += 1
            ctx.count("sequence:sequences")
            ctx.count("sequence:scores", len(q["scores"]))
            for op, _ in q["ops"]:
                ctx.count("sequence:op_" + op)
            texts = [o["text"] for sp in q["scores"] for o in sp["parts"][0]["objs"] if o["k"] == "dir" and o.get("kind") == "words"]
            low = [" ".join(t.lower().split()) for t in texts]
            if len(set(low)) < len(set(texts)):
                ctx.count("sequence:with_texts_equal_up_to_case_or_whitespace")
            if any(a != b and b.startswith(a) for a in set(low) for b in set(low)):
                ctx.count("sequence:with_a_text_that_is_a_prefix_of_another")
            ctx.nontrivial("seq:" + json.dumps(q, sort_keys=True))
            for k, t, st in probs:
                sg = hist_signature(k, t)
                if sg in seen or nviol >= 4:
                    continue
                seen.add(sg)
                fresh = fresh or Fresh()
                small, f, note = shrink_sequence(q, k, t, done, fresh)
                kk, tt, st2 = next(((a, b, c) for a, b, c in (f or []) if hist_signature(a, b) == sg), (k, t, st))
                r = ctx.violation("sequence of %d score(s) in one process, step %d (%s score %d): %s: %s [%s]" % (
                    len(small["scores"]), st2, small["ops"][st2][0] if st2 < len(small["ops"]) else "?",
                    small["ops"][st2][1] if st2 < len(small["ops"]) else -1, kk, tt, note),
                    {"kind": kk, "what": tt, "sequence": small})
                if r != "known":
                    nviol += 1
            done.append(q)
    finally:
        if fresh is not None:
            fresh.close()
    ctx.log("phase: %d sequences of small scores with texts of one family (case / whitespace / prefix variants) done" % len(seqs))
    return nviol


def features_of(spec):
    f = set()
    for ps in spec["parts"]:
        ks = [o["k"] for o in ps["objs"]]
        for o in ps["objs"]:
            if o["k"] == "harm":
                f.add("harmony:" + o["kind"] + (" with bass" if o.get("bass") else ""))
        for k in ("grace", "tie", "slur", "tuplet", "rest", "unp", "dir", "tempo", "repeat", "ending", "bferm", "harm", "print", "staffdet"):
            if k in ks:
                f.add(k)
        for o in ps["objs"]:
            if o["k"] == "dir":
                f.add("dir:" + o["kind"] + ("+dashes" if o["kind"] == "words" and o.get("e") is not None else ""))
            if o["k"] == "tie" and o.get("x"):
                f.add("tie between any two notes (other voice / chord member)")
            if o.get("sym") and o["k"] != "grace":
                f.add("explicit symbolic duration" + (" with dots" if o["sym"].get("dots") else "") + (" with tuplet ratio" if o["sym"].get("actual_notes") else ""))
        if sum(1 for o in ps["objs"] if o["k"] == "repeat") > 1:
            f.add("two repeats")
        if ps["nstaves"] > 2:
            f.add("three staves")
        if ps["qchanges"]:
            f.add("divchange")
            ms = {m[0] for m in ps["measures"]}
            if any(t not in ms for t, q in ps["qchanges"]):
                f.add("mid-measure divchange")
            for m in ps["measures"]:
                inside = [q for t, q in ps["qchanges"] if m[0] < t < m[1]]
                if len(inside) >= 2:
                    f.add("two divchanges in one measure")
                    qs_at = [q for t, q in [(0, ps["q0"])] + [tuple(x) for x in ps["qchanges"]] if t <= m[0]]
                    if qs_at and inside[-1] == qs_at[-1] and len({o.get("voice") for o in ps["objs"] if "voice" in o}) > 1:
                        f.add("divisions A -> B -> A in one measure, several voices")
        if ps["poly"]:
            f.add("poly")
        if len({o.get("voice") for o in ps["objs"] if "voice" in o}) > 1:
            f.add("multi-voice")
        if ps["nstaves"] > 1:
            f.add("two staves")
    if len(spec["parts"]) > 1:
        f.add("multi-part")
    if any(isinstance(x, dict) for x in spec["struct"]):
        f.add("groups")

        def depth(n):
            return 0 if not isinstance(n, dict) else 1 + max([depth(c) for c in n["g"]] + [0])
        f.add("groups nested %d deep" % max(depth(n) for n in spec["struct"]))
        if sum(1 for x in spec["struct"] if isinstance(x, dict)) > 1:
            f.add("sibling groups")
    return f


def nopoint_changes(ps):
    """divisions changes strictly inside a measure at a time where the part has no time point"""
    times = {0, ps["end"]}
    for m in ps["measures"]:
        times.update(m[:2])
    for o in ps["objs"]:
        for k in ("t", "e"):
            if o.get(k) is not None:
                times.add(o[k])
    return [t for t, q in ps["qchanges"] if t not in times]


def overlapping_ranges(ps):
    r = [(o["t"], o["e"]) for o in ps["objs"] if o["k"] == "dir" and o.get("e") is not None]
    return any(a < d and c < b for i, (a, b) in enumerate(r) for (c, d) in r[i + 1:])


def register_matchers(ctx):
    def spec_parts(r):
        return (r.get("spec") or {}).get("parts", [])

    # K1: score.Words (a text direction the parser does not recognise) is never written
    ctx.matchers["C03-K1"] = lambda r: (r.get("kind") == "O2" and ".words:" in r.get("what", "") and "after load []" in r.get("what", "")
                                        and any(o["k"] == "dir" and o.get("text") == "spaghetti" for ps in spec_parts(r) for o in ps["objs"]))
    # K3: fermata on the right barline of a measure that is not the last: written on both sides, so it comes back
    # twice at its time, once as 'left' and once as 'right' (O2), and the second save writes one <fermata/> more (O3)

    def k3_times(r):
        return [o["t"] for ps in spec_parts(r) for o in ps["objs"]
                if o["k"] == "bferm" and o["ref"] == "right" and o["t"] != ps["end"]]

    def k3(r):
        what = r.get("what", "")
        if r.get("kind") == "O2" and ".barline_fermatas:" in what and "after load" in what:
            after = what.split("after load", 1)[1]
            return any("(%d, 'left')" % t in after and "(%d, 'right')" % t in after for t in k3_times(r))
        if r.get("kind") == "O3":
            return bool(k3_times(r)) and "+        <fermata/>" in what and "| -" not in what.split("@@", 1)[-1].replace("| -->", "")
        return False

    ctx.matchers["C03-K3"] = k3


def simple_spec(notes, q0=4, end=16, qchanges=(), measures=None):
    """hand-written / enumerated one-part spec; notes = [(t, e, voice)] (pitches differ per note)"""
    objs = [{"k": "ts", "t": 0, "beats": 4, "bt": 4}]
    for i, (t, e, v) in enumerate(notes):
        objs.append({"k": "note", "id": "n%d" % (i + 1), "t": t, "e": e, "step": STEPS[i % 7], "alter": None,
                     "oct": 3 + (i // 7), "voice": v, "staff": 1})
    return {"parts": [{"id": "P1", "name": "P", "abbr": None, "q0": q0, "qchanges": [list(x) for x in qchanges],
                       "measures": measures or [[0, end, 1, "1"]], "objs": objs, "nstaves": 1,
                       "poly": True, "end": end}], "struct": [0]}


def with_objs(spec, objs):
    spec["parts"][0]["objs"] += objs
    return spec


def corpus_specs():
    """witnesses of the repaired defects and the cases the property text singles out"""
    return [
        simple_spec([(0, 16, 1), (0, 4, 2), (8, 12, 2)]),                              # D05: gap in voice 2
        simple_spec([(0, 4, 1), (16, 20, 1)], end=32, measures=[[0, 16, 1, "1"], [16, 32, 2, "2"]]),   # trailing gap: extent
        simple_spec([(0, 4, 1), (8, 24, 1), (4, 6, 2), (16, 24, 2)], end=24, qchanges=[(8, 8)]),       # mid-measure divisions, voice 2 ends early
        simple_spec([(0, 8, 1), (0, 4, 1), (4, 8, 1), (2, 6, 1)], end=8),                          # in-voice polyphony
        simple_spec([(4, 8, 3), (12, 16, 3)]),                                                 # only voice 3, leading gap
        simple_spec([], end=16),                                                               # empty measure
        # 83f0338: divisions change at 6, where nothing starts or ends; voice 2 has a note before it
        simple_spec([(0, 1, 1), (0, 1, 2), (12, 16, 2)], q0=4, end=16, qchanges=[(6, 8)]),
        # a7ec407: sustain pedal over the barline (line) and inside a measure (sign)
        with_objs(simple_spec([(0, 16, 1), (16, 32, 1)], end=32, measures=[[0, 16, 1, "1"], [16, 32, 2, "2"]]),
                  [{"k": "dir", "kind": "pedal", "t": 4, "e": 20, "line": True}, {"k": "dir", "kind": "pedal", "t": 24, "e": 28, "line": False}]),
        # a5e2056: two overlapping wedges, the first crossing the barline
        with_objs(simple_spec([(0, 16, 1), (16, 32, 1)], end=32, measures=[[0, 16, 1, "1"], [16, 32, 2, "2"]]),
                  [{"k": "dir", "kind": "wedge_c", "t": 0, "e": 20}, {"k": "dir", "kind": "wedge_d", "t": 18, "e": 30}]),
        # nested slurs over a barline; part groups nested two deep with a sibling after the inner group
        with_objs(simple_spec([(0, 8, 1), (8, 16, 1), (16, 24, 1), (24, 32, 1)], end=32, measures=[[0, 16, 1, "1"], [16, 32, 2, "2"]]),
                  [{"k": "slur", "a": "n1", "b": "n4"}, {"k": "slur", "a": "n2", "b": "n3"}]),
        # 3cf8bcb / 5adf9ae: a cadence (with and without a roman numeral at its time) and a chord symbol with a bass note
        with_objs(simple_spec([(0, 16, 1), (16, 32, 1)], end=32, measures=[[0, 16, 1, "1"], [16, 32, 2, "2"]]),
                  [{"k": "harm", "kind": "cadence", "t": 4, "text": "PAC"}, {"k": "harm", "kind": "roman", "t": 20, "text": "V7"},
                   {"k": "harm", "kind": "cadence", "t": 20, "text": "HC"},
                   {"k": "harm", "kind": "chord", "t": 8, "root": "C", "ckind": "major", "bass": "E"}]),
        # 8d7c683: staff details; a new page (hence system) at the second measure
        with_objs(simple_spec([(0, 16, 1), (16, 32, 1)], end=32, measures=[[0, 16, 1, "1"], [16, 32, 2, "2"]]),
                  [{"k": "staffdet", "t": 0, "number": 1, "lines": 4}, {"k": "print", "t": 16, "page": True}]),
        # a slur and a tuplet from a note of voice 2 to a later note of voice 1: their stops are written before their starts;
        # a second slur overlapping the first without nesting
        with_objs(simple_spec([(0, 8, 1), (8, 16, 1), (0, 4, 2), (4, 16, 2)]),
                  [{"k": "slur", "a": "n3", "b": "n2"}, {"k": "slur", "a": "n1", "b": "n4"},
                   {"k": "tuplet", "a": "n3", "b": "n2", "an": 3, "nn": 2, "at": "eighth", "nt": "eighth"}]),
    ]


def exhaustive_specs():
    """small scope, complete: every set of 1..3 notes on a 4-tick measure in 2 voices"""
    import itertools
    kinds = [(t, e, v) for t in range(4) for e in range(t + 1, 5) for v in (1, 2)]
    for k in (1, 2, 3):
        for combo in itertools.combinations(kinds, k):
            yield simple_spec(list(combo), q0=2, end=4)


def run(ctx):
    ctx.rule = ("Scores are built through the public score API from a random JSON spec (1-5 parts, part groups nested up to three "
                "deep, 1-3 staves, 1-4 voices with gaps, chords incl. unequal durations, mid-measure division/signature/clef changes, "
                "pickup and irregular measures, tie chains over barlines, nested/overlapping slurs and tuplets over any voices, grace "
                "runs, directions incl. overlapping wedges/dashes and pedals, tempo, repeats/endings, fermatas, harmony elements, new "
                "systems/pages, staff details), saved, read by the independent interpreter, loaded and saved again.  One evaluation = "
                "one score; distinct non-trivial = distinct specs that contain more than one voice or a gap/chord/grace/tie/division change.  "
                "A quarter of the scores are built from numpy integers (int64 / int32) or with float tempi.  HISTORY stream: two scores "
                "interleaved in one process; call (save_musicxml on Score / list / Part / PartGroup / to a file object / to a path, "
                "load_musicxml from bytes and from a path, twice) -> edit (Part.add / remove, set_quarter_duration, in-place attribute, "
                "list and dict edits, score[i] = part with and without the part structure, adopting the loaded score) -> call again; every "
                "observation is judged against the JSON spec of the CURRENT state only (O1-O3, fingerprint and bytes of a freshly built "
                "score, objects returned earlier unchanged).  One evaluation = one history.")
    ctx.trusted = ["Coq 8.16.1 kernel incl. vm_compute", "lxml parsing of the written bytes into the model's element type (harness/props/c03.py: parse_written)",
                   "the score builder and the canonical fingerprint in harness/props/c03.py", "Part.iter_all order as the model's input order of the notes of a segment",
                   "the extraction of the slur/tuplet/wedge/dashes events and of the part-list tokens from the score and the written file (range_cases, wedge_cases, group_case)"]
    ctx.assumptions = ["generated notes carry unique ids, positive voices and staves; no note crosses a barline or a change of divisions",
                       "voices are compared by O2 only for scores whose voices are sequential (otherwise the exporter must re-assign; the new voices are checked against the model)"]
    register_matchers(ctx)
    ok, why = ctx.coq_props(expect_min=54)
    ctx.log("phase: Props/C03.v built and checked")
    tcases = []
    nviol_seq = sequence_stream(ctx, 40 if ctx.tier == "quick" else 500, tcases)
    n_scores = 320 if ctx.tier == "quick" else 3000
    mcases, pcases, gcases, rcases, wcases, ticases = [], [], [], [], [], []
    nviol = 0
    fresh, fresh_checks = None, 0
    fixed = corpus_specs()
    if ctx.tier != "quick":
        fixed += list(exhaustive_specs())
        ctx.extra["exhaustive_note"] = ("small scope enumerated completely in the thorough tier: every set of 1..3 notes "
                                        "(onset 0..3, end <= 4, voice 1..2) in one 4-tick measure: %d scores" % (len(fixed) - len(corpus_specs())))
    ctx.count("corpus+enumerated", len(fixed))
    for i in range(len(fixed) + n_scores):
        spec = fixed[i] if i < len(fixed) else gen_spec(ctx.rng)
        if i >= len(fixed) and ctx.rng.random() < 0.25:
            # the numbers reach the score API as numpy integers of one width / the tempo as a float: same score, same file
            spec["kinds"] = ctx.rng.choice(["np64", "np32", "fbpm", "ftime"])
            ctx.count("kinds:" + spec["kinds"])
        o = check_spec(spec)
        ctx.evaluations += 1
        feats = features_of(spec)
        for f in feats:
            ctx.count("feature:" + f)
        if feats & {"multi-voice", "grace", "tie", "divchange", "poly"}:
            ctx.nontrivial(json.dumps(spec, sort_keys=True))
        if len(fixed) <= i < len(fixed) + 2:
            ctx.sample({"spec_part0_objs": spec["parts"][0]["objs"][:6], "measures": spec["parts"][0]["measures"]})
        kinds = []
        for k, txt in o.problems:
            if k == "build":
                ctx.count("generator:rejected_by_api")
                continue
            if k in kinds:
                continue
            kinds.append(k)
            if nviol < 12:
                small = shrink(spec, k, txt)
                o2 = check_spec(small, want_coq=False)
                txt2 = next((t for kk, t in o2.problems if signature(kk, t) == signature(k, txt)), txt)
                note = ""
                if fresh_checks < 6:
                    # in this process module-level state is filled by the scores before: does the shrunk score fail on its own?
                    fresh_checks += 1
                    try:
                        fresh = fresh or Fresh()
                        sg = signature(k, txt)
                        if not any(signature(a, b) == sg for a, b, _ in fresh.ask({"spec": small})):
                            if any(signature(a, b) == sg for a, b, _ in fresh.ask({"spec": spec})):
                                small = shrink(spec, k, txt, check=lambda sp: fresh.ask({"spec": sp}))
                                txt2 = next((b for a, b, _ in fresh.ask({"spec": small}) if signature(a, b) == sg), txt)
                                note = " [shrunk in a fresh interpreter state per candidate: the in-process shrink depended on scores checked before]"
                            else:
                                note = (" [NOT reproduced by this score alone in a fresh interpreter: the failure depends on what ran earlier "
                                        "in the checking process (state kept at module level); the sequence replays give such orders]")
                    except Exception as ex:
                        note = " [fresh-interpreter confirmation not available: %r]" % (ex,)
                r = ctx.violation("%s: %s%s" % (k, txt2, note), {"kind": k, "what": txt2, "spec": small})
                if r != "known":
                    nviol += 1
        if o.unlisted_diffs:
            ctx.count("not judged: scores where an attribute the statement does not list (notehead, grace type, grace-run link) differs after load")
        if o.unaligned:
            ctx.count("coq:parts_without_measure_cases (written measures/divisions segments not alignable with the score)", o.unaligned)
        if not o.problems:
            if o.group_case is not None:
                gcases.append((spec, o.group_case))
            rcases.extend((spec, pid, kind, c) for (pid, kind, c) in o.range_cases)
            wcases.extend((spec, pid, lab, c) for (pid, lab, c) in o.wedge_cases)
            ticases.extend((spec, pid, c) for (pid, c) in o.tie_cases)
            for st in o.tie_stats:
                ctx.count("ties:" + st)
            for st in o.range_stats:
                ctx.count("ranges:" + st)
            mcases.extend((spec, pid, mi, c) for (pid, mi, c) in o.measure_cases)
            pcases.extend((spec, pid, c) for (pid, c) in o.part_cases)
    if fresh is not None:
        fresh.close()
    ctx.log("phase: %d scores through save/load/save and the direct oracles done" % ctx.evaluations)
    hcases = []
    history_stream(ctx, 36 if ctx.tier == "quick" else 400, hcases)
    ctx.count("coq:measure_cases", len(mcases))
    ctx.count("coq:part_cases", len(pcases))
    if ok:
        imp = "From PV Require Import Model.C03 Model.C03_Imp."
        try:
            both = ctx.coq_failing("meas", imp, "", [c for (_, _, _, c) in mcases], "check_measure_all", shard=260)
            # separate the questions on the cases where the conjunction is false
            spec_local = ctx.coq_failing("measspec", imp, "", [mcases[i][3] for i in both], "spec_measure_b", shard=260) if both else []
            imp_local = ctx.coq_failing("measimp", imp, "", [mcases[i][3] for i in both], "imp_measure_b", shard=260) if both else []
            mod_local = ctx.coq_failing("measmod", imp, "", [mcases[i][3] for i in both], "check_measure", shard=260) if both else []
            hyp_local = ctx.coq_failing("meashyp", imp, "", [mcases[i][3] for i in both], "imp_hyp_b", shard=260) if both else []
        except RuntimeError as ex:
            both = None
            ctx.obligation("correspondence (a): model evaluation", False, str(ex)[-800:])
            ctx.violation("Coq could not evaluate the model on the measure cases: " + str(ex)[-600:], {"error": str(ex)[-1500:]}, no_input=True)
        if both is not None:
            spec_fail = [both[j] for j in spec_local]
            imp_fail = [both[j] for j in imp_local if both[j] not in set(spec_fail)]
            drift = [both[j] for j in mod_local if both[j] not in set(spec_fail)]
            ctx.obligation("correspondence (a-spec): the Coq reader interp places every note of the score's measure at its onset with its "
                           "duration and ends at the measure end, on the written stream of %d measures (spec_measure_b)" % len(mcases),
                           not spec_fail, spec_fail[:5])
            for i in spec_fail[:4]:
                spec, pid, mi, c = mcases[i]
                ctx.violation("O1 (Coq reader, one measure): read by the independent interpreter the written measure index %d of part %s does "
                              "not place the score's notes at their onsets with their durations / does not have the measure's extent" % (mi, pid),
                              {"kind": "O1-coq-measure", "part": pid, "measure_index": mi, "spec": spec, "coq_case": c[:4000]})
            # the importer's reader (Model/C03_Imp.v, tied to load_musicxml by check_import below) on the written stream:
            # the direct oracle O2 passed on these scores (their measures are only here when it did), so a measure the
            # MODEL reads differently from the spec reader means the model no longer is the importer: drift, no violation
            ctx.obligation("correspondence (a-imp): the importer's reader imp (Model/C03_Imp.v) reads the written stream of %d measures "
                           "exactly as the spec reader interp (same objects, order, start, duration) and ends at the measure end "
                           "(imp_measure_b)" % len(mcases), not imp_fail, imp_fail[:5])
            if imp_fail:
                ctx.log("MODEL-DRIFT (no violation): on %d measures that load_musicxml read correctly the importer model reads other times" % len(imp_fail))
            # the tie of the PROVED model to the code: exact document order.  Not a demand of the property (another
            # document order / voice numbering that denotes the same notes is as good), so a mismatch alone is no
            # violation; it is recorded as a failed obligation: the theorems then describe an algorithm that is no
            # longer the exporter's, and only the evaluated checks (a-spec, b, O1-O3) speak for that tree.
            ctx.obligation("correspondence (a-model): lin_measure (Model/C03.v) = written element stream, element for element, and every "
                           "voice sequential after re-assignment, on %d measures (check_measure)" % len(mcases), not drift and not spec_fail,
                           {"measures_where_only_the_document_order_differs": drift[:5], "measures_failing_the_spec": spec_fail[:5]})
            ctx.count("coq:measures_equal_to_model_stream", len(mcases) - len(set(drift) | set(spec_fail)))
            ctx.count("coq:measures_inside_the_hypotheses_of_importer_reads_measure", len(mcases) - len(hyp_local))
            ctx.count("coq:measures_read_alike_by_importer_model_and_spec_reader", len(mcases) - len(set(imp_fail) | set(spec_fail)))
            if drift:
                ctx.count("coq:measures_model_drift_only", len(drift))
                ctx.extra["model_drift"] = ("on %d of %d measures the exporter's element stream is not the model's lin_measure although it denotes "
                                            "the same notes: the proofs about lin_measure no longer describe this tree's exporter" % (len(drift), len(mcases)))
                ctx.log("MODEL-DRIFT (no violation): %d of %d measures written in another document order than Model/C03.v lin_measure" % (len(drift), len(mcases)))
        ctx.log("phase: Coq measure cases evaluated")
        try:
            pall = ctx.coq_failing("part", imp, "", [c for (_, _, c) in pcases], "check_part_all", shard=90)
            failing = [pall[j] for j in ctx.coq_failing("partsnd", imp, "", [pcases[i][2] for i in pall], "check_part_sound", shard=40)] if pall else []
            pimp = [pall[j] for j in ctx.coq_failing("partimp", imp, "", [pcases[i][2] for i in pall], "check_part_import", shard=40)] if pall else []
        except RuntimeError as ex:
            failing = None
            ctx.obligation("correspondence (b): interp_q evaluation", False, str(ex)[-800:])
            ctx.violation("Coq could not evaluate interp_q on the written parts: " + str(ex)[-600:], {"error": str(ex)[-1500:]}, no_input=True)
        if failing is not None:
            ctx.obligation("correspondence (b): Coq interp_q + sounding of the written part = the score's sounding notes on %d parts" % len(pcases), not failing, failing[:5])
            for i in failing[:4]:
                spec, pid, c = pcases[i]
                ctx.violation("O1 (Coq interpreter): the written part %s does not denote the score's sounding notes" % pid,
                              {"kind": "O1-coq", "part": pid, "spec": spec})
            # the tie of the importer model to load_musicxml: imp_part on the written stream = (id, start, duration) of every
            # loaded note in document order and the extent of every loaded measure.  A mismatch on a score whose direct
            # oracles passed means the model no longer describes the importer (drift), not that the property fails
            ctx.obligation("correspondence (c-imp): Coq imp_part (Model/C03_Imp.v) on the written part = what load_musicxml returned "
                           "(every note's start and duration in document order, every measure's extent) on %d parts" % len(pcases),
                           not pimp, pimp[:5])
            if pimp:
                ctx.count("coq:parts_importer_model_drift", len(pimp))
                ctx.log("MODEL-DRIFT (no violation): on %d of %d parts load_musicxml returned other note times / measure extents than "
                        "Model/C03_Imp.v imp_part" % (len(pimp), len(pcases)))
        # part-group structure: the exporter model writes the <part-list> the code wrote, and the importer model parses it
        # into the structure load_musicxml returned (Model/C03_Grp.v; groups_roundtrip is about these two functions)
        ctx.log("phase: Coq part cases evaluated")
        ctx.count("coq:group_cases", len(gcases))
        try:
            gfail = ctx.coq_failing("grp", "From PV Require Import Model.C03_Grp.", "", [c for (_, c) in gcases], "check_groups", shard=300)
        except RuntimeError as ex:
            gfail = None
            ctx.obligation("correspondence (g): part-group model evaluation", False, str(ex)[-800:])
            ctx.violation("Coq could not evaluate the part-group model: " + str(ex)[-600:], {"error": str(ex)[-1500:]}, no_input=True)
        if gfail is not None:
            ctx.obligation("correspondence (g): export_groups (Model/C03_Grp.v) of the score's part structure = the <part-list> children "
                           "written, and parse_groups of them = the structure load_musicxml returned, on %d scores" % len(gcases),
                           not gfail, gfail[:5])
            if gfail:
                ctx.count("coq:group_model_drift", len(gfail))
                ctx.log("MODEL-DRIFT (no violation): on %d of %d scores whose part structure survived save/load the <part-list> is not "
                        "the one Model/C03_Grp.v writes / reads" % (len(gfail), len(gcases)))
        # slur / tuplet numbers: the exporter model writes the numbers the code wrote at every note, the importer model
        # pairs the written elements into the slurs / tuplets load_musicxml returned; the hypothesis of
        # range_numbers_roundtrip (ok_notes_b) holds on the generated part
        ctx.count("coq:range_cases (parts x {slur, tuplet})", len(rcases))
        rimp = "From PV Require Import Model.C03_Rng."
        rdefs = ("Definition pv_hyp (c : bool * list rnote * list (list (Z * bool)) * list (Z * Z)) : bool :=\n"
                 "  match c with (rogue, ns, _, _) => ok_notes_b rogue ns ost0 end.\n"
                 "Definition pv_both c := check_ranges c && pv_hyp c.\n")
        try:
            rall = ctx.coq_failing("rng", rimp, rdefs, [c for (_, _, _, c) in rcases], "pv_both", shard=120)
            rfail = [rall[j] for j in ctx.coq_failing("rngm", rimp, rdefs, [rcases[i][3] for i in rall], "check_ranges", shard=120)] if rall else []
            rhyp = [rall[j] for j in ctx.coq_failing("rngh", rimp, rdefs, [rcases[i][3] for i in rall], "pv_hyp", shard=120)] if rall else []
        except RuntimeError as ex:
            rall = None
            ctx.obligation("correspondence (r): range-number model evaluation", False, str(ex)[-800:])
            ctx.violation("Coq could not evaluate the range-number model: " + str(ex)[-600:], {"error": str(ex)[-1500:]}, no_input=True)
        if rall is not None:
            ctx.obligation("correspondence (r): export_notes (Model/C03_Rng.v) = the slur / tuplet numbers written at every note, and "
                           "import_notes of the written elements = the slurs / tuplets load_musicxml returned, on %d (part, kind) cases"
                           % len(rcases), not rfail, [(rcases[i][1], rcases[i][2]) for i in rfail[:5]])
            ctx.count("coq:range_cases_inside_the_hypothesis_of_range_numbers_roundtrip", len(rcases) - len(rhyp))
            if rhyp:
                ctx.count("coq:range_cases_outside_the_hypothesis (a range running backwards in time / started twice)", len(rhyp))
            if rfail:
                ctx.count("coq:range_model_drift", len(rfail))
                ctx.log("MODEL-DRIFT (no violation): on %d of %d (part, kind) cases whose slurs / tuplets survived save/load the numbers "
                        "written / the pairs read are not those of Model/C03_Rng.v" % (len(rfail), len(rcases)))
        # state between calls: the history model (Model/C03_Hist.v) writes what every save_musicxml call of a history wrote
        ctx.count("coq:history_cases (tracks of histories with >= 1 call)", len(hcases))
        try:
            hfail = ctx.coq_failing("hist", "From PV Require Import Model.C03_Rng Model.C03_Hist.", "", [c for (_, _, c) in hcases], "check_hist", shard=30)
        except RuntimeError as ex:
            hfail = None
            ctx.obligation("correspondence (h): history model evaluation", False, str(ex)[-800:])
            ctx.violation("Coq could not evaluate the history model: " + str(ex)[-600:], {"error": str(ex)[-1500:]}, no_input=True)
        if hfail is not None:
            ctx.obligation("correspondence (h): run (Model/C03_Hist.v: fresh per-call counters, Score.parts) on the edits and calls of a history "
                           "= the note ids (with repetition suffix) and slur / tuplet numbers every save_musicxml call of the history wrote, "
                           "on %d tracks" % len(hcases), not hfail, hfail[:5])
            if hfail:
                ctx.count("coq:history_model_drift", len(hfail))
                ctx.log("MODEL-DRIFT (no violation): on %d of %d history tracks whose direct oracles passed the ids / numbers written are not "
                        "those of Model/C03_Hist.v" % (len(hfail), len(hcases)))
        # texts through one process (Model/C03_Txt.v): the files of a sequence loaded one after the other
        ctx.count("coq:text_cases (sequences of files in one process)", len(tcases))
        if tcases:
            try:
                tfail = ctx.coq_failing("txt", "From PV Require Import Model.C03_Txt.", "", [c for (_, c) in tcases], "check_texts", shard=40)
            except RuntimeError as ex:
                tfail = None
                ctx.obligation("correspondence (t): text model evaluation", False, str(ex)[-800:])
                ctx.violation("Coq could not evaluate the text model: " + str(ex)[-600:], {"error": str(ex)[-1500:]}, no_input=True)
            if tfail is not None:
                ctx.obligation("correspondence (t): run (Model/C03_Txt.v: nothing kept between two parses; one direction per comma-separated "
                               "piece, outer blanks dropped) on the <words> texts of the files a sequence loads one after the other in one "
                               "process = the raw texts of the directions load_musicxml returned per file, on %d sequences" % len(tcases),
                               not tfail, tfail[:5])
                if tfail:
                    ctx.count("coq:text_model_drift", len(tfail))
                    ctx.log("MODEL-DRIFT (no violation): on %d of %d sequences whose direct oracles passed the raw texts loaded are not "
                            "those of Model/C03_Txt.v" % (len(tfail), len(tcases)))
        # wedge / dashes numbers (do_directions / _handle_direction)
        ctx.count("coq:wedge_cases (parts x {wedge, dashes})", len(wcases))
        wdefs = ("Definition pv_whyp (c : list wevent * list (Z * bool) * list (Z * Z)) : bool :=\n"
                 "  match c with (evs, _, _) => ok_wevents_b evs ost0 end.\n"
                 "Definition pv_wboth c := check_wedges c && pv_whyp c.\n")
        try:
            wall = ctx.coq_failing("wdg", rimp, wdefs, [c for (_, _, _, c) in wcases], "pv_wboth", shard=200)
            wfail = [wall[j] for j in ctx.coq_failing("wdgm", rimp, wdefs, [wcases[i][3] for i in wall], "check_wedges", shard=200)] if wall else []
            whyp = [wall[j] for j in ctx.coq_failing("wdgh", rimp, wdefs, [wcases[i][3] for i in wall], "pv_whyp", shard=200)] if wall else []
        except RuntimeError as ex:
            wall = None
            ctx.obligation("correspondence (w): wedge-number model evaluation", False, str(ex)[-800:])
            ctx.violation("Coq could not evaluate the wedge-number model: " + str(ex)[-600:], {"error": str(ex)[-1500:]}, no_input=True)
        if wall is not None:
            ctx.obligation("correspondence (w): wexport (Model/C03_Rng.v) = the wedge / dashes numbers written in document order, and wimport "
                           "of them = the (start, end) of the directions load_musicxml returned, on %d (part, label) cases" % len(wcases),
                           not wfail, [(wcases[i][1], wcases[i][2]) for i in wfail[:5]])
            ctx.count("coq:wedge_cases_inside_the_hypothesis_of_wedge_numbers_roundtrip", len(wcases) - len(whyp))
            if wfail:
                ctx.count("coq:wedge_model_drift", len(wfail))
                ctx.log("MODEL-DRIFT (no violation): on %d of %d (part, label) cases whose directions survived save/load the wedge / dashes "
                        "numbers written / the ranges read are not those of Model/C03_Rng.v" % (len(wfail), len(wcases)))
        # tie links (round j extension): the exporter model writes the <tie> types the code wrote at every <note> of a
        # part, the importer model (ongoing[("tie", pitch)]) links the written notes as load_musicxml linked them;
        # the hypotheses of tie_links_roundtrip / tie_links_both_directions hold on the generated part (counted)
        ctx.count("coq:tie_cases (parts with a tie)", len(ticases))
        timp = "From PV Require Import Model.C03_Tie."
        tidefs = "Definition pv_tboth c := check_ties c && ties_hyp_b c.\n"
        try:
            tall = ctx.coq_failing("tie", timp, tidefs, [c for (_, _, c) in ticases], "pv_tboth", shard=150)
            tifail = [tall[j] for j in ctx.coq_failing("tiem", timp, tidefs, [ticases[i][2] for i in tall], "check_ties", shard=150)] if tall else []
            tihyp = [tall[j] for j in ctx.coq_failing("tieh", timp, tidefs, [ticases[i][2] for i in tall], "ties_hyp_b", shard=150)] if tall else []
        except RuntimeError as ex:
            tall = None
            ctx.obligation("correspondence (ti): tie model evaluation", False, str(ex)[-800:])
            ctx.violation("Coq could not evaluate the tie model: " + str(ex)[-600:], {"error": str(ex)[-1500:]}, no_input=True)
        if tall is not None:
            ctx.obligation("correspondence (ti): export_ties (Model/C03_Tie.v) = the pitch key and the <tie> types written at every "
                           "<note>, and import_ties of the written notes = the tie_prev / tie_next links load_musicxml returned, on %d "
                           "parts with ties" % len(ticases), not tifail, [ticases[i][1] for i in tifail[:5]])
            ctx.count("coq:tie_cases_inside_the_hypotheses_of_tie_links_roundtrip", len(ticases) - len(tihyp))
            if tihyp:
                ctx.count("coq:tie_cases_outside_the_hypotheses (ties of one pitch open together in document order / one-sided link)", len(tihyp))
            if tifail:
                ctx.count("coq:tie_model_drift", len(tifail))
                ctx.log("MODEL-DRIFT (no violation): on %d of %d parts whose ties survived save/load the <tie> elements written / the "
                        "links read are not those of Model/C03_Tie.v" % (len(tifail), len(ticases)))
    else:
        ctx.violation("proof obligations of Props/C03.v no longer check: " + why, {"theorem_or_build": why}, no_input=True)


def replay(obj):
    r = obj.get("replay", obj)
    spec = r.get("spec")
    print("what:", obj.get("what"))
    if r.get("kind") == "history" and r.get("history"):
        h = r["history"]
        for name, sp in sorted(h["specs"].items()):
            print("score %s:" % name, json.dumps(sp)[:2500])
        for i, op in enumerate(h["ops"]):
            print("step %d:" % i, json.dumps({k: (v if not (k == "part" and isinstance(v, dict)) else "<part spec>") for k, v in op.items()}))
        probs = run_history(h, stop_at_first=False)
        for k, t, st in probs:
            print("PROBLEM at step %d: %s: %s" % (st, k, t))
        if not probs:
            print("no problem reproduced on this tree")
        return 0
    if r.get("sequence"):
        q = r["sequence"]
        for i, sp in enumerate(q["scores"]):
            print("score %d:" % i, json.dumps([o for o in sp["parts"][0]["objs"] if o["k"] not in ("note", "ts")]), "measures", sp["parts"][0]["measures"])
        print("ops:", json.dumps(q["ops"]))
        probs = run_sequence(q, stop_at_first=False)
        for k, t, st in probs:
            print("PROBLEM at step %d (%s score %d): %s: %s" % (st, q["ops"][st][0], q["ops"][st][1], k, t))
        if not probs:
            print("no problem reproduced on this tree")
        return 0
    if not spec:
        print(json.dumps(r, indent=1)[:3000])
        return 0
    o = check_spec(spec, want_coq=False)
    from partitura import save_musicxml
    print("spec:", json.dumps(spec)[:3000])
    with warnings.catch_warnings():
        warnings.simplefilter("ignore")
        print(save_musicxml(build(spec)).decode()[:6000])
    for k, t in o.problems:
        print("PROBLEM", k, t)
    if not o.problems:
        print("no problem reproduced on this tree")
    return 0
