"""C01 -- a part is a consistent time-ordered collection under any edit history.

Tie to the source
* T2: the whole TimedObject class tree is enumerated by the harness itself (``__subclasses__`` order, strict
  ancestors from ``__mro__``) and, as DATA, the output of the real ``iter_subclasses`` for every class
  (duplicates and all) is reflected into coq/Gen/C01_ClassTree.v on every run; Proofs/C01_tree.v re-proves the
  subclass-closure facts over that complete finite tree by vm_compute.  Nothing about the implementation is
  asserted while reflecting: a statement that no longer holds is a failed proof obligation, named through
  ``diagnose_tree`` (Model/C01_Tree.v), and is followed by a directed search for a failing history.
* C (lock-step correspondence): generated edit histories are executed on a real ``Part``; after EVERY
  operation the observable state and the results of sampled queries are dumped and compared inside
  Coq with THREE models in one pass: the list-level model ``Model/C01.v`` (``history_ok``), the index-level model
  ``Model/C01_Idx.v`` (binary search with ComparableMixin's ``<``, insert/delete/slices by index, cached quarter
  map; ``history_ok_idx``) and the registry-level model ``Model/C01_Dict.v`` (class-keyed defaultdicts, buckets
  created by look-ups, clean-up by the sum of bucket sizes; ``dhistory_ok``), and the invariant / query specification (result LISTS:
  every matching registered object exactly once, in time order) / quarter-duration semantics / "a failing
  call changes nothing" are evaluated directly on the real ``Part`` by an independent Python oracle.
"""
import itertools
import json
import operator

import core
from core import clist, ctuple, copt, cbool


def cz(n):
    """Z literal; the case files open Z_scope, so no %Z suffix is needed (halves the parse time)."""
    n = int(n)
    return "(%d)" % n if n < 0 else "%d" % n


# ----------------------------------------------------------------------------- class tree


def class_tree():
    """The TimedObject class tree, enumerated by the harness itself (depth first over ``__subclasses__()``,
    every class once, the order of the unchanged ``iter_subclasses``).  partitura's own ``iter_subclasses``
    is a function UNDER TEST: its output is recorded as data (``real_itersub``), never used to build the
    universe and never asserted on."""
    import partitura.score as S

    classes, seen = [S.TimedObject], {S.TimedObject}

    def rec(c):
        for s in c.__subclasses__():
            if s not in seen:
                seen.add(s)
                classes.append(s)
                rec(s)

    rec(S.TimedObject)
    return classes, {c: i for i, c in enumerate(classes)}


def real_itersub(c, cid):
    """list(iter_subclasses(c)) of the tree under test as class ids, duplicates and all; a class outside the
    universe is -1, an exception is the one-element list [-2]."""
    from partitura.utils.generic import iter_subclasses

    try:
        return [cid.get(s, -1) for s in iter_subclasses(c)]
    except Exception:
        return [-2]


def tree_shape(classes, cid):
    """Facts about the reflected tree used by the generator: classes reached along >= 2 inheritance paths
    (multiply-inheriting classes and their descendants), and for a class m the ancestors above both
    branches (``joins``) / on one branch only (``branches``)."""
    n = len(classes)
    subs = [[cid[s] for s in c.__subclasses__() if s in cid] for c in classes]
    memo = {}

    def npaths(a, m):  # number of __subclasses__ paths a -> m
        if a == m:
            return 1
        key = (a, m)
        if key not in memo:
            memo[key] = sum(npaths(s, m) for s in subs[a])
        return memo[key]

    twice = [m for m in range(n) if npaths(0, m) >= 2]
    joins = {m: [a for a in range(n) if a != m and npaths(a, m) >= 2] for m in twice}
    branches = {m: [a for a in range(n) if a != m and npaths(a, m) == 1] for m in twice}
    return {"twice": twice, "joins": joins, "branches": branches}


def tree_oracle(classes, cid):
    """Direct oracle on the real iter_subclasses: for every class of the tree it must list exactly the strict
    descendants, each once.  -> list of (class id, descendant id, kind, count)."""
    bad = []
    for i, c in enumerate(classes):
        got = real_itersub(c, cid)
        want = {j for j, d in enumerate(classes) if j != i and issubclass(d, c)}
        for d in sorted(set(got)):
            k = got.count(d)
            if d not in want:
                bad.append((i, d, "not a strict descendant", k))
            elif k != 1:
                bad.append((i, d, "listed %d times" % k, k))
        for d in sorted(want - set(got)):
            bad.append((i, d, "missing", 0))
    return bad


def gen():
    """Reflect the TimedObject hierarchy into coq/Gen/C01_ClassTree.v (whatever the implementation returns
    is written down as data; the statements about it are proof obligations of Proofs/C01_tree.v)."""
    core.setup_import_path()
    classes, cid = class_tree()
    L = ["(* GENERATED by harness/props/c01.py from partitura.score (the working tree) -- do not edit *)",
         "From Coq Require Import ZArith List String.", "Import ListNotations.", "Open Scope Z_scope.", "",
         "Definition ct_n : Z := %d." % len(classes),
         "Definition ct_n_nat : nat := %d%%nat." % len(classes)]

    def tab(name, rows):
        L.append("Definition %s : list (Z * list Z) := [\n  %s\n]." % (
            name, ";\n  ".join("(%s, %s)" % (cz(i), clist([cz(x) for x in r])) for i, r in rows)))

    tab("ct_subs", [(i, [cid[s] for s in c.__subclasses__() if s in cid]) for i, c in enumerate(classes)])
    tab("ct_anc", [(i, [cid[a] for a in c.__mro__[1:] if a in cid]) for i, c in enumerate(classes)])
    tab("ct_itersub", [(i, real_itersub(c, cid)) for i, c in enumerate(classes)])
    L.append("Definition ct_names : list (Z * string) := [\n  %s\n]." % ";\n  ".join(
        "(%s, %s)" % (cz(i), core.cstr(c.__name__)) for i, c in enumerate(classes)))
    core.write_gen("C01_ClassTree", "\n".join(L) + "\n")
    return classes, cid


TREE_IMPORTS = "From PV Require Import Lib.Base Gen.C01_ClassTree Model.C01 Model.C01_Tree."


def parse_coq_value(out):
    """`= v : T` printed by Eval vm_compute for nested lists / tuples / bools / integers -> Python value."""
    import ast
    import re

    m = re.search(r"=\s*(.*?)\n\s*:\s", out, flags=re.S)
    if not m:
        raise ValueError("cannot parse: " + out[-400:])
    txt = re.sub(r"%\w+", "", m.group(1)).replace(";", ",").replace("true", "True").replace("false", "False")
    return ast.literal_eval(txt)


def diagnose_tree(ctx, classes):
    """The closure of Props/C01.v no longer builds: evaluate the boolean checkers of Model/C01_Tree.v over the
    regenerated tree and record, by theorem name, which statement fails and for which classes."""
    nm = lambda i: classes[i].__name__ if 0 <= i < len(classes) else str(i)
    ok, _ = ctx.coq_build(["Model/C01_Tree.vo"])
    if not ok:
        ctx.obligation("class-tree diagnosis: Model/C01_Tree.v builds over the regenerated Gen/C01_ClassTree.v", False, "")
        return ["Model/C01_Tree.v does not build over the regenerated class tree"]
    try:
        keys, bad_it, bad_cm, bad_ci, reps, (d_model, d_impl, has_multi) = parse_coq_value(ctx.coq_eval(TREE_IMPORTS, "tree_diagnosis"))
    except Exception as e:
        ctx.obligation("class-tree diagnosis evaluates", False, "%s: %s" % (type(e).__name__, e))
        return ["class-tree diagnosis could not be evaluated"]
    named = []

    def ob(thm, what, good, detail):
        ctx.obligation("theorem %s over the regenerated Gen/C01_ClassTree.v: %s" % (thm, what), good, detail)
        if not good:
            named.append("%s (%s)" % (thm, detail))

    ob("itersub_matches_impl", "the model's iter_subclasses enumerates the classes partitura's iter_subclasses returned, each as often, for every class",
       not bad_it, "differs for %s" % [nm(c) for c in bad_it][:12])
    ob("subclasses_closed", "model iter_subclasses(c) = strict descendants of c, each once",
       keys and not bad_cm, "fails for %s" % [nm(c) for c in bad_cm][:12])
    ob("impl_itersub_closed / descendant_once", "partitura's iter_subclasses(c) = strict descendants of c, each once",
       not bad_ci and not reps, "fails for %s; repeated (class, subclass): %s" % (
           [nm(c) for c in bad_ci][:12], [(nm(c), nm(d)) for c, d in reps][:8]))
    ob("diamond_once / multi_parent_exists", "every class reached along two inheritance paths is enumerated once (model, implementation)",
       d_model and d_impl and has_multi, "model %s, implementation %s, tree has multiply-inherited classes %s" % (d_model, d_impl, has_multi))
    return named


# ----------------------------------------------------------------------------- running histories
# A history is {"q0": int, "objs": [class id, ...], "steps": [{"op": [...], "queries": [[...], ...]}]}
# ops:  ["add", k, s, e] | ["remove", k, "start"|"end"|"both"] | ["setq", t, q] | ["gp", t]
#       | ["gpadd", k, "start"|"end", t]     (get_or_add_point(t).add_starting_object(o) / add_ending_object)
#       | ["tpremove", k, "start"|"end"]     (o.start.remove_starting_object(o) / o.end.remove_ending_object(o): no clean-up)
# queries: ["iter_all", c, a, b, sub, mode, as_tp] | ["iter_next", t, c, eq, sub] | ["iter_prev", ...]
#       | ["first_last"] | ["get_point", t] | ["qd", a, b]
#       | ["search", t]  (np.searchsorted(part._points, TimePoint(t)))  | ["cmp", a, b]  (the six rich comparisons of
#         the time points at a and b)  | ["cached", s]  (int(part._quarter_map(s)): the cached interpolator)
#       | ["qd_write", a, b]  (quarter_durations(a, b), then the caller overwrites the returned array)
#       | ["map", 2*s, kind]  (quarter_duration_map on s handed over as int/float/numpy scalar/0-d/.../empty array/list)
#       iter_all's last field: bounds as 0 int | 1 free TimePoint | 2 the part's own TimePoint | 3 a TimePoint kept from
#       an earlier step (possibly removed since)
# optional keys: "tkind" (integer kind of times / quarter values), "pid" (part id), "fresh" (judge every step against a
# part freshly built from the current registrations; ask the last questions again at the end).
# A replay is {"kind": "history", "history": ...} or {"kind": "history", "pair": {"parts": [h0, h1], "schedule": [0, 1, ...],
# "lazy": bool}} -- two parts in one process, the schedule says which part the next operation goes to.


class Runner:
    """Executes a history on a real Part, keeps the abstract specification state next to it and
    evaluates the property directly (oracle)."""

    def __init__(self, hist, classes, cid):
        import partitura.score as S

        self.S = S
        self.classes, self.cid = classes, cid
        # the integer type the times (and quarter values) are handed over as: importers pass numpy integers
        import numpy as np
        tk = hist.get("tkind", "int")
        conv = {"int": [int], "int64": [np.int64], "int32": [np.int32], "mixed": [int, np.int64, np.int32],
                "int8": [np.int8], "uint8": [np.uint8], "int16": [np.int16], "uint16": [np.uint16],
                "mixedsmall": [np.int8, int, np.uint8, np.int64, np.int16, np.uint16, np.int32]}[tk]
        # small non-negative values in the chosen integer kind; negative (rejected) or large values as Python int
        self.T = lambda t: None if t is None else (conv[t % len(conv)](t) if 0 <= t <= 120 else int(t))
        self.part = S.Part(hist.get("pid", "P"), quarter_duration=self.T(hist["q0"]))
        self.fresh = bool(hist.get("fresh"))
        self.held = {}       # time -> the FIRST TimePoint object ever seen at that time (possibly removed since)
        self.nstep = 0
        self.objs = []
        for c in hist["objs"]:
            cls = classes[c]
            o = cls.__new__(cls)
            S.TimedObject.__init__(o)
            self.objs.append(o)
        self.oid = {id(o): (hist["objs"][k], k) for k, o in enumerate(self.objs)}
        # abstract specification: registered (start, end) per object; quarter-duration step function
        self.reg = [[None, None] for _ in self.objs]
        self.qd = [(0, hist["q0"])]
        self.allowed_empty = set()

    # ---- specification side
    def spec_qd(self, s, qd=None):
        qd = self.qd if qd is None else qd
        v = qd[0][1]
        for t, q in qd:
            if t <= s:
                v = q
        return v

    def valid(self, op):
        k = op[0]
        if k == "add":
            _, o, s, e = op
            return ((s is None or self.reg[o][0] is None) and (e is None or self.reg[o][1] is None))
        if k == "gpadd":
            _, o, side, t = op
            return self.reg[o][0 if side == "start" else 1] is None
        return True

    def negative(self, op):
        k = op[0]
        if k == "add":
            return any(x is not None and x < 0 for x in op[2:4])
        if k in ("gp", "setq"):
            return op[1] < 0
        if k == "gpadd":
            return op[3] < 0
        return False

    def spec_step(self, op):
        k = op[0]
        if k == "add":
            _, o, s, e = op
            if s is not None:
                self.reg[o][0] = s
            if e is not None:
                self.reg[o][1] = e
        elif k == "gpadd":
            _, o, side, t = op
            self.reg[o][0 if side == "start" else 1] = t
        elif k == "remove":
            _, o, w = op
            if w in ("start", "both"):
                self.reg[o][0] = None
            if w in ("end", "both"):
                self.reg[o][1] = None
        elif k == "gp":
            if not any(op[1] in r for r in self.reg):
                self.allowed_empty.add(op[1])
        elif k == "tpremove":
            j = 0 if op[2] == "start" else 1
            t = self.reg[op[1]][j]
            self.reg[op[1]][j] = None
            if t is not None and not any(t in r for r in self.reg):
                self.allowed_empty.add(t)     # TimePoint.remove_* does no clean-up: the point stays, possibly empty
        # setq: handled in step() against the implementation's observable change table (O3)
        live = {t for r in self.reg for t in r if t is not None}
        self.allowed_empty -= live

    # ---- implementation side
    def do(self, op):
        p, k = self.part, op[0]
        if k == "add":
            kw = {}
            if op[2] is not None:
                kw["start"] = self.T(op[2])
            if op[3] is not None:
                kw["end"] = self.T(op[3])
            p.add(self.objs[op[1]], **kw)
        elif k == "gpadd":
            tp = p.get_or_add_point(self.T(op[3]))
            if op[2] == "start":
                tp.add_starting_object(self.objs[op[1]])
            else:
                tp.add_ending_object(self.objs[op[1]])
        elif k == "remove":
            if op[2] == "both":
                p.remove(self.objs[op[1]])
            else:
                p.remove(self.objs[op[1]], op[2])
        elif k == "setq":
            p.set_quarter_duration(self.T(op[1]), self.T(op[2]))
        elif k == "gp":
            tp = p.get_or_add_point(self.T(op[1]))
            if tp is None or tp.t != op[1]:
                raise AssertionError("get_or_add_point(%d) returned %r" % (op[1], tp))
        elif k == "tpremove":
            o = self.objs[op[1]]
            tp = o.start if op[2] == "start" else o.end
            if tp is not None:
                (tp.remove_starting_object if op[2] == "start" else tp.remove_ending_object)(o)
        else:
            raise ValueError(op)

    def ident(self, o):
        return self.oid.get(id(o), (-1, -1))

    def dump(self):
        p = self.part
        pts = []
        for tp in p._points:
            regs = []
            for d in (tp.starting_objects, tp.ending_objects):
                regs.append(sorted((self.cid.get(key, -1), self.ident(o)[1]) for key, os in d.items() if os for o in os))
            pts.append([int(tp.t), int(tp.quarter) if tp.quarter is not None else -1,
                        None if tp.prev is None else int(tp.prev.t), None if tp.next is None else int(tp.next.t),
                        regs[0], regs[1]])
        refs = [[None if o.start is None else int(o.start.t), None if o.end is None else int(o.end.t)] for o in self.objs]
        n = min(len(p._quarter_times), len(p._quarter_durations))
        qtab = [[int(p._quarter_times[i]), int(p._quarter_durations[i])] for i in range(n)]
        return {"points": pts, "qtab": qtab, "refs": refs}

    def snapshot(self):
        """Everything observable of the part, with object identity of the time points (for "unchanged")."""
        d = self.dump()
        return {"points": d["points"], "qtab": d["qtab"], "refs": d["refs"],
                "point_ids": [id(tp) for tp in self.part._points],
                "order": [[[self.ident(o)[1] for os in dd.values() for o in os] for dd in (tp.starting_objects, tp.ending_objects)]
                          for tp in self.part._points]}

    @staticmethod
    def snapshot_diff(a, b):
        out = []
        for k in ("points", "qtab", "refs"):
            if a[k] != b[k]:
                out.append("%s %s -> %s" % (k, json.dumps(a[k]), json.dumps(b[k])))
        return "; ".join(out) or "time point objects / registration order changed"

    def show_query(self, q):
        nm = lambda c: None if c is None else (self.classes[c].__name__ if 0 <= c < len(self.classes) else c)
        if q[0] == "iter_all":
            return "iter_all(cls=%s, start=%s, end=%s, include_subclasses=%s, mode=%s)" % (nm(q[1]), q[2], q[3], q[4], q[5])
        if q[0] in ("iter_next", "iter_prev"):
            return "get_point(%s).%s(%s, eq=%s, include_subclasses=%s)" % (q[1], q[0], nm(q[2]), q[3], q[4])
        return repr(q)

    def inv(self):
        """O1 evaluated directly on the real Part.  Returns a list of messages (empty = holds)."""
        p, bad = self.part, []
        pts = list(p._points)
        ts = [tp.t for tp in pts]
        if any((not isinstance(t, (int,)) and not hasattr(t, "__index__")) or t < 0 for t in ts):
            bad.append("negative or non-integer time in %r" % ts)
        if any(a >= b for a, b in zip(ts, ts[1:])):
            bad.append("times not strictly increasing: %r" % ts)
        for i, tp in enumerate(pts):
            want_prev = pts[i - 1] if i > 0 else None
            want_next = pts[i + 1] if i + 1 < len(pts) else None
            if tp.prev is not want_prev:
                bad.append("point %d: prev is %s, true predecessor is %s" % (
                    tp.t, getattr(tp.prev, "t", None), getattr(want_prev, "t", None)))
            if tp.next is not want_next:
                bad.append("point %d: next is %s, true successor is %s" % (
                    tp.t, getattr(tp.next, "t", None), getattr(want_next, "t", None)))
            n = 0
            for side, d in (("start", tp.starting_objects), ("end", tp.ending_objects)):
                for key, os in d.items():
                    for o in os:
                        n += 1
                        if type(o) is not key:
                            bad.append("point %d: object of class %s filed under %s" % (tp.t, type(o).__name__, key.__name__))
                        if getattr(o, side) is not tp:
                            bad.append("point %d lists %s as %sing but its %s is %s" % (
                                tp.t, self.ident(o), side, side, getattr(getattr(o, side), "t", None)))
            if n == 0 and tp.t not in self.allowed_empty:
                bad.append("empty time point at %d" % tp.t)
            if tp.quarter != self.spec_qd(tp.t):
                bad.append("point %d: quarter %r, in force is %r" % (tp.t, tp.quarter, self.spec_qd(tp.t)))
            else:
                try:
                    operator.index(tp.quarter)
                except TypeError:
                    bad.append("point %d: quarter %r (%s) is not an integer" % (tp.t, tp.quarter, type(tp.quarter).__name__))
        for k, o in enumerate(self.objs):
            for j, side in enumerate(("start", "end")):
                ref = getattr(o, side)
                want = self.reg[k][j]
                if (None if ref is None else ref.t) != want:
                    bad.append("object %s: %s.t is %s, registered at %s" % (self.ident(o), side, getattr(ref, "t", None), want))
                if ref is not None:
                    if not any(ref is tp for tp in pts):
                        bad.append("object %s: %s refers to a time point (t=%s) that is not in the part" % (self.ident(o), side, ref.t))
                    elif o not in (ref.starting_objects if j == 0 else ref.ending_objects).get(type(o), {}):
                        bad.append("object %s: its %s point %s does not list it" % (self.ident(o), side, ref.t))
        # the timeline is ordered by the rich comparison the code searches with; every point is found at its own index
        import numpy as np
        for i, tp in enumerate(pts):
            if i + 1 < len(pts):
                nx = pts[i + 1]
                if any(not isinstance(r, (bool, np.bool_)) for r in (tp < nx, nx < tp, tp == nx)) or not (tp < nx) or (nx < tp) or (tp == nx):
                    bad.append("points %s and %s do not compare by time: <  %r, >  %r, == %r" % (tp.t, nx.t, tp < nx, nx < tp, tp == nx))
            try:
                j = int(np.searchsorted(p._points, tp))
            except Exception as e:
                j = "%s" % type(e).__name__
            if j != i:
                bad.append("searchsorted finds point %s (index %d) at %r" % (tp.t, i, j))
        qt, qdv = list(p._quarter_times), list(p._quarter_durations)
        if len(qt) != len(qdv) or not qt or any(a >= b for a, b in zip(qt, qt[1:])):
            bad.append("quarter tables malformed: %r %r" % (qt, qdv))
        return bad

    def canon_runs(self, pairs):
        out, i = [], 0
        while i < len(pairs):
            j = i
            while j < len(pairs) and pairs[j][0] == pairs[i][0]:
                j += 1
            out += sorted(pairs[i:j])
            i = j
        return out

    def query(self, q):
        """Run one query on the implementation; returns (result, expected_by_spec)."""
        p, k = self.part, q[0]
        if k in ("iter_all", "iter_next", "iter_prev"):
            if k == "iter_all":
                _, c, a, b, sub, mode, as_tp = q
                cls = None if c is None else self.classes[c]
                # bounds as plain integers, as free-standing TimePoints, or (2) as the part's OWN time point where
                # there is one (`part.iter_all(cls, note.start, note.end)`: the usual call)
                if as_tp == 2:
                    wrap = lambda t: None if t is None else ((p.get_point(t) if t >= 0 else None) or self.S.TimePoint(self.T(t)))
                elif as_tp == 3:
                    # a TimePoint the caller took from the part at an EARLIER step (it may have been removed since)
                    wrap = lambda t: None if t is None else (self.held.get(t) or self.S.TimePoint(self.T(t)))
                elif as_tp:
                    wrap = lambda t: None if t is None else self.S.TimePoint(self.T(t))
                else:
                    wrap = self.T
                kw = {}
                if a is not None:
                    kw["start"] = wrap(a)
                if b is not None:
                    kw["end"] = wrap(b)
                if cls is not None:
                    kw["cls"] = cls
                if sub:
                    kw["include_subclasses"] = True
                if mode == "ending":
                    kw["mode"] = "ending"
                res = list(p.iter_all(**kw))
                j = 1 if mode == "ending" else 0
                in_rng = lambda t: (a is None or a <= t) and (b is None or t < b)
            else:
                _, t0, c, eq, sub = q
                cls = self.classes[c]
                tp = p.get_point(self.T(t0))
                if tp is None:
                    return ["objs", []], ["objs", []]
                it = tp.iter_next if k == "iter_next" else tp.iter_prev
                res = list(it(cls, eq=eq, include_subclasses=sub))
                j = 0
                if k == "iter_next":
                    in_rng = lambda t: t > t0 or (eq and t == t0)
                else:
                    in_rng = lambda t: t < t0 or (eq and t == t0)
            got = []
            for o in res:
                ref = o.end if j == 1 else o.start
                got.append([-1 if ref is None else int(ref.t), list(self.ident(o))])
            got = self.canon_runs(got)
            exp = []
            for kk, o in enumerate(self.objs):
                t = self.reg[kk][j]
                if t is None or not in_rng(t):
                    continue
                if cls is None or type(o) is cls or (sub and issubclass(type(o), cls)):
                    exp.append([t, list(self.ident(o))])
            exp.sort(key=lambda x: (-x[0], x[1]) if k == "iter_prev" else (x[0], x[1]))
            return ["objs", got], ["objs", exp]
        if k == "first_last":
            f, l = p.first_point, p.last_point
            got = ["times", None if f is None else int(f.t), None if l is None else int(l.t)]
            ts = sorted({t for r in self.reg for t in r if t is not None} | self.allowed_empty)
            return got, ["times", ts[0] if ts else None, ts[-1] if ts else None]
        if k == "get_point":
            if q[1] < 0:  # not a valid time: must be rejected
                try:
                    tp = p.get_point(q[1])
                except Exception:
                    return ["rejected"], ["rejected"]
                return ["times", None if tp is None else int(tp.t), None], ["rejected"]
            tp = p.get_point(self.T(q[1]))
            ts = {t for r in self.reg for t in r if t is not None} | self.allowed_empty
            return ["times", None if tp is None else int(tp.t), None], ["times", q[1] if q[1] in ts else None, None]
        if k == "qd":
            _, a, b = q
            arr = p.quarter_durations(self.T(a), self.T(b))
            got = ["qd", [[int(r[0]), int(r[1])] for r in arr]]
            # expected: the change table restricted to [a, b); its values are the durations in force there
            tab = [[int(t), int(d)] for t, d in zip(p._quarter_times, p._quarter_durations)
                   if (a is None or a <= t) and (b is None or t < b)]
            for t, d in tab:
                if d != self.spec_qd(t):
                    tab = "entry at %d is %d but %d is in force" % (t, d, self.spec_qd(t))
                    break
            return got, ["qd", tab]
        if k == "qd_write":
            # the caller owns the returned array: whatever is written into it must not show anywhere later
            _, a, b = q
            arr = p.quarter_durations(self.T(a), self.T(b))
            got = ["qd", [[int(r[0]), int(r[1])] for r in arr]]
            tab = [[int(t), int(d)] for t, d in zip(p._quarter_times, p._quarter_durations)
                   if (a is None or a <= t) and (b is None or t < b)]
            if getattr(arr, "flags", None) is not None and arr.flags.writeable and arr.size:
                arr[:, 1] = 77
                arr[:, 0] += 3
            return got, ["qd", tab]
        if k == "map":
            # quarter_duration_map "can take scalar values or lists/arrays of values": every accepted kind of argument
            import numpy as np
            _, s2, kind = q
            s = s2 // 2 if s2 % 2 == 0 else s2 / 2.0
            si = s2 // 2
            arg, exp_shape, pts = {
                "int": (si, (), [si]), "float": (float(s), (), [s]), "npint": (np.int16(si), (), [si]),
                "npfloat": (np.float32(s), (), [s]), "0d": (np.array(si), (), [si]), "0dfloat": (np.array(float(s)), (), [s]),
                "arr1": (np.array([si]), (1,), [si]), "arr1float": (np.array([float(s)]), (1,), [s]),
                "list": ([0, si, si + 1], (3,), [0, si, si + 1]), "tuple": ((si, 0), (2,), [si, 0]),
                "arr": (np.array([si + 2, si, 0], dtype=np.int32), (3,), [si + 2, si, 0]),
                "arrfloat": (np.array([s, s + 0.5, 0.0]), (3,), [s, s + 0.5, 0.0]),
                "empty": (np.array([], dtype=int), (0,), []), "emptyfloat": (np.array([], dtype=float), (0,), []),
                "arr2d": (np.array([[si, 0], [1, si + 1]]), (2, 2), [si, 0, 1, si + 1]),
            }[kind]
            res = np.asarray(p.quarter_duration_map(arg))
            vals = [float(v) for v in res.ravel()]
            vals = [int(v) if v == int(v) else v for v in vals]
            if exp_shape == ():
                return ["val", vals[0] if res.shape == () and len(vals) == 1 else ["shape", list(res.shape)]], ["val", self.spec_qd(pts[0])]
            return ["vals", list(res.shape), vals], ["vals", list(exp_shape), [self.spec_qd(x) for x in pts]]
        if k == "search":
            import numpy as np
            got = int(np.searchsorted(p._points, self.S.TimePoint(self.T(q[1]))))
            ts = {t for r in self.reg for t in r if t is not None} | self.allowed_empty
            return ["idx", got], ["idx", len([x for x in ts if x < q[1]])]
        if k == "cmp":
            _, a, b = q
            # the real time point of the part where there is one, a free-standing TimePoint otherwise
            A = (p.get_point(a) if a >= 0 else None) or self.S.TimePoint(a)
            B = (p.get_point(b) if b >= 0 else None) or self.S.TimePoint(b)
            res = [A < B, A <= B, A == B, A >= B, A > B, A != B]
            import numpy as np
            got = ["bools", [bool(r) if isinstance(r, (bool, np.bool_)) else repr(r) for r in res]]
            return got, ["bools", [a < b, a <= b, a == b, a >= b, a > b, a != b]]
        if k == "cached":
            # the cached interpolator new points read; a Part without such a cache is asked for its map
            qm = getattr(p, "_quarter_map", None) or p.quarter_duration_map
            got = ["val", int(qm(self.T(q[1])))]
            return got, ["val", self.spec_qd(q[1])]
        raise ValueError(q)

    def step(self, st, probe_times, light=False):
        """Execute one step.  Returns (observation dict, list of oracle messages).  light: execute the operation
        and keep the specification state only (no oracle, no dump, no queries) -- for the prefix of an enumerated
        history, every prefix being an enumerated history of its own."""
        op = st["op"]
        bad = []
        neg = self.negative(op)
        before_tab = [(int(t), int(d)) for t, d in zip(self.part._quarter_times, self.part._quarter_durations)]
        before = self.snapshot() if (neg and not light) else None
        code, exc = 0, None
        try:
            self.do(op)
        except Exception as e:  # classified below
            exc = e
            code = 1 if neg else 2
        if neg:
            if exc is None:
                bad.append("O1: negative time accepted by %r" % (op,))
            elif not light:
                # O4: an operation that fails leaves the part exactly as it was
                after = self.snapshot()
                if after != before:
                    bad.append("O4: %r raised %s but left the part partly updated: %s" % (
                        op, type(exc).__name__, self.snapshot_diff(before, after)))
        else:
            if exc is not None:
                bad.append("O4: %r raised %s: %s" % (op, type(exc).__name__, exc))
            self.spec_step(op)
            if op[0] == "setq":
                # O3: in force from t up to the next later change, nothing else changes
                _, t, q = op
                later = [x for x, _ in before_tab if x > t]
                tn = min(later) if later else None
                old = list(self.qd)
                after_tab = [(int(a), int(d)) for a, d in zip(self.part._quarter_times, self.part._quarter_durations)]
                try:
                    qmap = None if light else self.part.quarter_duration_map
                except Exception:
                    qmap = None
                for s in ([] if light else sorted(set(probe_times) | {t, t + 1, max(t - 1, 0)} | ({tn, tn - 1} if tn is not None else set()))):
                    want = q if (t <= s and (tn is None or s < tn)) else self.spec_qd(s, old)
                    got = self.spec_qd(s, after_tab) if after_tab else None
                    if got != want:
                        bad.append("O3: after set_quarter_duration(%d, %d) the change table gives %r at %d, expected %r" % (t, q, got, s, want))
                        break
                    try:
                        gm = int(qmap(s))
                        gc = int((getattr(self.part, "_quarter_map", None) or qmap)(s))
                    except Exception as e:
                        gm = gc = "%s" % type(e).__name__
                    if gm != want or gc != want:
                        bad.append("O3: after set_quarter_duration(%d, %d) quarter_duration_map(%d) = %r (cached %r), expected %r" % (t, q, s, gm, gc, want))
                        break
                if not set(x for x, _ in before_tab) <= set(x for x, _ in after_tab) <= set(x for x, _ in before_tab) | {t}:
                    bad.append("O3: change times %r -> %r after set_quarter_duration(%d, %d)" % (before_tab, after_tab, t, q))
                # the specification's step function after the operation
                ts = sorted(set(x for x, _ in old) | {t})
                self.qd = [(x, q if (t <= x and (tn is None or x < tn)) else self.spec_qd(x, old)) for x in ts]
        if light:
            return None, bad
        try:
            bad += ["O1: " + m for m in self.inv()]
        except Exception as e:
            bad.append("O1: state not inspectable: %s: %s" % (type(e).__name__, e))
        obs = self.dump()
        obs["out"] = code
        qres = []
        for q in st.get("queries", []):
            try:
                got, exp = self.query(q)
            except Exception as e:
                bad.append("O2/O4: query %r raised %s: %s" % (q, type(e).__name__, e))
                got, exp = ["error", type(e).__name__], None
            if exp is not None and got != exp:
                dup = ""
                if got and got[0] == "objs":
                    ids = [tuple(o) for _, o in got[1]]
                    rep = sorted({x for x in ids if ids.count(x) > 1})
                    if rep:
                        dup = " -- object(s) %s returned more than once" % [
                            "%s#%d" % (self.classes[c].__name__ if 0 <= c < len(self.classes) else c, k) for c, k in rep]
                bad.append("O2: query %s returned %r, the registered objects give %r%s" % (self.show_query(q), got, exp, dup))
            qres.append(got)
        obs["qres"] = qres
        if st.get("queries"):
            d2 = self.dump()
            if any(d2[k] != obs[k] for k in ("points", "qtab", "refs")):
                bad.append("O2: a read-only query changed the part")
        if self.fresh and not bad:
            try:
                bad += self.fresh_compare(st.get("queries", []), qres, obs)
            except Exception as e:
                bad.append("O5: a part freshly built from the current registrations could not be built/queried: %s: %s" % (type(e).__name__, e))
        for tp in self.part._points:
            try:
                self.held.setdefault(int(tp.t), tp)
            except Exception:
                pass
        self.nstep += 1
        return obs, bad

    def fresh_compare(self, queries, qres, obs):
        """History independence: everything observable depends on the CURRENT registrations only.  A second part is
        built from scratch out of the specification state (new objects of the same classes, registered in another
        order, by start and by end separately, the quarter changes in time order interleaved with the additions) and
        asked the same questions in reverse order; the answers and the dumps must be equal."""
        import random
        rnd = random.Random(1000003 * self.nstep + len(self.objs))
        fr = Runner.__new__(Runner)
        fr.S, fr.classes, fr.cid, fr.T = self.S, self.classes, self.cid, self.T
        fr.fresh, fr.held, fr.nstep = False, {}, 0
        fr.part = self.S.Part(self.part.id, quarter_duration=self.qd[0][1])
        fr.objs = []
        for o in self.objs:
            n = type(o).__new__(type(o))
            self.S.TimedObject.__init__(n)
            fr.objs.append(n)
        fr.oid = {id(o): self.oid[id(self.objs[k])] for k, o in enumerate(fr.objs)}
        fr.reg = [list(r) for r in self.reg]
        fr.qd = list(self.qd)
        fr.allowed_empty = set(self.allowed_empty)
        acts = []
        for k, (a, b) in enumerate(self.reg):
            if a is not None and b is not None and rnd.random() < 0.5:
                acts.append(("add", k, a, b))
            else:
                if a is not None:
                    acts.append(("add", k, a, None))
                if b is not None:
                    acts.append(("add", k, None, b))
        acts += [("gp", t) for t in sorted(self.allowed_empty)]
        rnd.shuffle(acts)
        sets = [("setq", t, v) for t, v in self.qd[1:]]
        while acts or sets:
            a = sets.pop(0) if sets and (not acts or rnd.random() < 0.4) else acts.pop()
            if a[0] == "add":
                kw = {}
                if a[2] is not None:
                    kw["start"] = a[2]
                if a[3] is not None:
                    kw["end"] = a[3]
                fr.part.add(fr.objs[a[1]], **kw)
            elif a[0] == "gp":
                fr.part.get_or_add_point(a[1])
            else:
                fr.part.set_quarter_duration(a[1], a[2])
        bad = []
        d = fr.dump()
        for key in ("points", "refs"):
            if d[key] != obs[key]:
                bad.append("O5: the part reached by this history differs from a part freshly built from the same registrations: %s %s, fresh %s"
                           % (key, json.dumps(obs[key]), json.dumps(d[key])))
        for q, got in reversed(list(zip(queries, qres))):
            if q[0] in ("qd", "qd_write"):
                continue    # the change TABLE may keep redundant entries of the history; its function is compared through the maps
            try:
                g2 = fr.query(q)[0]
            except Exception as e:
                g2 = ["error", type(e).__name__]
            if g2 != got:
                bad.append("O5: query %s returned %r after this history, %r on a part freshly built from the same registrations" % (self.show_query(q), got, g2))
        return bad

    def recheck(self, st):
        """The part is looked at once more (after operations on ANOTHER part): invariant and the last step's queries."""
        bad = []
        try:
            bad += ["O1: " + m for m in self.inv()]
        except Exception as e:
            bad.append("O1: state not inspectable: %s: %s" % (type(e).__name__, e))
        for q in st.get("queries", []):
            if q[0] == "qd_write":
                q = ["qd"] + q[1:]
            try:
                got, exp = self.query(q)
            except Exception as e:
                bad.append("O2/O4: query %r raised %s: %s" % (q, type(e).__name__, e))
                continue
            if exp is not None and got != exp:
                bad.append("O2: query %s returned %r, the registered objects give %r" % (self.show_query(q), got, exp))
        return bad


def run_history(hist, classes, cid, stop_on_bad=True, last_only=False):
    """-> (observations, first_bad_step or None, messages, invalid).  invalid: an op is not a valid argument.
    last_only: full oracle / observation for the last step only (small-scope enumeration)."""
    r = Runner(hist, classes, cid)
    probe = sorted(set(hist.get("pool", [])) | {0, 1, 2, 5, 1000})
    obs_all = []
    for i, st in enumerate(hist["steps"]):
        if not r.valid(st["op"]):
            return obs_all, None, ["step %d: %r is not a valid argument here" % (i, st["op"])], True
        light = last_only and i + 1 < len(hist["steps"])
        obs, bad = r.step(st, probe, light=light)
        if not light:
            obs_all.append(obs)
        if bad and stop_on_bad:
            return obs_all, i, bad, False
    if hist.get("fresh") and hist["steps"] and not last_only:
        # the same questions once more with no operation in between (the caller's copies have been written into)
        bad = r.recheck(hist["steps"][-1])
        if bad:
            return obs_all, len(hist["steps"]) - 1, ["(asked again, nothing changed in between) " + m for m in bad], False
    return obs_all, None, [], False


# ----------------------------------------------------------------------------- generator

FAVOURED = ["LoudnessDirection", "ConstantDirection", "DynamicDirection", "ImpulsiveDirection", "Direction", "GraceNote", "Note",
            "GenericNote", "Rest", "TempoDirection", "ArticulationDirection", "Measure", "TimedObject", "SustainPedalDirection"]
QVALS = [1, 2, 3, 4, 6, 12]
NONE_CLS_BUDGET = 3   # iter_all(cls=None) walks iter_subclasses(object) (thousands of classes) per point: rationed


def pick_cls(rng, hist, allow_none):
    """cls of a query.  Weights: None (all) / TimedObject / a class ABOVE BOTH branches of a multiply inherited
    class that is on the part / a class on ONE branch only / ancestor-or-self of some object / any class."""
    x = rng.random()
    if allow_none and x < 0.6:
        return None
    x = rng.random()
    if x < 0.14:
        return 0
    if x < 0.36 and hist["joins"]:
        return rng.choice(hist["joins"])
    if x < 0.52 and hist["branches"]:
        return rng.choice(hist["branches"])
    if x < 0.92:
        return rng.choice(hist["rel_classes"])
    return rng.randrange(hist["ncls"])


def gen_queries(rng, hist, reg, point_times, qtimes, n, allow_none_cls):
    pool = hist["pool"]
    qs = []
    for _ in range(n):
        x = rng.random()
        if x < 0.45:
            c = pick_cls(rng, hist, allow_none_cls)
            if c is None:
                allow_none_cls = False
            tt = [None, None, None] + pool + [t + 1 for t in pool] + [max(pool) + 5] + point_times + [t + 1 for t in point_times]
            a, b = rng.choice(tt), rng.choice(tt)
            y = rng.random()
            if y < 0.12 and point_times:          # window that is exactly one point / starts and ends on points
                a = rng.choice(point_times)
                b = a + 1 if rng.random() < 0.5 else rng.choice(point_times)
            elif y < 0.2 and a is not None:
                a = a - 1 if a > 0 else -1
            qs.append(["iter_all", c, a, b, rng.random() < 0.65, rng.choice(["starting", "starting", "ending"]), rng.choice([0, 0, 1, 2, 2])])
        elif x < 0.75 and point_times:
            c = pick_cls(rng, hist, False)
            t0 = rng.choice([point_times[0], point_times[-1], rng.choice(point_times), rng.choice(point_times)])
            qs.append([rng.choice(["iter_next", "iter_prev"]), t0, c, rng.random() < 0.4, rng.random() < 0.65])
        elif x < 0.80:
            qs.append(["first_last"])
        elif x < 0.86:
            qs.append(["get_point", rng.choice(pool + [max(pool) + 1, -1] if rng.random() < 0.1 else pool + point_times + [max(pool) + 1])])
        elif x < 0.91:
            tt = [None] + qtimes + [t + 1 for t in qtimes]
            qs.append(["qd", rng.choice(tt), rng.choice(tt)])
        elif x < 0.95:
            # the binary search itself: on a point, between points, before the first, beyond the last
            tt = point_times + [t + 1 for t in point_times] + [t - 1 for t in point_times if t > 0] + pool + [0, max(pool + point_times) + 3]
            qs.append(["search", rng.choice(tt)])
        elif x < 0.97:
            tt = point_times + pool + [t + 1 for t in point_times]
            a = rng.choice(tt)
            qs.append(["cmp", a, a if rng.random() < 0.25 else rng.choice(tt)])
        else:
            tt = qtimes + [t + 1 for t in qtimes] + [max(t - 1, 0) for t in qtimes] + pool
            qs.append(["cached", rng.choice(tt)])
    return qs


def gen_history(rng, classes, cid, nsteps=None, nq=4, shape=None):
    """Structured, state-aware generator: mostly valid operations with weight on the corner cases
    the property singles out."""
    names = {c.__name__: i for i, c in enumerate(classes)}
    shape = shape or tree_shape(classes, cid)
    fav = [names[n] for n in FAVOURED if n in names]
    nobj = rng.randint(2, 8)
    objs = []
    for _ in range(nobj):
        x = rng.random()
        if x < 0.35 and shape["twice"]:
            objs.append(rng.choice(shape["twice"]))       # multiply inherited direction classes and their subclasses
        elif x < 0.65 and fav:
            objs.append(rng.choice(fav))
        else:
            objs.append(rng.randrange(len(classes)))
    if rng.random() < 0.1:
        pool = sorted(set([0] + rng.sample(range(1, 64), rng.randint(12, 20))))   # long timelines: the binary search has depth
        nobj = max(nobj, 10)
        objs += [rng.randrange(len(classes)) for _ in range(nobj - len(objs))]
    else:
        pool = sorted(set([0] + rng.sample(range(1, 24), rng.randint(2, 7))))
    rel = sorted({cid[a] for k in objs for a in classes[k].__mro__ if a in cid})
    joins = sorted({a for k in objs for a in shape["joins"].get(k, [])})
    branches = sorted({a for k in objs for a in shape["branches"].get(k, [])})
    hist = {"q0": rng.choice([1, 1, 2, 4, 12]), "tkind": rng.choice(["int"] * 7 + ["int64", "int32", "mixed"]), "objs": objs, "pool": pool, "ncls": len(classes), "rel_classes": rel,
            "joins": joins, "branches": branches, "steps": []}
    reg = [[None, None] for _ in objs]
    qtab = [(0, hist["q0"])]
    empty_pts = set()
    n = nsteps or rng.randint(5, 60)
    if len(pool) > 10 and not nsteps:
        n = max(n, 60)
    pending = []  # scripted follow-up operations (forced patterns)
    none_cls_budget = NONE_CLS_BUDGET
    while len(hist["steps"]) < n:
        live = sorted({t for r in reg for t in r if t is not None} | empty_pts)
        unreg = [k for k in range(nobj) if reg[k] == [None, None]]
        anyreg = [k for k in range(nobj) if reg[k] != [None, None]]

        def alone_at(t):
            ks = [k for k in range(nobj) if t in reg[k]]
            return ks[0] if len(ks) == 1 and t not in empty_pts else None

        def in_force(t):
            return [q for a, q in qtab if a <= t][-1] if any(a <= t for a, _ in qtab) else qtab[0][1]

        kind = None
        if pending:
            op, kind = pending.pop(0)
            # a scripted op may have become invalid; drop it then
            if op[0] == "remove" and reg[op[1]] == [None, None]:
                continue
            if op[0] == "add" and ((op[2] is not None and reg[op[1]][0] is not None) or (op[3] is not None and reg[op[1]][1] is not None)):
                continue
            if op[0] == "gpadd" and reg[op[1]][0 if op[2] == "start" else 1] is not None:
                continue
        else:
            x = rng.random()
            if x < 0.36 and (unreg or any(None in r for r in reg)):
                cands = [k for k in range(nobj) if None in reg[k]]
                k = rng.choice(unreg) if unreg and rng.random() < 0.8 else rng.choice(cands)
                s = e = None
                y = rng.random()
                if reg[k] == [None, None]:
                    if y < 0.15:
                        s = e = rng.choice(pool)
                        kind = "add:start==end"
                    elif y < 0.30:
                        s = rng.choice(pool)
                        kind = "add:start only"
                    elif y < 0.40:
                        e = rng.choice(pool)
                        kind = "add:end only"
                    elif y < 0.50:
                        # beyond the last / before the first point
                        s, e = (max(live + [0]) + 1, max(live + [0]) + 3) if rng.random() < 0.6 else (0, rng.choice(pool))
                        kind = "add:at an end of the timeline"
                    elif y < 0.56:
                        s, e = rng.choice(pool), rng.choice(pool)
                        kind = "add:both (any order)"
                    else:
                        s, e = sorted([rng.choice(pool), rng.choice(pool)])
                        kind = "add:both"
                elif reg[k][0] is None:
                    s = rng.choice([t for t in pool if t <= reg[k][1]] or [0])
                    kind = "add:missing start"
                else:
                    e = rng.choice([t for t in pool if t >= reg[k][0]] or [reg[k][0]])
                    kind = "add:missing end"
                op = ["add", k, s, e]
                if rng.random() < 0.25:
                    side = "start" if s is not None else "end"
                    if (s is None) != (e is None):
                        op = ["gpadd", k, side, s if s is not None else e]
                        kind = "gpadd"
            elif x < 0.68 and anyreg:
                y = rng.random()
                tgt = None
                if live and y < 0.22:
                    tgt = alone_at(live[-1])
                    kind = "remove:only object of the last point"
                elif live and y < 0.40:
                    tgt = alone_at(live[0])
                    kind = "remove:only object of the first point"
                elif len(live) >= 3 and y < 0.55:
                    tgt = alone_at(rng.choice(live[1:-1]))
                    kind = "remove:only object of an interior point"
                if tgt is None:
                    tgt = rng.choice(anyreg)
                    kind = "remove:other"
                w = rng.choice(["both", "both", "start", "end"])
                if w == "start" and reg[tgt][1] is not None and rng.random() < 0.7:
                    pending.append((["remove", tgt, "end"], "scripted:remove by end after by start"))
                    kind = "remove:start then end"
                elif w == "end" and reg[tgt][0] is not None and rng.random() < 0.5:
                    pending.append((["remove", tgt, "start"], "scripted:remove by start after by end"))
                    kind = "remove:end then start"
                op = ["remove", tgt, w]
            elif x < 0.72:
                op = ["remove", rng.randrange(nobj), rng.choice(["both", "start", "end"])]
                kind = "remove:any (maybe unregistered)"
            elif x < 0.90:
                y = rng.random()
                gaps = [(a, b) for a, b in zip(live, live[1:]) if b - a > 1]
                if y < 0.28 and len(qtab) >= 2:
                    # re-set at an existing change point with the previous entry's value (D03)
                    i = rng.randrange(1, len(qtab))
                    op = ["setq", qtab[i][0], qtab[i - 1][1]]
                    kind = "setq:existing change, previous value"
                elif y < 0.40:
                    i = rng.randrange(len(qtab))
                    op = ["setq", qtab[i][0], rng.choice(QVALS)]
                    kind = "setq:existing change"
                elif y < 0.48:
                    t = rng.choice(pool + [max(pool) + 2])
                    op = ["setq", t, in_force(t)]
                    kind = "setq:redundant value"
                elif y < 0.58 and len(live) >= 2:
                    # out of time order: a change AT a later point first, then an earlier one (the later point keeps its value)
                    i = rng.randrange(1, len(live))
                    t2, t1 = live[i], rng.choice([live[i - 1], live[i] - 1, rng.randrange(0, live[i])])
                    q2 = rng.choice([q for q in QVALS if q != in_force(t2)])
                    op = ["setq", t2, q2]
                    pending.append((["setq", t1, rng.choice([q for q in QVALS if q != q2])], "scripted:setq earlier than an existing change at a point"))
                    kind = "setq:at a point, later than the next one set"
                elif y < 0.66 and gaps:
                    a, b = rng.choice(gaps)
                    op = ["setq", rng.randrange(a + 1, b), rng.choice(QVALS)]
                    kind = "setq:between two points"
                elif y < 0.72 and live and live[0] > 0:
                    op = ["setq", rng.randrange(0, live[0]), rng.choice(QVALS)]
                    kind = "setq:before the first point"
                else:
                    t = rng.choice(pool + [p + 1 for p in pool])
                    op = ["setq", t, rng.choice(QVALS)]
                    kind = "setq:new"
                if op[2] != in_force(op[1]) and rng.random() < 0.35:
                    # a point created later inside the span of the change must carry the new value
                    later = [a for a, _ in qtab if a > op[1]]
                    hi = (min(later) if later else op[1] + 6)
                    cand = [t for t in range(op[1], hi) if t not in live]
                    free = [k for k in range(nobj) if None in reg[k]]
                    if cand and free:
                        k, t = rng.choice(free), rng.choice(cand)
                        if reg[k][0] is None:
                            pending.append((["add", k, t, None], "scripted:add inside the span of a new quarter duration"))
                        else:
                            pending.append((["add", k, None, t], "scripted:add inside the span of a new quarter duration"))
            elif x < 0.95:
                t = rng.choice(pool + [max(pool) + 1])
                op = ["gp", t]
                kind = "gp:existing point" if t in live else "gp:new (empty) point"
                if t not in live and rng.random() < 0.7:
                    cands = [k for k in range(nobj) if None in reg[k]]
                    if cands:
                        k = rng.choice(cands)
                        pending.append((["gpadd", k, "start" if reg[k][0] is None else "end", t], "scripted:gpadd on the new point"))
            elif x < 0.975 and anyreg:
                # TimePoint.remove_*_object on the point the object refers to: no clean-up, the point may stay empty;
                # often followed by an add at that time and a Part.remove (which then has to clean the point up)
                live_alone = [t for t in live if alone_at(t) is not None]
                if live_alone and rng.random() < 0.6:
                    t = rng.choice([live_alone[0], live_alone[-1], rng.choice(live_alone)])
                    k = alone_at(t)
                    side = "start" if reg[k][0] == t else "end"
                    kind = "tpremove:only object of the point"
                else:
                    k = rng.choice(anyreg)
                    side = "start" if reg[k][0] is not None and (reg[k][1] is None or rng.random() < 0.5) else "end"
                    t = reg[k][0 if side == "start" else 1]
                    kind = "tpremove:other"
                op = ["tpremove", k, side]
                if rng.random() < 0.5:
                    pending.append((["gpadd", k, side, t], "scripted:gpadd on a point emptied by TimePoint.remove_*"))
                    pending.append((["remove", k, rng.choice(["both", side])], "scripted:remove after re-adding on an emptied point"))
            elif x < 0.99:
                k = rng.randrange(nobj)
                t = rng.choice(pool)
                op = rng.choice([["add", k, -rng.randint(1, 3), None], ["add", k, None, -1], ["gp", -rng.randint(1, 2)],
                                 ["add", k, t, -1], ["add", k, t, -rng.randint(1, 3)], ["add", k, -1, t]])
                if op[0] == "add" and ((op[2] is not None and reg[k][0] is not None) or (op[3] is not None and reg[k][1] is not None)):
                    continue
                kind = "negative time" + (":other side valid" if op[0] == "add" and None not in op[2:4] else "")
            else:
                continue
        # keep the specification state of the generator
        if op[0] in ("add", "gpadd"):
            k = op[1]
            s, e = (op[2], op[3]) if op[0] == "add" else ((op[3], None) if op[2] == "start" else (None, op[3]))
            if (s is not None and reg[k][0] is not None) or (e is not None and reg[k][1] is not None):
                continue
            if not any(v is not None and v < 0 for v in (s, e)):
                if s is not None:
                    reg[k][0] = s
                if e is not None:
                    reg[k][1] = e
        elif op[0] == "remove":
            if op[2] in ("start", "both"):
                reg[op[1]][0] = None
            if op[2] in ("end", "both"):
                reg[op[1]][1] = None
        elif op[0] == "setq":
            # mirror of the documented table semantics, only used to aim later operations
            t, q = op[1], op[2]
            d = dict(qtab)
            prev = [v for a, v in qtab if a < t]
            if t in d or not prev or prev[-1] != q:
                d[t] = q
            qtab = sorted(d.items())
        elif op[0] == "gp" and op[1] >= 0:
            if not any(op[1] in r for r in reg):
                empty_pts.add(op[1])
        elif op[0] == "tpremove":
            j = 0 if op[2] == "start" else 1
            t = reg[op[1]][j]
            reg[op[1]][j] = None
            if t is not None and not any(t in r for r in reg):
                empty_pts.add(t)
        live2 = {t for r in reg for t in r if t is not None}
        empty_pts -= live2
        pts = sorted(live2 | empty_pts)
        twice_on = any(reg[k] != [None, None] and objs[k] in shape["joins"] for k in range(nobj))
        allow_none = none_cls_budget > 0 and rng.random() < (0.12 if twice_on else 0.04)
        qs = gen_queries(rng, hist, reg, pts, [a for a, _ in qtab], rng.randint(nq - 2, nq + 2) if nq else 0, allow_none)
        if any(q[0] == "iter_all" and q[1] is None for q in qs):
            none_cls_budget -= 1
        hist["steps"].append({"op": op, "queries": qs, "kind": kind})
    return hist


# ----------------------------------------------------------------------------- state carried between calls
# The history stream: the same questions before and after every edit (a memo that is not invalidated answers the
# old question), the caller's copies written into, time points the caller kept, every integer kind for times and
# quarter values, every argument kind of the quarter map, two parts in one process (interleaved / in both orders);
# every answer is judged against the current registrations only (specification state and a freshly built part).

EXT_KINDS = ["int", "int", "int64", "int32", "mixed", "int8", "uint8", "int16", "uint16", "mixedsmall", "mixedsmall"]
BIG_Q = {1: 1, 2: 2, 3: 480, 4: 4, 6: 960, 12: 10080}      # realistic divisions; > 127 so a narrow integer kind cannot hold them
MAP_KINDS = ["int", "float", "npint", "npfloat", "0d", "0dfloat", "arr1", "arr1float", "list", "tuple", "arr", "arrfloat",
             "empty", "emptyfloat", "arr2d"]


def sticky_probes(rng, hist, with_none):
    """A fixed set of questions asked after EVERY operation of the history (in rotating order)."""
    pool = hist["pool"]
    tt = [None, None] + pool + [t + 1 for t in pool]
    pr = []
    c0 = pick_cls(rng, hist, False)
    pr.append(["iter_all", None if with_none else c0, None, None, True, "starting", 0])
    a, b = sorted(rng.sample(pool, 2)) if len(pool) >= 2 else (0, 5)
    pr.append(["iter_all", pick_cls(rng, hist, False), a, b if rng.random() < 0.7 else None, rng.random() < 0.7,
               rng.choice(["starting", "ending"]), rng.choice([2, 3, 3])])
    pr.append(["iter_all", 0, rng.choice(tt), rng.choice(tt), True, rng.choice(["starting", "ending"]), rng.choice([0, 1, 3])])
    pr.append([rng.choice(["iter_next", "iter_prev"]), rng.choice(pool), pick_cls(rng, hist, False), rng.random() < 0.5, True])
    pr.append([rng.choice(["iter_next", "iter_prev"]), rng.choice(pool), 0, rng.random() < 0.5, True])
    pr.append(["first_last"])
    pr.append(["get_point", rng.choice(pool)])
    pr.append(["qd", None, None])
    pr.append(["qd_write", None, None] if rng.random() < 0.7 else ["qd_write", rng.choice(tt), rng.choice(tt)])
    pr.append(["cached", rng.choice(pool)])
    pr.append(["map", 2 * rng.choice(pool) + rng.choice([0, 1]), rng.choice(MAP_KINDS)])
    pr.append(["search", rng.choice(pool)])
    keep = pr[:1] + rng.sample(pr[1:], rng.randint(5, 8))
    if ["qd", None, None] not in keep:
        keep.append(["qd", None, None])
    return keep


def gen_history_h(rng, classes, cid, shape, nsteps=None):
    h = gen_history(rng, classes, cid, nsteps=nsteps or rng.randint(6, 22), nq=2, shape=shape)
    h["tkind"] = rng.choice(EXT_KINDS)
    h["pid"] = rng.choice(["P", "P", "P", "P0", "P1"])
    h["fresh"] = True
    if rng.random() < 0.6:                 # the same history with realistic (large) quarter durations
        h["q0"] = BIG_Q.get(h["q0"], h["q0"])
        for st in h["steps"]:
            if st["op"][0] == "setq":
                st["op"][2] = BIG_Q.get(st["op"][2], st["op"][2])
    with_none = len(h["steps"]) <= 10 and rng.random() < 0.3
    pr = sticky_probes(rng, h, with_none)
    h["probes"] = len(pr)
    for i, st in enumerate(h["steps"]):
        own = [q for q in st["queries"] if not (q[0] == "iter_all" and q[1] is None)]
        for q in own:
            if q[0] == "iter_all" and rng.random() < 0.3:
                q[6] = 3
        if rng.random() < 0.5:
            own.append(["map", 2 * rng.choice(h["pool"]) + rng.choice([0, 1]), rng.choice(MAP_KINDS)])
        k = i % len(pr)
        st["queries"] = own + pr[k:] + pr[:k]
        st["kind"] = "H:" + (st.get("kind") or st["op"][0])
    return h


def gen_pair(rng, classes, cid, shape):
    hs = [gen_history_h(rng, classes, cid, shape, nsteps=rng.randint(4, 14)) for _ in range(2)]
    if rng.random() < 0.6:
        hs[1]["pid"] = hs[0]["pid"]       # two scores loaded in one process usually both call their part "P1"
    na, nb = len(hs[0]["steps"]), len(hs[1]["steps"])
    x = rng.random()
    if x < 0.2:
        sched = [0] * na + [1] * nb
    elif x < 0.4:
        sched = [1] * nb + [0] * na
    else:
        sched = [0] * na + [1] * nb
        rng.shuffle(sched)
    return {"parts": hs, "schedule": sched, "lazy": rng.random() < 0.4}


def run_pair(pair, classes, cid, stop_on_bad=True):
    """Two parts in one process.  -> (obs per part, (part, step, schedule position) of the first failure or None, messages, invalid)."""
    hs, sched = pair["parts"], pair["schedule"]
    runners = [None, None] if pair.get("lazy") else [Runner(h, classes, cid) for h in hs]
    pos, obs = [0, 0], [[], []]
    probes = [sorted(set(h.get("pool", [])) | {0, 1, 2, 5, 1000}) for h in hs]
    first = None
    allmsgs = []
    for n, w in enumerate(sched):
        if runners[w] is None:
            runners[w] = Runner(hs[w], classes, cid)
        r, st = runners[w], hs[w]["steps"][pos[w]]
        if not r.valid(st["op"]):
            return obs, None, ["part %d step %d: %r is not a valid argument here" % (w, pos[w], st["op"])], True
        ob, bad = r.step(st, probes[w])
        obs[w].append(ob)
        pos[w] += 1
        if bad:
            if first is None:
                first, allmsgs = (w, pos[w] - 1, n), bad
            if stop_on_bad:
                return obs, first, allmsgs, False
    if first is None:
        for w in (0, 1):
            if runners[w] is not None and pos[w] > 0:
                bad = runners[w].recheck(hs[w]["steps"][pos[w] - 1])
                if bad:
                    return obs, (w, pos[w] - 1, len(sched)), ["(looked at again after the last operation on the other part) " + m for m in bad], False
    return obs, first, allmsgs, False


def pair_of(pair, items):
    hs = [dict(pair["parts"][w], steps=[st for ww, st in items if ww == w]) for w in (0, 1)]
    return {"parts": hs, "schedule": [w for w, _ in items], "lazy": pair.get("lazy", False)}


def pair_items(pair):
    pos, items = [0, 0], []
    for w in pair["schedule"]:
        items.append((w, pair["parts"][w]["steps"][pos[w]]))
        pos[w] += 1
    return items


def strip_hist(h):
    h = dict(h)
    h["steps"] = [{"op": s["op"], "queries": s.get("queries", [])} for s in h["steps"]]
    for k in ("rel_classes", "joins", "branches"):
        h.pop(k, None)
    return h


def report_pair_failure(ctx, pair, classes, cid, first, msgs):
    tag = msgs[0].replace("(looked at again after the last operation on the other part) ", "")[:3]
    items = pair_items(pair)[: first[2] + 1]

    def fails(sub):
        try:
            _, f, m, invalid = run_pair(pair_of(pair, sub), classes, cid)
        except Exception:
            return False
        return (not invalid) and f is not None and any(tag in x[:70] for x in m)

    alone = None
    try:
        if fails(items):
            items = core.ddmin(items, fails)
            for it in list(items[:-1]):              # drop the queries that do not matter
                trial = [(w, dict(st, queries=[])) if st is it[1] else (w, st) for w, st in items]
                if fails(trial):
                    items = trial
        small = pair_of(pair, items)
        obs, f2, m2, _ = run_pair(small, classes, cid)
        if f2 is not None:
            first, msgs = f2, m2
        # does it need the other part at all?
        w = first[0]
        _, i1, m1, inv1 = run_history(small["parts"][w], classes, cid)
        alone = (not inv1) and i1 is not None
    except Exception:
        small = pair_of(pair, items)
    ops = [[w] + st["op"] for w, st in pair_items(small)]
    ctx.violation("C01 fails with two parts in one process (operations as [part, op...]) after %s: %s%s" % (
                      json.dumps(ops), "; ".join(msgs[:3]),
                      "" if alone is None else (" [the failing part's own operations alone %s]" % ("fail too" if alone else "do NOT fail: state is carried over from the other part"))),
                  {"kind": "history", "pair": {"parts": [strip_hist(h) for h in small["parts"]], "schedule": small["schedule"], "lazy": small["lazy"]},
                   "failing_part": first[0], "failing_step": first[1], "messages": msgs[:6]})


# ----------------------------------------------------------------------------- Coq terms


def cobj(hist, k):
    return "(%s, %s)" % (cz(hist["objs"][k]), cz(k))


def cpair_obj(o):
    return "(%s, %s)" % (cz(o[0]), cz(o[1]))


def cop(hist, op):
    k = op[0]
    if k == "add":
        return "OAdd %s %s %s" % (cobj(hist, op[1]), copt(op[2], cz), copt(op[3], cz))
    if k == "gpadd":
        s, e = (op[3], None) if op[2] == "start" else (None, op[3])
        return "OAdd %s %s %s" % (cobj(hist, op[1]), copt(s, cz), copt(e, cz))
    if k == "remove":
        return "ORemove %s %s" % (cobj(hist, op[1]), {"start": "WStart", "end": "WEnd", "both": "WBoth"}[op[2]])
    if k == "setq":
        return "OSetQ %s %s" % (cz(op[1]), cz(op[2]))
    if k == "gp":
        return "OGetOrAdd %s" % cz(op[1])
    if k == "tpremove":
        return "OTpRemove %s %s" % (cobj(hist, op[1]), "SStart" if op[2] == "start" else "SEnd")
    raise ValueError(op)


def cquery(q):
    k = q[0]
    if k == "iter_all":
        _, c, a, b, sub, mode, _ = q
        return "QIterAll %s %s %s %s %s" % (copt(c, cz), copt(a, cz), copt(b, cz), cbool(sub), "SEnd" if mode == "ending" else "SStart")
    if k in ("iter_next", "iter_prev"):
        _, t, c, eq, sub = q
        return "%s %s (Some %s) %s %s" % ("QIterNext" if k == "iter_next" else "QIterPrev", cz(t), cz(c), cbool(eq), cbool(sub))
    if k == "first_last":
        return "QFirstLast"
    if k == "get_point":
        return "QGetPoint %s" % cz(q[1])
    if k in ("qd", "qd_write"):
        return "QQuarterDurations %s %s" % (copt(q[1], cz), copt(q[2], cz))
    if k == "map":       # scalar arguments only (see cobs); floor(s) has the same duration in force (change times are integers)
        return "QCachedMap %s" % cz(q[1] // 2)
    if k == "search":
        return "QSearch %s" % cz(q[1])
    if k == "cmp":
        return "QCmp %s %s" % (cz(q[1]), cz(q[2]))
    if k == "cached":
        return "QCachedMap %s" % cz(q[1])
    raise ValueError(q)


def cqres(r):
    if r[0] == "objs":
        return "RObjs %s" % clist(["(%s, %s)" % (cz(t), cpair_obj(o)) for t, o in r[1]])
    if r[0] == "times":
        return "RTimes %s %s" % (copt(r[1], cz), copt(r[2], cz))
    if r[0] == "qd":
        return "RQd %s" % clist(["(%s, %s)" % (cz(a), cz(b)) for a, b in r[1]])
    if r[0] == "idx":
        return "RIdx %s" % cz(r[1])
    if r[0] == "bools" and all(isinstance(b, bool) for b in r[1]):
        return "RBools %s" % clist([cbool(b) for b in r[1]])
    if r[0] == "val":
        return "RVal %s" % cz(r[1])
    return "RTimes (Some (-99)) (Some (-99))"  # a query that raised never matches the model


def cobs(hist, st, obs):
    pts = []
    for t, qq, pv, nx, stt, en in obs["points"]:
        # registries are dumped as (key class id, object index); the object term is (its class, index)
        pts.append("(%s, %s, %s, %s, %s, %s)" % (cz(t), cz(qq), copt(pv, cz), copt(nx, cz),
                                               clist([cpair_obj(o) for o in stt]), clist([cpair_obj(o) for o in en])))
    qs = []
    for n, (q, r) in enumerate(zip(st.get("queries", []), obs["qres"])):
        if q[0] == "get_point" and q[1] < 0:
            continue  # rejected argument; nothing to compare
        if hist.get("fresh") and n % 2 and q[0] not in ("cached", "map", "qd_write"):
            continue  # history stream: the direct oracle judges every answer, the models every second one (parse time)
        if q[0] == "map" and not (r[0] == "val" and isinstance(r[1], int)):
            continue  # list / array arguments: judged by the direct oracle only
        qs.append("(%s, %s)" % (cquery(q), cqres(r)))
    return "mkObs %s %s %s %s %s" % (
        cz(obs["out"]), clist(pts), clist(["(%s, %s)" % (cz(a), cz(b)) for a, b in obs["qtab"]]),
        clist(["(%s, %s)" % (copt(a, cz), copt(b, cz)) for a, b in obs["refs"]]), clist(qs))


def chistory(hist, obs_all):
    steps = ["(%s, %s)" % (cop(hist, st["op"]), cobs(hist, st, ob)) for st, ob in zip(hist["steps"], obs_all)]
    return "(%s, %s, %s)" % (cz(hist["q0"]), clist([cobj(hist, k) for k in range(len(hist["objs"]))]),
                             "[" + ";\n    ".join(steps) + "]")


def cfinal(hist, obs_last):
    st = hist["steps"][-1]
    return "(%s, %s, %s, %s)" % (cz(hist["q0"]), clist([cobj(hist, k) for k in range(len(hist["objs"]))]),
                                 clist([cop(hist, s["op"]) for s in hist["steps"]]), cobs(hist, st, obs_last))


IMPORTS = "From PV Require Import Lib.Base Gen.C01_ClassTree Model.C01 Model.C01_Idx Model.C01_Dict."
IMPORTS_EV = "From PV Require Import Lib.Base Gen.C01_ClassTree Model.C01 Model.C01_Idx Model.C01_Hist."
MODELS = ["Model/C01.vo", "Model/C01_Idx.vo", "Model/C01_Dict.vo", "Model/C01_Hist.vo", "Model/C01_QMap.vo", "Model/C01_Args.vo"]


def cevents(hist, obs_all):
    """The history as the event trace of Model/C01_Hist.v: operations interleaved with the questions whose answer
    depends on the cached quarter map (`cached` -> EAskNew) or on the tables (`map` with a scalar -> EAskMap), and the
    answers the real Part gave.  -> (Coq term, number of questions)."""
    evs, ans = [], []
    for st, ob in zip(hist["steps"], obs_all):
        evs.append("EOp (%s)" % cop(hist, st["op"]))
        for q, r in zip(st.get("queries", []), ob["qres"]):
            if q[0] in ("cached", "map") and r[0] == "val" and isinstance(r[1], int):
                evs.append("%s %s" % ("EAskNew" if q[0] == "cached" else "EAskMap", cz(q[1] if q[0] == "cached" else q[1] // 2)))
                ans.append(cz(r[1]))
    return "(%s, %s, %s)" % (cz(hist["q0"]), clist(evs), clist(ans)), len(ans)
HISTORY_OK = "(fun c => history_ok c && history_ok_idx c && dhistory_ok c)"
FINAL_OK = "(fun c => final_ok c && final_ok_idx c && dfinal_ok c)"
FIRST_DIFFS = [("list-level model Model/C01.v", "first_diff objs (init q0) 0 h"),
               ("index-level model Model/C01_Idx.v", "first_diff_idx objs (init_idx q0) 0 h"),
               ("registry-level model Model/C01_Dict.v", "dfirst_diff objs dinit 0 h")]

# ----------------------------------------------------------------------------- reporting


def replay_obj(hist, upto, msgs, obs=None):
    h = dict(hist)
    h["steps"] = [{"op": s["op"], "queries": s.get("queries", [])} for s in hist["steps"][: upto + 1]]
    for k in ("rel_classes", "joins", "branches"):
        h.pop(k, None)
    return {"kind": "history", "history": h, "failing_step": upto, "messages": msgs[:6], "observed_after_failing_step": obs}


def shrink(hist, classes, cid, first_msg_tag):
    """ddmin over the steps, keeping a history that is still valid and still fails the oracle the same way."""
    def fails(steps):
        h = dict(hist)
        h["steps"] = steps
        try:
            _, i, msgs, invalid = run_history(h, classes, cid)
        except Exception:
            return False
        return (not invalid) and i is not None and any(first_msg_tag in m[:60] for m in msgs)

    steps = core.ddmin(hist["steps"], fails)
    h = dict(hist)
    h["steps"] = steps
    # drop the queries that do not matter
    for s in h["steps"][:-1]:
        trial = [dict(x, queries=[]) if x is s else x for x in h["steps"]]
        if fails(trial):
            h["steps"] = trial
    return h


def report_oracle_failure(ctx, hist, classes, cid, i, msgs, prev_hist=None):
    tag = msgs[0].replace("(asked again, nothing changed in between) ", "")[:3]
    h = dict(hist)
    h["steps"] = hist["steps"][: i + 1]
    try:
        # a failure that does not show when the history runs again on its own needs what an EARLIER history of this
        # process left behind: replay it together with its predecessor
        _, i0, _, inv0 = run_history(h, classes, cid)
        if i0 is None and not inv0 and prev_hist is not None:
            pair = {"parts": [prev_hist, h], "schedule": [0] * len(prev_hist["steps"]) + [1] * len(h["steps"]), "lazy": True}
            _, first, pm, pinv = run_pair(pair, classes, cid)
            if first is not None and not pinv:
                report_pair_failure(ctx, pair, classes, cid, first, pm)
                return
    except Exception:
        pass
    try:
        h = shrink(h, classes, cid, tag)
        obs_all, i2, msgs2, _ = run_history(h, classes, cid)
        if i2 is not None:
            i, msgs = i2, msgs2
        else:
            h = dict(hist, steps=hist["steps"][: i + 1])
            obs_all = run_history(h, classes, cid)[0]
    except Exception:
        obs_all = []
    ops = [s["op"] for s in h["steps"][: i + 1]]
    ctx.violation("C01 fails on the real Part after %s: %s" % (json.dumps(ops), "; ".join(msgs[:3])),
                  replay_obj(h, i, msgs, obs_all[-1] if obs_all else None))


# ----------------------------------------------------------------------------- small-scope enumeration


def small_scope_ops(nobj, times, qvals, tpremove=False):
    ops = []
    for k in range(nobj):
        for s, e in itertools.product([None] + times, [None] + times):
            if s is None and e is None:
                continue
            if s is not None and e is not None and s > e:
                continue
            ops.append(["add", k, s, e])
        for w in ("start", "end", "both"):
            ops.append(["remove", k, w])
        if tpremove:
            ops += [["tpremove", k, "start"], ["tpremove", k, "end"]]
    for t in times:
        for q in qvals:
            ops.append(["setq", t, q])
    for t in times:
        ops.append(["gp", t])
    return ops


_ENUM = {}   # scope of the running enumeration, inherited by the forked workers


def _enum_subtree(first):
    """All valid histories of the current scope whose first operation is ops[first]: direct oracle on each.
    -> (good [(ops list, Coq term)], bad [(ops list, first bad step, messages)] (at most 3), number executed)."""
    E = _ENUM
    ops, base, maxlen, fixed_queries, classes, cid = E["ops"], E["base"], E["maxlen"], E["fq"], E["classes"], E["cid"]
    good, bad, n = [], [], 0

    def rec(prefix, reg, cands):
        nonlocal n
        for op in cands:
            # validity on the specification state (no double registration)
            k = op[0]
            reg2 = reg
            if k == "add":
                if (op[2] is not None and reg[op[1]][0] is not None) or (op[3] is not None and reg[op[1]][1] is not None):
                    continue
                reg2 = [list(r) for r in reg]
                if op[2] is not None:
                    reg2[op[1]][0] = op[2]
                if op[3] is not None:
                    reg2[op[1]][1] = op[3]
            elif k == "remove":
                reg2 = [list(r) for r in reg]
                if op[2] in ("start", "both"):
                    reg2[op[1]][0] = None
                if op[2] in ("end", "both"):
                    reg2[op[1]][1] = None
            elif k == "tpremove":
                reg2 = [list(r) for r in reg]
                reg2[op[1]][0 if op[2] == "start" else 1] = None
            steps = prefix + [{"op": op, "queries": []}]
            h = dict(base, steps=steps[:-1] + [{"op": op, "queries": fixed_queries}])
            obs_all, i, msgs, invalid = run_history(h, classes, cid, last_only=True)
            n += 1
            if i is not None:
                if len(bad) < 3:
                    bad.append(([s["op"] for s in steps], i, msgs))
                else:
                    bad.append(None)
            else:
                good.append(([s["op"] for s in steps], cfinal(h, obs_all[-1])))
            if len(steps) < maxlen and i is None:
                rec(steps, reg2, ops)

    rec([], [[None, None] for _ in base["objs"]], [ops[first]])
    return good, bad, n


def enumerate_small(ctx, classes, cid, maxlen, objs, times, qvals, fixed_queries, label, tpremove=False, coq_every=1):
    """All histories of length <= maxlen over the given scope: direct oracle on each (the subtrees below the first
    operation are enumerated by forked workers; the result does not depend on their number), final state of each
    compared with the models in Coq (every prefix is itself an enumerated history).  coq_every = k > 1: the direct
    oracle still runs on ALL histories, the Coq comparison on every k-th in enumeration order (the terms of a
    quarter of a million histories take longer to parse than the tier allows); the obligation says so."""
    ops = small_scope_ops(len(objs), times, qvals, tpremove)
    base = {"q0": 1, "objs": objs, "pool": times, "ncls": len(classes), "rel_classes": []}
    _ENUM.update(ops=ops, base=base, maxlen=maxlen, fq=fixed_queries, classes=classes, cid=cid)
    results = None
    if core.NJOBS > 1:
        try:
            import multiprocessing
            with multiprocessing.get_context("fork").Pool(min(core.NJOBS, 8)) as pool:
                results = pool.map(_enum_subtree, range(len(ops)), chunksize=1)
        except Exception as e:  # no fork / no semaphores: enumerate in this process
            ctx.log("small scope %s: parallel enumeration unavailable (%s: %s), running serially" % (label, type(e).__name__, e))
            results = None
    if results is None:
        results = [_enum_subtree(k) for k in range(len(ops))]
    terms, hist_ops = [], []
    n_bad = n_good = 0
    for good, bad, n in results:
        ctx.evaluations += n
        for ops_list, term in good:
            n_good += 1
            if n_good % coq_every == 0:
                terms.append(term)
                hist_ops.append(ops_list)
            if any(o[0] in ("remove", "tpremove") for o in ops_list) or sum(o[0] == "setq" for o in ops_list) >= 2:
                ctx.nontrivial(("small", ops_list))
        for b in bad:
            n_bad += 1
            if b is not None and n_bad <= 3:
                ops_list, i, msgs = b
                h = dict(base, steps=[{"op": o, "queries": []} for o in ops_list[:-1]] + [{"op": ops_list[-1], "queries": fixed_queries}])
                report_oracle_failure(ctx, h, classes, cid, i, msgs)

    def hist_of(j):
        ol = hist_ops[j]
        return dict(base, steps=[{"op": o, "queries": []} for o in ol[:-1]] + [{"op": ol[-1], "queries": fixed_queries}])

    ctx.count("small-scope[%s]: histories" % label, n_good)
    ctx.count("small-scope[%s]: histories compared in Coq" % label, len(terms))
    ctx.log("small scope %s: %d histories (|ops|=%d, maxlen=%d), oracle failures %d, %d compared in Coq" % (label, n_good, len(ops), maxlen, n_bad, len(terms)))
    ctx.obligation("oracle: the property holds on the real Part after ALL %d valid histories of length <= %d over %d objects x times %r x "
                   "quarter values %r%s" % (n_good + n_bad, maxlen, len(objs), times, qvals, " incl. TimePoint.remove_*" if tpremove else ""),
                   n_bad == 0, "%d failing" % n_bad)
    failing = ctx.coq_failing("small_" + label, IMPORTS, "", terms, FINAL_OK, shard=4000)
    ctx.obligation("correspondence: models = implementation on the final state of %s %d valid histories of length <= %d over "
                   "%d objects x times %r x quarter values %r%s" % ("ALL" if coq_every == 1 else "every %d-th (in enumeration order) of the" % coq_every,
                                                                  len(terms) if coq_every == 1 else n_good, maxlen, len(objs), times, qvals,
                                                                  " incl. TimePoint.remove_*" if tpremove else ""), not failing, failing[:5])
    for j in failing[:3]:
        h = hist_of(j)
        ctx.violation("model and implementation disagree after %s" % json.dumps([s["op"] for s in h["steps"]]),
                      replay_obj(h, len(h["steps"]) - 1, ["correspondence"], run_history(h, classes, cid)[0][-1]))
    return n_bad, failing


# ----------------------------------------------------------------------------- the check


def corpus_histories(classes, cid):
    """Hand-written edge cases (always run first).  Classes are looked up by name; a history whose classes no
    longer exist is skipped (the reflected tree, not this list, is what the statements are about)."""
    names = {c.__name__: i for i, c in enumerate(classes)}
    need = ["Note", "GraceNote", "Measure", "ConstantLoudnessDirection", "GenericNote", "Direction", "TimedObject"]
    if any(n not in names for n in need):
        return []
    N, G, M, C = names["Note"], names["GraceNote"], names["Measure"], names["ConstantLoudnessDirection"]
    T, D = names["TimedObject"], names["Direction"]
    q_all = [["iter_all", None, None, None, False, "starting", False], ["first_last"],
             ["iter_all", names["GenericNote"], None, None, True, "starting", False],
             ["iter_all", D, 0, 9, True, "ending", True]]

    def H(objs, ops, q0=1, extra=()):
        return {"q0": q0, "objs": objs, "pool": [0, 4, 8, 10], "ncls": len(classes), "rel_classes": [],
                "steps": [{"op": op, "queries": q_all + [["iter_next", 0, T, True, True],
                                                         ["iter_prev", 8, T, True, True]] + list(extra)} for op in ops]}
    out = [
        # D01: remove the only object of the last point
        H([M, M], [["add", 0, 0, 4], ["add", 1, 8, None], ["remove", 1, "both"], ["add", 1, 8, 10], ["remove", 1, "both"]]),
        # D02: remove the only object of the first point; then of a single remaining point
        H([M, N], [["add", 0, 0, None], ["add", 1, 4, 8], ["remove", 0, "both"], ["remove", 1, "start"], ["remove", 1, "end"]]),
        # D03: re-set at an existing change point with the previous value
        H([M], [["add", 0, 10, 12], ["setq", 10, 2], ["setq", 10, 1], ["setq", 5, 2], ["setq", 0, 2], ["setq", 10, 2], ["setq", 10, 3]]),
        # diamonds and chains, start == end, by-start-then-by-end
        H([C, G, N, M], [["add", 0, 4, 4], ["add", 1, 4, 8], ["add", 2, 0, 8], ["gp", 10], ["gpadd", 3, "end", 10],
                         ["remove", 0, "start"], ["remove", 0, "end"], ["remove", 2, "both"], ["remove", 3, "both"], ["remove", 1, "both"]]),
        # D04: an add that fails on its end time must not register the start
        H([N, M], [["add", 0, 0, 4], ["add", 1, 4, -1], ["add", 1, -1, 4], ["add", 1, 4, 8], ["remove", 0, "both"]]),
        # TimePoint.remove_*_object leaves the point behind; re-use it, then let Part.remove clean it up
        H([M, N], [["add", 0, 4, 8], ["tpremove", 0, "start"], ["gpadd", 1, "start", 4], ["remove", 1, "both"],
                   ["tpremove", 0, "end"], ["add", 0, 8, None], ["remove", 0, "both"], ["tpremove", 0, "start"]]),
        # the same time used again after its point was cleaned up (a remembered TimePoint would be stale)
        H([N, M], [["add", 0, 8, None], ["remove", 0, "both"], ["add", 0, 8, 10], ["gp", 8], ["remove", 0, "start"], ["gp", 8],
                   ["add", 1, 8, 8], ["remove", 1, "both"], ["remove", 0, "both"]]),
    ]
    # every multiply inherited class, queried from above both branches, from one branch and exactly
    shape = tree_shape(classes, cid)
    tw = shape["twice"]
    if tw:
        qs = []
        for m in tw:
            for c in ([T] + shape["joins"][m][-1:] + shape["branches"][m][:2] + [m]):
                qs.append(["iter_all", c, None, None, True, "starting", False])
        qs += [["iter_all", D, 0, 5, True, "ending", True], ["iter_next", 0, D, True, True], ["iter_prev", 8, D, False, True],
               ["iter_prev", 8, T, True, True], ["iter_all", None, None, None, False, "ending", False]]
        ops = [["add", k, 4 * (k % 3), 4 * (k % 3) + 4 * (k % 2)] for k in range(len(tw))]
        h = {"q0": 1, "objs": list(tw), "pool": [0, 4, 8, 12], "ncls": len(classes), "rel_classes": [],
             "steps": [{"op": op, "queries": []} for op in ops]}
        h["steps"][-1]["queries"] = qs
        h["steps"].append({"op": ["remove", 0, "start"], "queries": qs[:6]})
        out.append(h)
    return out


def directed_tree_search(ctx, classes, cid, problems):
    """iter_subclasses is wrong for some (class c, descendant d): look for a history + query on a real Part
    that shows it (an object of class d registered, queried through c with include_subclasses)."""
    found = 0
    seen = set()
    for c, d, kind, _ in problems:
        if not (0 <= d < len(classes)) or (c, d) in seen or len(seen) >= 12:
            continue
        seen.add((c, d))
        qs = [["iter_all", c, None, None, True, "starting", False], ["iter_all", c, 0, 9, True, "ending", True],
              ["iter_next", 2, c, True, True], ["iter_prev", 6, c, True, True]]
        h = {"q0": 1, "objs": [d, d], "pool": [0, 2, 6], "ncls": len(classes), "rel_classes": [],
             "steps": [{"op": ["add", 0, 2, 6], "queries": qs}, {"op": ["add", 1, 6, 6], "queries": qs}]}
        try:
            obs_all, i, msgs, invalid = run_history(h, classes, cid)
        except Exception as e:
            ctx.log("directed search: history for (%s, %s) could not be run: %s" % (c, d, e))
            continue
        ctx.evaluations += len(obs_all)
        if i is not None and not invalid:
            found += 1
            if found <= 2:
                report_oracle_failure(ctx, h, classes, cid, i, msgs)
    return found


# ----------------------------------------------------------------------------- round j: the read paths of the quarter table
# (Model/C01_QMap.v: Part.quarter_duration_map = len-1 doubling + interp1d(kind="previous"); Part.quarter_durations(a, b))
IMPORTS_QM = "From PV Require Import Lib.Base Model.C01 Model.C01_Idx Model.C01_QMap."
QM_TY = "list (Z * Z) * list (Z * Z) * list (option Z * option Z * list (Z * Z))"
IP_TY = "list Z * list Z * (Z * Z) * list (Z * Z)"


def gen_qmap_case(rng):
    q0 = rng.choice([1, 1, 2, 4, 12, 480, 10080])
    r = rng.random()
    n = 0 if r < 0.15 else 1 if r < 0.30 else rng.randint(2, 6) if r < 0.85 else rng.randint(7, 12)
    pool = sorted(set([0] + [rng.randint(0, 40) for _ in range(rng.randint(2, 6))]))
    vals = [q0] + rng.sample([1, 2, 3, 4, 6, 480, 960], 3)
    setqs = [[rng.choice(pool), rng.choice(vals)] for _ in range(n)]
    return {"q0": q0, "setqs": setqs, "pool": pool, "skind": rng.choice(["int", "int", "np.int64", "float", "mixed"]),
            "ask_seed": rng.randint(0, 10 ** 9)}


def run_qmap_case(case):
    """Build the table on a real Part, ask quarter_duration_map / the cached _quarter_map / quarter_durations.
    Returns (tab, asks [(s, v)], qds [(a, b, rows)], messages of the direct oracle, feature list)."""
    import random as _random
    import numpy as np
    import partitura.score as S
    rng = _random.Random(case["ask_seed"])
    part = S.Part("P", quarter_duration=case["q0"])
    for t, q in case["setqs"]:
        part.set_quarter_duration(t, q)
    tab = [[int(t), int(q)] for t, q in zip(part._quarter_times, part._quarter_durations)]
    times = [t for t, _ in tab]
    cand = set([-1, -7, 0, times[-1] + 1, times[-1] + 1000, rng.randint(0, 45), rng.randint(0, 45)])
    for t in times:
        cand.update([t - 1, t, t + 1])
    cand = sorted(cand)
    if len(cand) > 16:
        keep = set(rng.sample(cand, 12)) | {-1, times[-1], times[-1] + 1000}
        cand = [s for s in cand if s in keep]
    conv = {"int": [int], "np.int64": [np.int64], "float": [float], "mixed": [int, np.int64, float, np.int32]}[case["skind"]]
    in_force = lambda s: [q for t, q in tab if t <= s][-1] if s >= times[0] else tab[0][1]
    asks, msgs, feats = [], [], []
    for k, s in enumerate(cand):
        arg = conv[k % len(conv)](s)
        for which, f in (("quarter_duration_map", part.quarter_duration_map), ("_quarter_map", part._quarter_map)):
            v = f(arg)
            if np.ndim(v) != 0 or float(v) != int(v):
                msgs.append("O3: %s(%r) = %r is not one integral value" % (which, arg, v))
                continue
            asks.append((s, int(v)))
            if int(v) != in_force(s):
                msgs.append("O3: %s(%r) = %d, the duration in force at %d is %d (table %s)" % (which, arg, int(v), s, in_force(s), tab))
        feats.append("qmap ask:" + ("before the first change" if s < times[0] else "beyond the last change" if s > times[-1]
                                    else "at a change" if s in times else "between changes"))
    bounds = [None, 0, times[-1], times[-1] + 1] + times + [t + 1 for t in times]
    qds = []
    for _ in range(5):
        a, b = rng.choice(bounds), rng.choice(bounds)
        rows = [[int(x) for x in row] for row in part.quarter_durations(a, b).tolist()]
        qds.append((a, b, rows))
        want = [e for e in tab if (a is None or e[0] >= a) and (b is None or e[0] < b)]
        if rows != want:
            msgs.append("O2: quarter_durations(%r, %r) returned %s, the entries of the window are %s" % (a, b, rows, want))
        feats.append("quarter_durations bounds:" + ("none" if a is None and b is None else "one" if a is None or b is None else
                                                    "both, end 0" if b == 0 else "both, empty window" if a >= b else "both"))
    return tab, asks, qds, msgs, feats


def cqmap(tab, asks, qds):
    pr = lambda e: ctuple([cz(e[0]), cz(e[1])])
    return ctuple([clist([pr(e) for e in tab]), clist([pr(e) for e in asks]),
                   clist([ctuple([copt(a, cz), copt(b, cz), clist([pr(e) for e in rows])]) for a, b, rows in qds])])


def gen_interp_case(rng):
    """scipy's interp1d(kind="previous") itself: sorted x (duplicates in 40%), any y, any fill values."""
    import numpy as np
    from scipy.interpolate import interp1d
    n = rng.choice([1, 2, 2, 3, 4, 5, 8])
    x = sorted(rng.randint(-5, 30) for _ in range(n))
    if n > 1 and rng.random() < 0.4:
        k = rng.randrange(n - 1)
        x[k + 1] = x[k]
        x.sort()
    strictly = all(a < b for a, b in zip(x, x[1:]))
    y = [rng.randint(1, 9) for _ in range(n)]
    fill = (rng.randint(10, 19), rng.randint(20, 29))
    f = interp1d(x, y, kind="previous", bounds_error=False, fill_value=fill)
    ss = sorted(set([x[0] - 1, x[0], x[-1], x[-1] + 1] + [rng.randint(-7, 33) for _ in range(6)]))
    asks = [(s, int(f(s))) for s in ss if float(f(s)) == int(f(s))]
    return x, y, fill, asks, ("duplicates in x" if not strictly else "one entry" if n == 1 else "strictly increasing x")


def qmap_stream(ctx, quick, model_ok):
    n_cases = 150 if quick else 2500
    terms, cases, bad = [], [], None
    for _ in range(n_cases):
        case = gen_qmap_case(ctx.rng)
        try:
            tab, asks, qds, msgs, feats = run_qmap_case(case)
        except Exception as e:
            tab, asks, qds, feats = [], [], [], []
            msgs = ["O4: %s: %s" % (type(e).__name__, e)]
        ctx.evaluations += len(asks) + len(qds)
        ctx.count("qmap table entries:" + ("1 (lists doubled)" if len(tab) == 1 else "2-3" if len(tab) < 4 else "4+"))
        ctx.count("qmap argument kind:" + case["skind"])
        for f in feats:
            ctx.count(f)
        if msgs:
            if bad is None:
                bad = (case, msgs)
            continue
        if len(tab) > 1:
            ctx.nontrivial(("qmap", tab))
        terms.append(cqmap(tab, asks, qds))
        cases.append(case)
    ctx.obligation("oracle: quarter_duration_map / the cached _quarter_map answer the duration in force (before the first and beyond the "
                   "last change included) and quarter_durations(a, b) returns the entries of the half-open window on %d tables built by "
                   "set_quarter_duration histories" % n_cases, bad is None, bad[1][:3] if bad else "")
    if bad is not None:
        case, msgs = bad

        def fails(sub):
            try:
                return bool(run_qmap_case(dict(case, setqs=sub))[3])
            except Exception:
                return True
        setqs = core.ddmin(case["setqs"], fails) if len(case["setqs"]) > 1 else case["setqs"]
        small = dict(case, setqs=setqs)
        try:
            m2 = run_qmap_case(small)[3] or msgs
        except Exception as e:
            m2 = ["O4: %s: %s" % (type(e).__name__, e)]
        ctx.violation("C01 fails on the real Part (quarter table read paths) after Part(quarter_duration=%d) + set_quarter_duration calls %s: %s"
                      % (small["q0"], json.dumps(small["setqs"]), "; ".join(m2[:2])), {"kind": "qmap", "case": small, "messages": m2[:6]})
    iterms, ifeat = [], {}
    for _ in range(60 if quick else 1500):
        try:
            x, y, fill, asks, feat = gen_interp_case(ctx.rng)
        except Exception as e:   # scipy rejecting a sorted table is not partitura's business; count it
            ctx.count("interp1d raised:" + type(e).__name__)
            continue
        ctx.count("interp1d case:" + feat)
        ctx.evaluations += len(asks)
        iterms.append(ctuple([clist([cz(v) for v in x]), clist([cz(v) for v in y]), ctuple([cz(fill[0]), cz(fill[1])]),
                              clist([ctuple([cz(s), cz(v)]) for s, v in asks])]))
    if not model_ok:
        return
    try:
        failing = ctx.coq_failing("qmap", IMPORTS_QM, "", terms, "qmap_case_ok", shard=100 if quick else 400, ty=QM_TY) if terms else []
        ifail = ctx.coq_failing("interp", IMPORTS_QM, "", iterms, "interp_case_ok", shard=400, ty=IP_TY) if iterms else []
    except RuntimeError as e:
        ctx.obligation("correspondence: Model/C01_QMap.v evaluates", False, str(e)[-800:])
        return
    ctx.obligation("correspondence: on %d tables read off real Parts, qmap_code (len-1 doubling + interp1d previous: search on the shifted times, "
                   "clip, fill values) gives every answer of quarter_duration_map and of the cached _quarter_map, and qdur_code every "
                   "result of quarter_durations(a, b)" % len(terms), not failing, failing[:5])
    ctx.obligation("correspondence: interp_previous = scipy's interp1d(kind='previous', bounds_error=False, fill_value=(lo, hi)) on %d "
                   "sorted tables (duplicates included)" % len(iterms), not ifail, ifail[:5])
    for j in failing[:2]:
        case = cases[j]
        ctx.violation("the code-level model of quarter_duration_map / quarter_durations (Model/C01_QMap.v) and the real Part disagree after "
                      "Part(quarter_duration=%d) + set_quarter_duration calls %s" % (case["q0"], json.dumps(case["setqs"])),
                      {"kind": "qmap", "case": case, "messages": ["correspondence: qmap_case_ok is false"]})
    if ifail and not failing:
        ctx.violation("scipy's interp1d(kind='previous') no longer behaves as Model/C01_QMap.v interp_previous (search on shifted x, clip, "
                      "fill): case %s" % iterms[ifail[0]][:300], {"kind": "interp", "term": iterms[ifail[0]][:2000]}, no_input=True)


# ----------------------------------------------------------------------------- round j: the argument glue of Part.iter_all
# (Model/C01_Args.v: bounds None / number / TimePoint object, every mode value, cls None, arguments explicit or omitted)
IMPORTS_AR = "From PV Require Import Lib.Base Gen.C01_ClassTree Model.C01 Model.C01_Idx Model.C01_Args."
AR_TY = "Z * list op * list argq"
BOUND_KINDS = ["none", "int", "numpy", "float", "free TimePoint", "own TimePoint"]


def gen_args_history(rng, classes, cid, shape):
    """A populated part: every object added (both sides in 70%), then a few removals / a quarter change / a bare point."""
    h = gen_history(rng, classes, cid, nsteps=1, nq=0, shape=shape)
    h["tkind"] = "int"
    tt = h["pool"]
    steps = []
    for k in range(len(h["objs"])):
        s = rng.choice(tt)
        x = rng.random()
        e = rng.choice([t for t in tt if t >= s]) if x < 0.7 else None
        if x > 0.9:
            s, e = None, s
        steps.append({"op": ["add", k, s, e]})
    for _ in range(rng.randint(0, 2)):
        steps.append({"op": rng.choice([["remove", rng.randrange(len(h["objs"])), rng.choice(["start", "end", "both"])],
                                        ["setq", rng.choice(tt), rng.choice(QVALS)], ["gp", rng.choice(tt) + 1]])})
    h["steps"] = steps
    return h


def gen_args_queries(rng, hist, n):
    tt = sorted(set(hist["pool"]) | {0})
    qs, none_left = [], 1
    for _ in range(n):
        x = rng.random()
        if none_left and x < 0.12:
            c, none_left = None, 0
        elif x < 0.55:
            c = rng.choice(hist["objs"])                 # the class of an object of the history
        elif x < 0.8 and hist.get("rel_classes"):
            c = rng.choice(hist["rel_classes"])          # an ancestor of one
        else:
            c = pick_cls(rng, hist, False)
        sub = rng.random() < 0.65
        lo = None if rng.random() < 0.35 else (0 if rng.random() < 0.3 else rng.choice(tt[: max(1, len(tt) // 2)]) + rng.choice([0, 0, 1]))
        x = rng.random()
        if x < 0.35:
            hi = None
        elif x < 0.5:
            hi = 0
        elif x < 0.9:
            hi = rng.choice([t for t in tt if lo is None or t >= lo] or tt) + rng.choice([0, 1, 1])
        else:
            hi = rng.choice(tt)
        bs = [[rng.choice(BOUND_KINDS[1:]) if t is not None else "none", t] for t in (lo, hi)]
        mode = rng.choice(["starting", "starting", "ending", "ending", "foo", "start", None, "Ending"])
        qs.append({"cls": c, "start": bs[0], "end": bs[1], "sub": sub, "mode": mode,
                   "style": rng.choice(["positional", "keywords, defaults omitted"])})
    return qs


def run_args_query(r, q):
    """One explicit iter_all call on the runner's real Part -> (returned [[t, [cls, serial]]], expected by the registrations)."""
    import warnings
    import numpy as np
    p = r.part

    def mk(b):
        kind, t = b
        if kind == "none":
            return None
        if kind == "int":
            return int(t)
        if kind == "numpy":
            return np.int64(t)
        if kind == "float":
            return float(t)
        if kind == "own TimePoint":
            return p.get_point(t) or r.S.TimePoint(t)
        return r.S.TimePoint(t)
    cls = None if q["cls"] is None else r.classes[q["cls"]]
    a, b = mk(q["start"]), mk(q["end"])
    with warnings.catch_warnings():
        warnings.simplefilter("ignore")
        if q["style"] == "positional":
            res = list(p.iter_all(cls, a, b, q["sub"], q["mode"]))
        else:
            kw = {}
            if cls is not None:
                kw["cls"] = cls
            if a is not None:
                kw["start"] = a
            if b is not None:
                kw["end"] = b
            if q["sub"]:
                kw["include_subclasses"] = True
            if q["mode"] != "starting":
                kw["mode"] = q["mode"]
            res = list(p.iter_all(**kw))
    j = 1 if q["mode"] == "ending" else 0
    got = []
    for o in res:
        ref = o.end if j == 1 else o.start
        got.append([-1 if ref is None else int(ref.t), list(r.ident(o))])
    got = r.canon_runs(got)
    ta, tb = q["start"][1], q["end"][1]
    exp = []
    for kk, o in enumerate(r.objs):
        t = r.reg[kk][j]
        if t is None or not ((ta is None or ta <= t) and (tb is None or t < tb)):
            continue
        if cls is None or type(o) is cls or (q["sub"] and issubclass(type(o), cls)):
            exp.append([t, list(r.ident(o))])
    exp.sort(key=lambda x: (x[0], x[1]))
    return got, exp


def show_args_query(q, classes):
    return "iter_all(cls=%s, start=%s %r, end=%s %r, include_subclasses=%s, mode=%r) [%s]" % (
        None if q["cls"] is None else classes[q["cls"]].__name__, q["start"][0], q["start"][1], q["end"][0], q["end"][1],
        q["sub"], q["mode"], q["style"])


def cbound(b):
    kind, t = b
    return "BNone" if kind == "none" else ("(BTp %s)" if "TimePoint" in kind else "(BNum %s)") % cz(t)


def cargq(q, got):
    return "AQ %s %s %s %s %s %s" % (copt(q["cls"], cz), cbound(q["start"]), cbound(q["end"]), cbool(q["sub"]),
                                     {"starting": "MStarting", "ending": "MEnding"}.get(q["mode"], "MOther"),
                                     clist(["(%s, %s)" % (cz(t), cpair_obj(o)) for t, o in got]))


def run_args_case(hist, classes, cid):
    """-> (runner or None when the history has an invalid argument, [(query, got, expected)])."""
    r = Runner(hist, classes, cid)
    probe = sorted(set(hist.get("pool", [])) | {0, 1, 2, 5, 1000})
    for st in hist["steps"]:
        if not r.valid(st["op"]):
            return None, []
        r.step(st, probe, light=True)
    return r, [(q,) + run_args_query(r, q) for q in hist["args_queries"]]


def args_stream(ctx, quick, model_ok, classes, cid, shape):
    terms, kept, bad = [], [], None
    n_cases = 40 if quick else 600
    for _ in range(n_cases):
        h = gen_args_history(ctx.rng, classes, cid, shape)
        h["args_queries"] = gen_args_queries(ctx.rng, h, 8)
        try:
            r, results = run_args_case(h, classes, cid)
        except Exception as e:
            if bad is None:
                bad = (h, None, "O4: an iter_all call with valid arguments raised %s: %s" % (type(e).__name__, e))
            continue
        if r is None:
            continue
        ctx.evaluations += len(results)
        rows = []
        for q, got, exp in results:
            ctx.count("args start:" + q["start"][0] + (" 0" if q["start"][1] == 0 else ""))
            ctx.count("args end:" + q["end"][0] + (" 0" if q["end"][1] == 0 else ""))
            ctx.count("args mode:" + repr(q["mode"]))
            ctx.count("args style:" + q["style"])
            ctx.count("args result:" + ("empty" if not got else "1-2 objects" if len(got) < 3 else "3+ objects")
                      + (", end bound 0 on a part with objects" if q["end"][1] == 0 and any(x is not None for rg in r.reg for x in rg) else ""))
            if q["cls"] is None:
                ctx.count("args cls None")
            if got != exp and bad is None:
                bad = (h, q, "O2: %s returned %s, the registered objects give %s" % (show_args_query(q, classes), got, exp))
            rows.append(cargq(q, got))
        if any(got for _, got, _ in results):
            ctx.nontrivial(("args", [s["op"] for s in h["steps"]], [cargq(q, []) for q, _, _ in results]))
        terms.append("(%s, %s, %s)" % (cz(h["q0"]), clist([cop(h, st["op"]) for st in h["steps"]]), "[" + ";\n    ".join(rows) + "]"))
        kept.append(h)
    ctx.obligation("oracle: Part.iter_all called with every kind of bound (None / int / numpy / float / free and own TimePoint, 0 included), "
                   "every mode value (unknown ones warn and mean 'starting'), cls None, arguments positional or omitted returns exactly the "
                   "matching registered objects in time order (%d parts x 8 calls)" % n_cases, bad is None, bad[2] if bad else "")
    if bad is not None:
        h, q, msg = bad
        small = strip_hist(h)
        small["args_queries"] = [q] if q else h["args_queries"]
        if q:
            def fails(steps):
                try:
                    r, res = run_args_case(dict(small, steps=steps), classes, cid)
                    return r is not None and res[0][1] != res[0][2]
                except Exception:
                    return False
            if len(small["steps"]) > 1 and fails(small["steps"]):
                small["steps"] = core.ddmin(small["steps"], fails)
                try:
                    _, res = run_args_case(small, classes, cid)
                    msg = "O2: %s returned %s, the registered objects give %s" % (show_args_query(q, classes), res[0][1], res[0][2])
                except Exception:
                    pass
        ctx.violation("C01 fails on the real Part after %s: %s" % (json.dumps([s["op"] for s in small["steps"]]), msg),
                      {"kind": "args", "history": small, "messages": [msg]})
    if not model_ok or not terms:
        return
    try:
        failing = ctx.coq_failing("args", IMPORTS_AR, "", terms, "args_case_ok", shard=10 if quick else 40, ty=AR_TY)
    except RuntimeError as e:
        ctx.obligation("correspondence: Model/C01_Args.v evaluates", False, str(e)[-800:])
        return
    ctx.obligation("correspondence: iter_all_args (Model/C01_Args.v: the `is None` / isinstance / mode / cls None glue over the binary search and the "
                   "slice) returns what the real Part.iter_all returned for all %d calls on %d parts" % (8 * len(terms), len(terms)), not failing, failing[:5])
    for j in failing[:2]:
        h = strip_hist(kept[j])
        h["args_queries"] = kept[j]["args_queries"]
        ctx.violation("the model of the argument glue of Part.iter_all (Model/C01_Args.v) and the real Part disagree after %s"
                      % json.dumps([s["op"] for s in h["steps"]]), {"kind": "args", "history": h, "messages": ["correspondence: args_case_ok is false"]})


def run(ctx):
    ctx.rule = ("Edit histories generated by a state-aware generator (5-60 operations, 2-8 objects from the whole reflected "
                "TimedObject hierarchy -- 35% of them of a class reached along two inheritance paths --, times from a pool of "
                "<= 8 values incl. 0; weights on: removing the only object of the last/first/an interior point, by start then "
                "by end and vice versa, start == end, re-setting a quarter duration at an existing change with the previous or a "
                "new value, out of time order at a point, between points, before the first point, points created later inside a "
                "span, get_or_add_point, add with one valid and one negative time, TimePoint.remove_*_object (no clean-up) "
                "followed by re-use of the emptied point; 28% of the histories hand times over as numpy integers, 10% have "
                "long timelines (10-15 points); queries: np.searchsorted on the timeline, the six TimePoint comparisons, the "
                "cached quarter map, iter_all (bounds as int / free TimePoint / the part's own TimePoint) with cls in {None, "
                "TimedObject, a class above both branches of a registered diamond, a one-branch class, ancestors, any} x "
                "include_subclasses x mode x windows on/off points, iter_next/iter_prev x eq, first/last, get_point, "
                "quarter_durations).  History stream (state carried between calls): 36 (thorough 300) single parts and 14 (120) PAIRS of parts "
                "run interleaved / one after the other in one process (same part id in 60%), each with a fixed probe set of 6-9 questions asked "
                "after EVERY operation in rotating order, quarter_durations() results overwritten by the caller, iter_all bounds given as "
                "TimePoints kept from an earlier step, times/quarter values as int8/uint8/int16/uint16/int32/int64/Python int with quarter "
                "durations up to 10080, quarter_duration_map on int/float/numpy scalars, 0-d, one-element, empty, 2-d arrays, lists, tuples; "
                "every step is also judged against a part freshly built (another order) from the current registrations, and the last "
                "questions are asked again without an edit.  After every operation the real Part's observable state and the sampled query results are "
                "compared with the three Coq models (list / index / registry level) and the invariant/specification is evaluated on the real Part (query results as "
                "lists: every matching registered object exactly once, in time order).  distinct_nontrivial = distinct "
                "histories containing >= 1 removal that deletes a time point or >= 1 replacement of an existing "
                "quarter-duration entry.  Round j stream (read paths of the quarter table): 150 (thorough 2500) tables built on real Parts by 0-12 "
                "set_quarter_duration calls (15% none: one entry, the lists are doubled; out of order, replacements, redundant values), "
                "quarter_duration_map and the cached _quarter_map asked at every change time, one before / after it, negative times, beyond "
                "the last change (arguments as int / np.int64 / float / mixed), quarter_durations(a, b) with bounds None / 0 / change times "
                "/ one after / beyond; 60 (1500) raw interp1d(kind='previous') tables with duplicates in x; also non-trivial: tables with >= 2 entries.  Argument glue of iter_all: 40 (thorough 600) populated parts (2-8+ objects added, 0-2 removals / quarter changes / bare points) x 8 explicit calls with bounds None / int / numpy / float / free TimePoint / the part's own TimePoint (30% at time 0), modes 'starting' / 'ending' / unknown values / None, cls None once per part, arguments positional (explicit None / False / 'starting') or omitted.")
    ctx.trusted = ["Coq 8.16.1 kernel incl. vm_compute",
                   "harness/props/c01.py: class-tree reflector, history runner/dumper, Coq term printer",
                   "Python-side oracle (names the failing step; independent of the Coq model)",
                   "numpy object-array semantics of Part._points (searchsorted/insert/delete with ComparableMixin) are mirrored "
                   "by the index-level model (binary search asking only '<'), exercised by the correspondence, not verified"]
    ctx.assumptions = ["an object is registered at most once per side (add of an already registered side is not a valid argument)",
                       "times are non-negative integers (Python int or numpy integer); objects are instances of classes of the reflected TimedObject tree",
                       "order of objects within one time point is not part of the property (compared as a multiset per time)",
                       "a point created by a bare get_or_add_point(t), or emptied by TimePoint.remove_*_object (which does no clean-up), may be empty until it is used or its time is registered"]
    classes, cid = gen()
    shape = tree_shape(classes, cid)
    ctx.count("classes reflected", len(classes))
    ctx.count("classes reached along two inheritance paths", len(shape["twice"]))
    ok, why = ctx.coq_props(expect_min=57)
    if not ok:
        # say which statement about the regenerated class tree fails (if it is one of those)
        named = diagnose_tree(ctx, classes)
        if named:
            why = "no longer hold over the regenerated class tree: " + "; ".join(named) + " || " + why

    # direct oracle on iter_subclasses itself, and a directed search for a Part-level failing input
    problems = tree_oracle(classes, cid)
    ctx.obligation("oracle: partitura's iter_subclasses lists exactly the strict descendants, each once, for all %d classes" % len(classes),
                   not problems, ["iter_subclasses(%s): %s %s" % (classes[c].__name__, classes[d].__name__ if 0 <= d < len(classes) else d, k)
                                  for c, d, k, _ in problems[:8]])
    if problems:
        n = directed_tree_search(ctx, classes, cid, problems)
        ctx.log("directed search over %d iter_subclasses anomalies: %d failing histories" % (len(problems), n))

    quick = ctx.tier == "quick"
    n_hist = 130 if quick else 1000
    terms, kept = [], []
    n_oracle_bad = 0
    reported = set()
    # ---- state carried between calls: two parts in one process (interleaved / one after the other, both orders)
    hists = []
    n_pairs = 14 if quick else 120
    for _ in range(n_pairs):
        pair = gen_pair(ctx.rng, classes, cid, shape)
        try:
            obs2, first, msgs, invalid = run_pair(pair, classes, cid)
        except Exception as e:
            n_oracle_bad += 1
            if "pair-runner" not in reported:
                reported.add("pair-runner")
                ctx.violation("a pair of histories could not be executed/inspected on real Parts: %s: %s" % (type(e).__name__, e),
                              {"kind": "history", "pair": {"parts": [strip_hist(h) for h in pair["parts"]], "schedule": pair["schedule"], "lazy": pair["lazy"]},
                               "messages": ["%s: %s" % (type(e).__name__, e)]})
            continue
        if invalid:
            ctx.obligation("generator produces valid histories (pairs)", False, msgs)
            continue
        ctx.count("pair:" + ("same part id" if pair["parts"][0]["pid"] == pair["parts"][1]["pid"] else "different part ids")
                  + (", second part built on first use" if pair["lazy"] else ""))
        ctx.evaluations += len(obs2[0]) + len(obs2[1])
        if first is not None:
            n_oracle_bad += 1
            tag = "pair:" + msgs[0].replace("(looked at again after the last operation on the other part) ", "")[:3]
            if tag not in reported and len(reported) < 4:
                reported.add(tag)
                report_pair_failure(ctx, pair, classes, cid, first, msgs)
            continue
        for w in (0, 1):
            h = pair["parts"][w]
            if obs2[w]:
                ctx.nontrivial(("pair", w, [s["op"] for s in h["steps"]], pair["schedule"]))
                terms.append(chistory(h, obs2[w]))
                kept.append((h, obs2[w]))
                ctx.count("times handed over as:" + h.get("tkind", "int"))
                for st in h["steps"]:
                    ctx.count("op:" + (st.get("kind") or st["op"][0]))
                    for q in st.get("queries", []):
                        ctx.count("query:" + q[0] + (":" + q[2] if q[0] == "map" else ""))
    # ---- single parts: hand-written corner cases, the history stream (same questions around every edit), the main stream
    hists = corpus_histories(classes, cid)
    for _ in range(36 if quick else 300):
        hists.append(gen_history_h(ctx.rng, classes, cid, shape))
    for _ in range(n_hist):
        hists.append(gen_history(ctx.rng, classes, cid, shape=shape))
    prev_h = None
    for h in hists:
        this_prev, prev_h = prev_h, h
        try:
            obs_all, i, msgs, invalid = run_history(h, classes, cid)
        except Exception as e:  # the runner itself must not take the check down
            n_oracle_bad += 1
            if "runner" not in reported:
                reported.add("runner")
                ctx.violation("history could not be executed/inspected on the real Part: %s: %s" % (type(e).__name__, e),
                              replay_obj(h, len(h["steps"]) - 1, ["%s: %s" % (type(e).__name__, e)]))
            continue
        if invalid:
            ctx.obligation("generator produces valid histories", False, msgs)
            continue
        ctx.evaluations += len(obs_all)
        ctx.count("times handed over as:" + h.get("tkind", "int"))
        mp = max([len(o["points"]) for o in obs_all] or [0])
        ctx.count("longest timeline:" + ("0-4" if mp < 5 else "5-9" if mp < 10 else "10-15" if mp < 16 else "16+"))
        for s in h["steps"][: len(obs_all)]:
            ctx.count("op:" + (s.get("kind") or s["op"][0]))
            for q in s.get("queries", []):
                ctx.count("query:" + q[0] + (":" + q[2] if q[0] == "map" else ""))
                if q[0] == "iter_all":
                    c = q[1]
                    ctx.count("iter_all cls:" + ("None" if c is None else "TimedObject" if c == 0 else
                                                 "above both branches" if c in h.get("joins", []) else
                                                 "one branch" if c in h.get("branches", []) else "other")
                              + (" +subclasses" if q[4] else ""))
                    ctx.count("iter_all bounds:" + {0: "int", 1: "free TimePoint", 2: "the part's own TimePoint", 3: "a TimePoint kept from an earlier step"}[int(q[6])])
        if i is not None:
            n_oracle_bad += 1
            tag = msgs[0].replace("(asked again, nothing changed in between) ", "")[:3] + ("dup" if "more than once" in msgs[0] else "")
            if tag not in reported and len(reported) < 4:   # one replay per kind of failure
                reported.add(tag)
                report_oracle_failure(ctx, h, classes, cid, i, msgs, this_prev)
            continue
        # non-trivial: a removal deleted a point, or a quarter entry was replaced
        prev_n, prev_tab, nt = 0, [[0, h["q0"]]], False
        for s, ob in zip(h["steps"], obs_all):
            if s["op"][0] == "remove" and len(ob["points"]) < prev_n:
                nt = True
            if s["op"][0] == "setq" and len(ob["qtab"]) == len(prev_tab) and ob["qtab"] != prev_tab:
                nt = True
            prev_n, prev_tab = len(ob["points"]), ob["qtab"]
        if nt:
            ctx.nontrivial([s["op"] for s in h["steps"]])
        terms.append(chistory(h, obs_all))
        kept.append((h, obs_all))
    if kept:
        h, obs_all = kept[min(5, len(kept) - 1)]
        ctx.sample({"history_ops": [s["op"] for s in h["steps"][:8]], "state_after_8_ops": obs_all[min(7, len(obs_all) - 1)]["points"]})
    ctx.log("%d histories, %d steps executed, oracle failures %d" % (len(hists), ctx.evaluations, n_oracle_bad))

    failing = []
    model_ok = True
    if not ok:
        # the proofs did not build; the model itself may still evaluate
        mok, _ = ctx.coq_build(MODELS)
        if not mok:
            model_ok = False
            ctx.obligation("correspondence: model evaluates", False, "Model/C01.v does not build over the regenerated class tree")
    if model_ok and terms:
        try:
            ctx.log("case terms of %d histories: %d KB" % (len(terms), sum(len(t) for t in terms) // 1024))
            failing = ctx.coq_failing("hist", IMPORTS, "", terms, HISTORY_OK, shard=6 if quick else 20)
        except RuntimeError as e:
            model_ok = False
            ctx.obligation("correspondence: model evaluates", False, str(e)[-800:])
            if ok:
                ctx.violation("the Coq model could not be evaluated on the generated histories: " + str(e)[-600:], {"error": str(e)[-1500:]}, no_input=True)
    if model_ok and (terms or not n_oracle_bad):
        ctx.obligation("correspondence: after every one of the %d operations of %d histories the model state, outputs and sampled "
                       "query results equal the real Part's" % (sum(len(o) for _, o in kept), len(terms)), not failing, failing[:5])
    if model_ok and terms:
        ev = [(cevents(h, o), h, o) for h, o in kept]
        ev = [(t, h, o) for (t, n), h, o in ev if n >= 2]
        try:
            efail = ctx.coq_failing("events", IMPORTS_EV, "", [t for t, _, _ in ev], "events_ok", shard=40)
        except RuntimeError as e:
            efail = None
            ctx.obligation("correspondence: event-trace model Model/C01_Hist.v evaluates", False, str(e)[-800:])
        if efail is not None:
            ctx.obligation("correspondence: along %d histories (operations interleaved with %d questions to the cached quarter map / the map "
                           "built on demand) the answers of the real Part are those of the state machine of Model/C01_Hist.v (observe step_idx) "
                           "and those computed from the current part only (expected)" % (len(ev), sum(t.count("EAsk") for t, _, _ in ev)),
                           not efail, efail[:5])
            for j in efail[:2]:
                _, h, obs_all = ev[j]
                ctx.violation("the answers of the cached quarter map / quarter_duration_map along %s are not those of the current state "
                              "(event-trace model Model/C01_Hist.v)" % json.dumps([s_["op"] for s_ in h["steps"]]),
                              replay_obj(h, len(h["steps"]) - 1, ["correspondence: event trace"], obs_all[-1]))
    for j in failing[:3]:
        h, obs_all = kept[j]
        import re
        i, which = len(h["steps"]) - 1, []
        for name, expr in FIRST_DIFFS:
            out = ctx.coq_eval(IMPORTS, "match %s with (q0, objs, h) => %s end" % (terms[j], expr))
            m = re.search(r"Some\s+\(?(-?\d+)", out)
            if m:
                which.append("%s at step %s" % (name, m.group(1)))
                i = min(i, int(m.group(1)))
        ctx.violation("model and implementation disagree after step %d of %s [%s]" % (
                          i, json.dumps([s["op"] for s in h["steps"][: i + 1]]), "; ".join(which) or "?"),
                      replay_obj(h, i, ["correspondence: the observation after this step differs from the model: " + "; ".join(which)], obs_all[i]))

    # ---- round j: the read paths of the quarter table (Model/C01_QMap.v)
    ctx.log("round j streams: quarter-table read paths, iter_all argument glue")
    qmap_stream(ctx, quick, model_ok)
    args_stream(ctx, quick, model_ok, classes, cid, shape)
    ctx.log("round j streams done")

    if not quick and model_ok:
        names = {c.__name__: i for i, c in enumerate(classes)}
        if all(n in names for n in ("Note", "GraceNote", "ConstantLoudnessDirection", "Direction", "TimedObject")):
            N, G, C, D = names["Note"], names["GraceNote"], names["ConstantLoudnessDirection"], names["Direction"]
            fq = [["iter_all", N, None, None, True, "starting", False], ["iter_all", N, 1, None, False, "ending", True],
                  ["first_last"], ["iter_next", 0, N, False, True], ["iter_prev", 2, names["TimedObject"], False, True],
                  ["iter_all", D, None, 3, True, "starting", False]]
            enumerate_small(ctx, classes, cid, 2, [N, G, C], [0, 1, 2, 3], [1, 2], fq, "3obj_len2")
            enumerate_small(ctx, classes, cid, 3, [N, G, C], [0, 1, 2, 3], [1, 2], fq, "3obj_len3", coq_every=8)
            enumerate_small(ctx, classes, cid, 4, [N, C], [0, 2], [1, 2], fq, "2obj_len4", coq_every=8)
            enumerate_small(ctx, classes, cid, 3, [N, C], [0, 2], [1, 2], fq + [["search", 1], ["cached", 2], ["cmp", 0, 2]],
                            "2obj_len3_tpremove", tpremove=True)
            ctx.extra["exhaustive"] = "small scopes only (see obligations); the history stream is sampled"
        else:
            ctx.obligation("small-scope enumeration: the classes it is written over exist", False, "")

    if not ok and not ctx.violations:
        ctx.violation("proof obligations of Props/C01.v no longer check: " + why, {"theorem_or_build": why}, no_input=True)
    elif not ok:
        ctx.log("proof obligations of Props/C01.v no longer check: " + why[:1500])
        ctx.extra["props_failure"] = why[:3000]
    # fail closed: an undischarged obligation without a concrete failing input is still a failure
    undischarged = [n for n, good, _ in ctx.obligations if not good]
    if undischarged and not ctx.violations:
        ctx.violation("obligations not discharged: " + "; ".join(undischarged)[:1500], {"obligations": undischarged}, no_input=True)


def replay(obj):
    core.setup_import_path()
    classes, cid = class_tree()
    r = obj.get("replay", obj)
    if r.get("kind") == "args":
        hh = r["history"]
        print("history: q0=%s objects=%s operations=%s" % (hh["q0"], [classes[c].__name__ for c in hh["objs"]], json.dumps([s["op"] for s in hh["steps"]])))
        rr, results = run_args_case(hh, classes, cid)
        if rr is None:
            print("   (the history has an invalid argument)")
            return 0
        print("   registered (start, end) per object: %s" % json.dumps(rr.reg))
        for q, got, exp in results:
            print("   %s -> %s%s" % (show_args_query(q, classes), json.dumps(got), "" if got == exp else "   ORACLE: the registered objects give %s" % json.dumps(exp)))
        print("recorded messages:", json.dumps(r.get("messages")))
        print("model side: iter_all_args of Model/C01_Args.v on run (init q0) ops (./check C01 does so)")
        return 0
    if r.get("kind") == "qmap":
        case = r["case"]
        print("Part(quarter_duration=%d); set_quarter_duration calls: %s; arguments handed over as %s" % (case["q0"], json.dumps(case["setqs"]), case["skind"]))
        tab, asks, qds, msgs, _ = run_qmap_case(case)
        print("   quarter table: %s" % json.dumps(tab))
        print("   quarter_duration_map / _quarter_map (time, answer): %s" % json.dumps(asks))
        for a, b, rows in qds:
            print("   quarter_durations(%r, %r) -> %s" % (a, b, json.dumps(rows)))
        for m in msgs:
            print("   ORACLE: " + m)
        print("recorded messages:", json.dumps(r.get("messages")))
        print("model side: qmap_code / qdur_code of Model/C01_QMap.v on the table above (./check C01 does so)")
        return 0
    if "pair" in r:
        pair = r["pair"]
        for w, h in enumerate(pair["parts"]):
            print("part %d: id=%r q0=%s times as %s objects=%s" % (w, h.get("pid", "P"), h["q0"], h.get("tkind", "int"),
                                                                  [classes[c].__name__ for c in h["objs"]]))
        print("schedule (which part each operation goes to): %s; second part built %s" % (pair["schedule"], "on first use" if pair.get("lazy") else "up front"))
        runners = [None, None] if pair.get("lazy") else [Runner(h, classes, cid) for h in pair["parts"]]
        pos = [0, 0]
        for w in pair["schedule"]:
            if runners[w] is None:
                runners[w] = Runner(pair["parts"][w], classes, cid)
            st = pair["parts"][w]["steps"][pos[w]]
            obs, bad = runners[w].step(st, sorted(set(pair["parts"][w].get("pool", [])) | {0, 1, 2, 5, 1000}))
            print("part %d step %d: %s -> out=%s" % (w, pos[w], json.dumps(st["op"]), obs["out"]))
            print("   points (t, quarter, prev, next, starting, ending): %s" % json.dumps(obs["points"]))
            print("   quarter table: %s   start/end per object: %s" % (json.dumps(obs["qtab"]), json.dumps(obs["refs"])))
            for q, res in zip(st.get("queries", []), obs["qres"]):
                print("   query %s -> %s" % (json.dumps(q), json.dumps(res)))
            for m in bad:
                print("   ORACLE: " + m)
            pos[w] += 1
        for w in (0, 1):
            if runners[w] is not None and pos[w] > 0:
                for m in runners[w].recheck(pair["parts"][w]["steps"][pos[w] - 1]):
                    print("   ORACLE (part %d looked at again at the end): %s" % (w, m))
        print("recorded messages:", json.dumps(r.get("messages")))
        return 0
    h = r["history"]
    print("history: q0=%s objects=%s" % (h["q0"], [classes[c].__name__ for c in h["objs"]]))
    obs_all, i, msgs, invalid = run_history(h, classes, cid, stop_on_bad=False)
    run2 = Runner(h, classes, cid)
    for k, st in enumerate(h["steps"]):
        obs, bad = run2.step(st, sorted(set(h.get("pool", [])) | {0, 1, 2, 5, 1000}))
        print("step %d: %s -> out=%s" % (k, json.dumps(st["op"]), obs["out"]))
        print("   points (t, quarter, prev, next, starting, ending): %s" % json.dumps(obs["points"]))
        print("   quarter table: %s   start/end per object: %s" % (json.dumps(obs["qtab"]), json.dumps(obs["refs"])))
        for q, res in zip(st.get("queries", []), obs["qres"]):
            print("   query %s -> %s" % (json.dumps(q), json.dumps(res)))
        for m in bad:
            print("   ORACLE: " + m)
    print("recorded messages:", json.dumps(r.get("messages")))
    print("model side: evaluate `first_diff` of Model/C01.v on this history (./check C01 does so); expected = model state")
    return 0
