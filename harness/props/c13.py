"""C13 -- a piano roll shows exactly the given notes, in their cells, with their velocity.

Implementation under test (partitura/utils/music.py): compute_pianoroll, _make_pianoroll,
compute_pitch_class_pianoroll, pianoroll_to_notearray.

Two independent judges per case:
  (a) direct oracle  -- the property's statement as a small rasteriser over exact rationals
      (spec_roll / spec_pc / spec_decode below), compared with the dense toarray(), the index
      rows and the decoded note array;
  (b) correspondence -- the Gallina model coq/Model/C13.v (about which Props/C13.v states the
      theorems) evaluated by vm_compute on the same input must reproduce the implementation's
      dense array cell by cell (run-length coded), its shape and its index rows.
"""
import json
import math
import time
import warnings
from fractions import Fraction as F

import core
from core import cz, cq, cbool, clist, ctuple, copt

UNITS = ["beat", "quarter", "div", "sec", "tick"]
UCOQ = {"beat": "UBeat", "quarter": "UQuarter", "div": "UDiv", "sec": "USec", "tick": "UTick"}
INT_UNITS = ("div", "tick")
BOOL_OPTS = ["onset_only", "note_separation", "piano_range", "remove_silence", "binary", "return_idxs", "remove_drums"]


# ----------------------------------------------------------------------------
# exact helpers


def rhe(fr):
    """round half to even of a Fraction (np.round)."""
    f = math.floor(fr)
    r = fr - f
    if r < F(1, 2):
        return f
    if r > F(1, 2):
        return f + 1
    return f if f % 2 == 0 else f + 1


def fr(s):
    return s if isinstance(s, F) else F(s)


def frs(x):
    x = F(x)
    return "%d/%d" % (x.numerator, x.denominator)


# ----------------------------------------------------------------------------
# building the numpy input


def build_array(case):
    """The structured array of a case.  case["layout"] (optional) varies what the statement leaves open:
    dtype of the time columns (f4 / f8), of pitch (i4 / i8 / i2) and velocity (i4 / i8 / u1 / f4), the
    ORDER of the fields, and extra fields (voice, staff, track) the functions must ignore."""
    import numpy as np

    lay = case.get("layout") or {}
    tf = lay.get("time", "f4")
    fields = [("pitch", lay.get("pitch", "i4"))]
    for u in case["units"]:
        ty = lay.get("tint", "i4") if u in INT_UNITS else tf
        fields += [("onset_" + u, ty), ("duration_" + u, ty)]
    if case["has_vel"]:
        fields.append(("velocity", lay.get("vel", "i4")))
    if case["has_chan"]:
        fields.append(("channel", "i4"))
    fields.append(("id", "U8"))
    if lay.get("extra"):
        fields += [("voice", "i4"), ("staff", "i4"), ("track", "i4")]
    cols = {}
    for i, r in enumerate(case["rows"]):
        cols.setdefault("pitch", []).append(r["pitch"])
        for u, (on, du) in zip(case["units"], r["t"]):
            on, du = fr(on), fr(du)
            if u in INT_UNITS:
                assert on.denominator == 1 and du.denominator == 1
                cols.setdefault("onset_" + u, []).append(int(on))
                cols.setdefault("duration_" + u, []).append(int(du))
            else:
                cols.setdefault("onset_" + u, []).append(float(on))
                cols.setdefault("duration_" + u, []).append(float(du))
        cols.setdefault("velocity", []).append(r["vel"])
        cols.setdefault("channel", []).append(r["chan"])
        cols.setdefault("id", []).append("n%d" % i)
        cols.setdefault("voice", []).append(1 + i % 3)
        cols.setdefault("staff", []).append(1 + i % 2)
        cols.setdefault("track", []).append(9 if i % 2 else 0)     # a decoy: 9 in the TRACK field is no drum
    order = lay.get("order")
    if order:   # a permutation of the field positions
        fields = [fields[k] for k in order if k < len(fields)] + [f for k, f in enumerate(fields) if k not in order]
    na = np.zeros(len(case["rows"]), dtype=fields)
    for name, _ in fields:
        na[name] = cols[name]
    # the values must survive the columns exactly (the model sees what the code sees)
    for i, r in enumerate(case["rows"]):
        assert int(na["pitch"][i]) == r["pitch"]
        for u, (on, du) in zip(case["units"], r["t"]):
            assert F(float(na["onset_" + u][i])) == fr(on) and F(float(na["duration_" + u][i])) == fr(du), (u, on, du)
    return na


def roll_kwargs(case):
    import numpy as np

    o = case["opts"]
    kw = {k: o[k] for k in BOOL_OPTS}
    kw["time_unit"] = o["time_unit"]
    td = o["time_div"]
    if td != "auto":     # the resolution as a Python int or a numpy integer
        td = {"int": int, "np": np.int64, "np32": np.int32}[o.get("time_div_kind", "int")](td)
    kw["time_div"] = td
    kw["pitch_margin"] = o["pitch_margin"]
    kw["time_margin"] = o["time_margin"]
    if o.get("margin_kind") == "np":      # numpy integers where Python integers are documented
        kw["pitch_margin"], kw["time_margin"] = np.int64(o["pitch_margin"]), np.int32(o["time_margin"])
    if o.get("margin_frac"):     # a margin that is not a whole number of time units but a whole number of frames
        m = float(o["time_margin"] + F(*o["margin_frac"]))
        kw["time_margin"] = np.float64(m) if o.get("margin_kind") == "np" else m
    if o.get("bool_kind") == "np":
        for k in BOOL_OPTS:
            kw[k] = np.bool_(kw[k])
    kw["end_time"] = end_time_object(o)
    return kw


END_KINDS = ("float", "int", "np64", "np32", "npint", "arr0", "arr0i")


def end_time_object(o):
    """end_time as the kind of number the case asks for: Python float / int, numpy float64 / float32 / int64
    scalar, 0-d float / integer array (what np.asarray(x) gives).  The value is the same exact rational."""
    import numpy as np

    if o["end_time"] is None:
        return None
    e = fr(o["end_time"])
    k = end_kind_or_float(e, o.get("end_time_kind", "float"))
    return {"float": lambda: float(e), "int": lambda: int(e), "np64": lambda: np.float64(float(e)),
            "np32": lambda: np.float32(float(e)), "npint": lambda: np.int64(int(e)),
            "arr0": lambda: np.array(float(e)), "arr0i": lambda: np.array(int(e))}[k]()


def end_kind_or_float(e, k):
    """the kind, or 'float' when the value cannot be held exactly by that kind."""
    import numpy as np

    if k in ("int", "npint", "arr0i") and e.denominator != 1:
        return "float"
    if k == "np32" and F(float(np.float32(float(e)))) != e:
        return "float"
    return k


def add_kinds(rng, case):
    """the same numbers as other kinds of number (a quarter of the cases each): end_time, margins, booleans."""
    o = case["opts"]
    if o.get("end_time") is not None and rng.random() < 0.3:
        k = end_kind_or_float(fr(o["end_time"]), rng.choice(END_KINDS[1:]))
        if k != "float":
            o["end_time_kind"] = k
    if rng.random() < 0.15:
        o["margin_kind"] = "np"
    if rng.random() < 0.15:
        o["bool_kind"] = "np"
    return case


def narrow_int_columns(rng, case):
    """integer unit columns (div / tick) of another width than i4 when every value fits (the statement fixes no width)."""
    ks = [k for k, u in enumerate(case["units"]) if u in INT_UNITS]
    if not ks or not case.get("layout") or rng.random() < 0.4:
        return
    vals = [int(fr(x)) for r in case["rows"] for k in ks for x in r["t"][k]]
    lo, hi = min(vals), max(vals)
    fits = [t for t, (a, b) in (("i1", (-128, 127)), ("u1", (0, 255)), ("i2", (-2 ** 15, 2 ** 15 - 1)), ("u2", (0, 2 ** 16 - 1)), ("i8", (-2 ** 62, 2 ** 62)))
            if a <= lo and hi <= b]
    if fits:
        t = case["layout"]["tint"] = rng.choice(fits)
        # ... and pitch and velocity columns of that very width (an all-int8 / all-uint8 array: nothing in it is wider)
        if t in ("i1", "u1") and rng.random() < 0.7:
            top = 127 if t == "i1" else 255
            if all(0 <= r["pitch"] <= top for r in case["rows"]):
                case["layout"]["pitch"] = t
            if all(0 <= r["vel"] <= top for r in case["rows"]):
                case["layout"]["vel"] = t


def runs_of_dense(d):
    """all non-zero cells of a dense 2-d array as maximal runs (row, c0, c1, value)."""
    import numpy as np

    out = []
    for r in np.flatnonzero((d != 0).any(axis=1)):
        row = d[r]
        c = 0
        n = row.shape[0]
        while c < n:
            v = row[c]
            if v == 0:
                c += 1
                continue
            c0 = c
            while c < n and row[c] == v:
                c += 1
            out.append((int(r), c0, c, v.item()))
    return out


def call_roll(target, case):
    """compute_pianoroll(target, options of the case) -> (what was observed, the roll as returned, the index rows as
    returned).  The arguments are the caller's: a note array or a 0-d end_time array changed by the call is reported."""
    import numpy as np
    import partitura.utils.music as M

    kw = roll_kwargs(case)
    et = kw["end_time"]
    et0 = et.copy() if isinstance(et, np.ndarray) else None
    snap = target.tobytes() if isinstance(target, np.ndarray) else None

    def arguments_changed():
        if et0 is not None and not (et.shape == et0.shape and bool(np.all(et == et0))):
            return "the call changed the end_time object it was given (a 0-d array) from %r to %r" % (et0.tolist(), et.tolist())
        if snap is not None and target.tobytes() != snap:
            return "the call changed the note array it was given"
        return None

    try:
        with warnings.catch_warnings():
            warnings.simplefilter("ignore")
            res = M.compute_pianoroll(target, **kw)
    except Exception as e:
        # a refusal; whether refusing is acceptable is the judge's business (the statement speaks of
        # no exception class, so the class is recorded but not demanded)
        ch = arguments_changed()
        if ch:
            return {"status": "crash", "msg": ch}, None, None
        return {"status": "err", "exc": type(e).__name__, "msg": str(e)[:200]}, None, None
    ch = arguments_changed()
    if ch:
        return {"status": "crash", "msg": ch}, None, None
    idx = raw_idx = None
    if case["opts"]["return_idxs"]:
        if not (isinstance(res, (tuple, list)) and len(res) == 2):
            return {"status": "crash", "msg": "return_idxs=True did not return (roll, idx)"}, None, None
        res, raw_idx = res
        idx = np.asarray(raw_idx)
        if idx.ndim != 2 or idx.shape[1] < 3 or not np.all(idx == np.round(idx)):
            return {"status": "crash", "msg": "index rows are not whole-number rows (row, onset, offset[, pitch]): shape %s" % (idx.shape,)}, None, None
        idx = [[int(x) for x in row] for row in idx]
    elif isinstance(res, (tuple, list)):
        return {"status": "crash", "msg": "return_idxs=False returned a tuple"}, None, None
    # sparse (any format) or dense, any numeric dtype: only the VALUES are the statement's business
    d = np.asarray(res.toarray() if hasattr(res, "toarray") else res)
    if d.ndim != 2:
        return {"status": "crash", "msg": "roll is not 2-dimensional: shape %s" % (d.shape,)}, None, None
    if d.dtype.kind not in "iub":
        if d.dtype.kind != "f" or not np.all(d == np.round(d)):
            return {"status": "crash", "msg": "roll holds values that are not whole numbers (dtype %s)" % d.dtype}, None, None
    d = d.astype(np.int64)
    return ({"status": "ok", "shape": [int(d.shape[0]), int(d.shape[1])], "runs": [list(r) for r in runs_of_dense(d)], "idx": idx},
            res, raw_idx)


def run_impl_roll(case):
    na = build_object(case["object"])[0] if case.get("object") else build_array(case)
    return call_roll(na, case)[0]


# ----------------------------------------------------------------------------
# direct oracle: the property statement, over exact rationals


def infer_unit(units):
    for grp in (("beat", "quarter", "div"), ("sec", "tick")):
        for u in grp:
            if u in units:
                return u
    return None


def selected(case):
    """(unit, time_div, [(pitch, onset, dur, vel, input_row)]) as the statement reads the call."""
    o = case["opts"]
    u = o["time_unit"] if o["time_unit"] != "auto" else infer_unit(case["units"])
    td = o["time_div"]
    if td == "auto":
        td = 1 if u in INT_UNITS else 8
    k = case["units"].index(u)
    notes = []
    for r in case["rows"]:
        if case["has_chan"] and o["remove_drums"] and r["chan"] == 9:
            continue
        notes.append((r["pitch"], fr(r["t"][k][0]), fr(r["t"][k][1]), r["vel"] if case["has_vel"] else 1))
    return u, int(td), notes


def spec_roll(case, lenient=False):
    """Expected result by the property text.
    {"status":"ok","shape":[M,N],"cells":{(r,c):v},"idx":[...]} or {"status":"err","why":w} with w =
      "end_time"  end_time lies before the last note offset: the documented refusal;
      "empty" / "negdur" / "pitch"  no note left after drum filtering, a negative duration, a pitch
          outside the rows of the roll: the statement fixes no behaviour for such arrays.  A refusal is
          accepted; so is (lenient=True) the roll obtained by reading the clauses literally: a negative
          duration is 'never less than one frame', a note outside the rows cannot be shown, no note
          gives no non-zero cell (shape None = not judged)."""
    o = case["opts"]
    u, td, notes = selected(case)
    if not notes:
        return {"status": "ok", "shape": None, "cells": {}, "idx": None} if lenient else {"status": "err", "why": "empty"}
    if any(d < 0 for _, _, d, _ in notes) and not lenient:
        return {"status": "err", "why": "negdur"}
    tm, pm = o["time_margin"], o["pitch_margin"]
    if o.get("margin_frac"):     # `time_margin * time_div` empty frames: only generated where that is a whole number
        tm = tm + F(*o["margin_frac"])
        assert F(tm * td).denominator == 1
    mn = min(n[1] for n in notes)
    mt = mn if o["remove_silence"] else min(F(0), mn)
    if pm > -1:
        lo = min(n[0] for n in notes)
        hi = max(n[0] for n in notes)
        M = hi - lo + 1 + 2 * pm
    else:
        lo, M = None, 128
    fr_ = []
    for p, on, du, v in notes:
        a = rhe(td * (on - mt)) + int(tm * td)
        b = a + max(1, rhe(td * du))
        fr_.append((a, b))
    last = max(b for _, b in fr_)
    if o["end_time"] is None:
        N = last + int(tm * td)
    else:
        e = td * (fr(o["end_time"]) - mt)
        if e + tm * td < last:
            return {"status": "err", "why": "end_time"}
        N = math.ceil(e + 2 * tm * td)
    start = 21 if o["piano_range"] else 0
    Mout = max(0, min(M, 109) - 21) if o["piano_range"] else M
    cells = {}
    idx = []
    for (p, on, du, v), (a, b) in zip(notes, fr_):
        row = p - lo + pm if pm > -1 else p
        if not (0 <= row < M):
            if lenient:
                idx = None
                continue
            return {"status": "err", "why": "pitch"}
        if o["onset_only"]:
            end = a + 1
        else:
            end = max(a + 1, b - (1 if o["note_separation"] else 0))
        for c in range(a, end):
            if start <= row < start + Mout:
                key = (row - start, c)
                cells[key] = max(cells.get(key, v), v)
        if idx is not None:
            idx.append([row - start, a, end, p])
    if o["binary"]:
        cells = {k: (1 if v != 0 else 0) for k, v in cells.items()}
    if lenient:
        idx = None
    return {"status": "ok", "shape": [Mout, N], "cells": cells, "idx": idx}


def cells_of_runs(runs):
    d = {}
    for r, c0, c1, v in runs:
        for c in range(c0, c1):
            d[(r, c)] = v
    return d


def domain_edge(case):
    """why-code when the array lies outside what the statement fixes (see spec_roll), else None."""
    exp = spec_roll(case)
    return exp["why"] if exp["status"] == "err" and exp["why"] != "end_time" else None


def judge_roll(case, got=None):
    """None if the implementation's result is what the statement requires, else a description."""
    got = got or run_impl_roll(case)
    exp = spec_roll(case)
    if got["status"] == "crash":
        return "compute_pianoroll: " + got["msg"]
    if exp["status"] == "err":
        if got["status"] == "err":
            return None
        if exp["why"] == "end_time":
            return "end_time lies before the last note offset, yet a roll of shape %s came back" % got["shape"]
        exp = spec_roll(case, lenient=True)   # not refused: then the clauses, read literally, must hold
        if exp["status"] == "err":
            return "end_time lies before the last note offset, yet a roll of shape %s came back" % got["shape"]
    elif got["status"] == "err":
        return "valid input rejected: %s: %s" % (got.get("exc"), got["msg"])
    if exp["shape"] is not None and got["shape"] != exp["shape"]:
        return "shape %s, expected %s" % (got["shape"], exp["shape"])
    gc = cells_of_runs(got["runs"])
    ec = {k: v for k, v in exp["cells"].items() if v != 0}
    if gc != ec:
        diff = sorted(set(gc.items()) ^ set(ec.items()))[:6]
        return "cells differ (row, col) -> value: got/expected symmetric difference starts %s" % (diff,)
    if case["opts"]["return_idxs"] and exp["idx"] is not None:
        # (row, onset column, offset column) designate the cells; the fourth column (the MIDI pitch, as
        # documented) is compared when the implementation supplies it
        gi = got["idx"]
        ei = exp["idx"]
        if len(gi) != len(ei) or any(g[:3] != e[:3] or (len(g) > 3 and g[3] != e[3]) for g, e in zip(gi, ei)):
            return "index rows %s, expected %s" % (gi[:6], ei[:6])
    return None


# ----------------------------------------------------------------------------
# float exactness guard (DESIGN 2.4): the model is exact; skip a case when a float product the
# code forms is inexact AND the exact value sits within 2^-30 of a rounding/comparison boundary


def float_safe(case):
    o = case["opts"]
    u, td, notes = selected(case)
    if not notes:
        return True
    eps = F(1, 2 ** 30)
    mn = min(n[1] for n in notes)
    mt = mn if o["remove_silence"] else min(F(0), mn)

    def near_half(x):
        return abs((x - math.floor(x)) - F(1, 2)) < eps

    for p, on, du, v in notes:
        sub = float(on) - float(mt)
        if F(sub) != on - mt:
            return False
        for exact, fl in ((td * (on - mt), td * sub), (td * du, td * float(du))):
            if F(fl) != exact and (near_half(exact) or near_half(F(fl))):
                return False
    if o["end_time"] is not None:
        e = fr(o["end_time"])
        sub = float(e) - float(mt)
        if F(sub) != e - mt:
            return False
        exact = td * (e - mt)
        fl = sub * td
        if F(fl) != exact:
            if abs(exact - round(exact)) < eps or abs(F(fl) - round(F(fl))) < eps:
                return False
    return True


# ----------------------------------------------------------------------------
# Coq printers


def c_narr(case):
    rows = []
    for r in case["rows"]:
        ts = clist([ctuple([cq(fr(a)), cq(fr(b))]) for a, b in r["t"]])
        rows.append(ctuple([cz(r["pitch"]), ts, cz(r["vel"]), cz(r["chan"])]))
    return ctuple([clist([UCOQ[u] for u in case["units"]]), cbool(case["has_vel"]), cbool(case["has_chan"]), clist(rows)])


def c_copts(case):
    o = case["opts"]
    tu = "None" if o["time_unit"] == "auto" else "(Some %s)" % UCOQ[o["time_unit"]]
    td = "None" if o["time_div"] == "auto" else "(Some %s)" % cz(o["time_div"])
    et = "None" if o["end_time"] is None else "(Some %s)" % cq(fr(o["end_time"]))
    return "(mkCopts %s %s %s (mkOpts 1 %s %s %s %s %s %s %s %s))" % (
        tu, td, cbool(o["remove_drums"]), cbool(o["onset_only"]), cbool(o["note_separation"]), cz(o["pitch_margin"]),
        cz(o["time_margin"]), cbool(o["piano_range"]), cbool(o["remove_silence"]), et, cbool(o["binary"]))


def c_idx(idx):
    if idx is None or any(len(row) < 4 for row in idx):   # no pitch column supplied: judged by the oracle only
        return "None"
    return "(Some %s)" % clist([ctuple([cz(x) for x in row[:4]]) for row in idx])


def c_obs_roll(got):
    if got["status"] != "ok":
        return "None"
    runs = clist([ctuple([cz(x) for x in r]) for r in got["runs"]])
    return "(Some (%s, %s, %s, %s))" % (cz(got["shape"][0]), cz(got["shape"][1]), runs, c_idx(got["idx"]))


def c_roll_case(case, got):
    return "((%s, %s, %s) : copts * narr * obs_roll)" % (c_copts(case), c_narr(case), c_obs_roll(got))


# ----------------------------------------------------------------------------
# generators (ctx.rng only)


def gen_rows(rng, units, n=None, grid=True, small=False, tf="f4"):
    if n is None:
        x = rng.random()
        # 6 %: 17-40 rows (numpy's default argsort is not stable above 16 elements; ties in onset then come in
        # another order than the input)
        n = 1 if x < 0.05 else rng.randint(2, 6) if x < 0.57 else rng.randint(7, 12) if x < 0.94 else rng.randint(17, 40)
    pool_kind = rng.random()
    if pool_kind < 0.55:
        pool = [rng.randint(21, 108) for _ in range(rng.randint(1, 4))]
    elif pool_kind < 0.85:
        pool = [rng.randint(0, 127) for _ in range(rng.randint(2, 8))]
    else:
        pool = [rng.choice([0, 20, 21, 22, 107, 108, 109, 119, 120, 127]) for _ in range(rng.randint(1, 5))]
    shift = rng.choice([0, 0, 0, 0, 0, -1, -8, -16, 3, 16])  # negative onsets (pickup) and late starts
    maxk, maxd = (24, 12) if small else (48, 32)
    chan_mode = rng.random()
    rows = []
    for i in range(n):
        t = []
        for u in units:
            if u in INT_UNITS:
                on = F(rng.randint(0, 24) + (shift if shift < 0 else 0))
                du = F(rng.choice([0, 1, 1, 2, 3, 5, 8]))
            elif grid:
                on = F(rng.randint(0, maxk) + shift, 16)
                du = F(0) if rng.random() < 0.15 else F(rng.randint(1, maxd), 16)
            else:
                import numpy as np
                conv = np.float32 if tf == "f4" else np.float64
                on = F(float(conv(rng.random() * 4 + shift / 16.0)))
                du = F(float(conv(rng.random() * 1.5)))
            t.append([frs(on), frs(du)])
        # channel 9 is the drum channel; its neighbours 8 and 10 and the last channel 15 are ordinary ones
        ch = 9 if chan_mode < 0.08 else rng.choice([0, 0, 1, 9, 9, 8, 10, 15])
        rows.append({"pitch": rng.choice(pool), "t": t, "vel": rng.randint(1, 127), "chan": ch})
    # weight on collisions: re-strike / overlap an existing note with another velocity
    if n >= 2 and rng.random() < 0.3:
        a = rng.randrange(n)
        b = rng.randrange(n)
        if a != b:
            rows[b]["pitch"] = rows[a]["pitch"]
            if rng.random() < 0.5:
                rows[b]["t"] = [list(x) for x in rows[a]["t"]]
    order = rng.random()
    k0 = 0
    if order < 0.12:   # onset-descending: the reverse of what the code sorts to
        rows.sort(key=lambda r: fr(r["t"][k0][0]), reverse=True)
    elif order < 0.17:  # already sorted (what the repository's tests use)
        rows.sort(key=lambda r: fr(r["t"][k0][0]))
    return rows


def gen_opts(rng, case_units, grid=True):
    o = {k: rng.random() < 0.5 for k in BOOL_OPTS}
    o["remove_drums"] = rng.random() < 0.75
    o["time_unit"] = "auto" if rng.random() < 0.5 else rng.choice(case_units)
    x = rng.random()
    o["time_div"] = "auto" if x < 0.15 else rng.choice([1, 2, 4, 8, 16]) if x < 0.9 else rng.choice([3, 5, 10, 12])
    if o["time_div"] != "auto" and rng.random() < 0.25:
        o["time_div_kind"] = rng.choice(["np", "np32"])      # an integer all the same (documented type: int)
    o["pitch_margin"] = rng.choice([-1, -1, 0, 2, 2, 1, 5][: 7 if rng.random() < 0.2 else 5])
    o["time_margin"] = rng.choice([0, 1, 2])
    o["end_time"] = None
    return o


def choose_end_time(rng, case):
    """end_time None (half), else last sounding time plus a margin; sometimes too early."""
    if rng.random() < 0.5:
        return None
    u, td, notes = selected(case)
    if not notes:
        return frs(F(rng.randint(0, 64), 16))
    last = max(on + max(du, 0) for _, on, du, _ in notes)
    x = rng.random()
    if x < 0.12:
        extra = -F(rng.randint(1, 24), 16)
    elif x < 0.4:
        extra = F(0)
    else:
        extra = F(rng.choice([1, 2, 8, 16, 17, 36, 5]), 16)
    if u in INT_UNITS and rng.random() < 0.7:
        extra = F(math.ceil(extra))
    return frs(last + extra + (F(1) if rng.random() < 0.3 else F(0)))


def gen_layout(rng, nunits):
    """None (60 %: the layout partitura's own note arrays have) or a variation of what the statement
    leaves open: field order, dtypes, extra fields."""
    if rng.random() < 0.6:
        return None
    lay = {"time": rng.choice(["f4", "f8", "f8"]), "pitch": rng.choice(["i4", "i8", "i2"]),
           "vel": rng.choice(["i4", "i8", "u1", "f4"]), "extra": rng.random() < 0.5}
    if rng.random() < 0.6:
        k = list(range(1 + 2 * nunits + 3 + (3 if lay["extra"] else 0)))
        rng.shuffle(k)
        lay["order"] = k
    return lay


def gen_roll_case(rng, small=False):
    nunits = rng.choice([1, 1, 2, 2, 3])
    units = rng.sample(UNITS, nunits)
    grid = rng.random() < 0.88
    lay = gen_layout(rng, len(units))
    case = {"kind": "roll", "units": units, "has_vel": rng.random() < 0.6, "has_chan": rng.random() < 0.35,
            "rows": gen_rows(rng, units, grid=grid, small=small, tf=(lay or {}).get("time", "f4"))}
    if lay:
        case["layout"] = lay
    case["opts"] = gen_opts(rng, units, grid)
    if rng.random() < 0.012:
        r = rng.choice(case["rows"])
        k = rng.randrange(len(units))
        r["t"][k][1] = frs(-F(1, 1) if units[k] in INT_UNITS else -F(1, 16))
    if rng.random() < 0.015:
        rng.choice(case["rows"])["pitch"] = rng.choice([128, 130, -1])
    case["opts"]["end_time"] = choose_end_time(rng, case)
    narrow_int_columns(rng, case)
    add_kinds(rng, case)
    return case


FIXED_ROWS = [
    # unsorted, collision of two velocities on pitch 60, zero-length note, exact half-frame onsets at time_div 8
    {"units": ["beat"], "has_vel": True, "has_chan": True, "rows": [
        {"pitch": 60, "t": [["9/16", "1/2"]], "vel": 90, "chan": 0},
        {"pitch": 64, "t": [["1/4", "0/1"]], "vel": 30, "chan": 0},
        {"pitch": 60, "t": [["3/16", "5/8"]], "vel": 40, "chan": 1},
        {"pitch": 20, "t": [["1/1", "3/16"]], "vel": 77, "chan": 0},
        {"pitch": 36, "t": [["1/8", "1/4"]], "vel": 99, "chan": 9},
        {"pitch": 108, "t": [["5/16", "1/16"]], "vel": 5, "chan": 0}]},
    {"units": ["sec", "tick"], "has_vel": True, "has_chan": False, "rows": [
        {"pitch": 72, "t": [["2/1", "1/1"], ["7/1", "2/1"]], "vel": 100, "chan": 0},
        {"pitch": 72, "t": [["-1/2", "3/1"], ["0/1", "9/1"]], "vel": 20, "chan": 0},
        {"pitch": 50, "t": [["1/16", "1/16"], ["3/1", "0/1"]], "vel": 64, "chan": 0}]},
    {"units": ["quarter"], "has_vel": False, "has_chan": False, "rows": [
        {"pitch": 109, "t": [["3/2", "1/4"]], "vel": 1, "chan": 0},
        {"pitch": 21, "t": [["1/2", "1/1"]], "vel": 1, "chan": 0},
        {"pitch": 21, "t": [["1/2", "1/1"]], "vel": 1, "chan": 0},
        {"pitch": 65, "t": [["1/1", "1/2"]], "vel": 1, "chan": 0}]},
]


def exhaustive_option_cases(rows_case, time_div):
    """all 2^7 boolean combinations x pitch_margin {-1,0,2} x time_margin {0,1,2} x end_time {None, given}."""
    out = []
    for bits in range(128):
        for pm in (-1, 0, 2):
            for tm in (0, 1, 2):
                for et in (None, "+"):
                    c = json.loads(json.dumps(rows_case))
                    c["kind"] = "roll"
                    o = {k: bool(bits >> i & 1) for i, k in enumerate(BOOL_OPTS)}
                    o.update(time_unit="auto", time_div=time_div, pitch_margin=pm, time_margin=tm, end_time=None)
                    c["opts"] = o
                    if et:
                        u, td, notes = selected(c)
                        o["end_time"] = frs(max(on + du for _, on, du, _ in notes) + F(3, 16))
                    out.append(c)
    return out


# ----------------------------------------------------------------------------
# score-like and performance-like inputs (the dispatch of ensure_notearray in front of the roll)

STEPS = [("C", 0), ("C", 1), ("D", 0), ("D", 1), ("E", 0), ("F", 0), ("F", 1), ("G", 0), ("G", 1), ("A", 0), ("A", 1), ("B", 0)]


def build_object(spec):
    """(object handed to compute_pianoroll, reference note array obtained WITHOUT ensure_notearray:
    the object's own note_array() method, note_array_from_part_list for a group / a list of parts)."""
    import partitura.score as S
    import partitura.performance as P
    import partitura.utils.music as M

    ty = spec["type"]
    with warnings.catch_warnings():
        warnings.simplefilter("ignore")
        if ty in ("ppart", "performance"):
            pps = [P.PerformedPart([dict(midi_pitch=n[0], note_on=float(fr(n[1])), note_off=float(fr(n[2])), velocity=n[3], channel=n[4], track=n[5])
                                    for n in notes], ppq=spec.get("ppq", 480), mpq=500000) for notes in spec["pparts"]]
            if ty == "ppart":
                return pps[0], pps[0].note_array()
            perf = P.Performance(id="perf", performedparts=pps)
            return perf, perf.note_array()
        parts = [build_part(ps, k) for k, ps in enumerate(spec["parts"])]
        if ty == "part":
            return parts[0], parts[0].note_array()
        if ty == "score":
            sc = S.Score(parts)
            return sc, sc.note_array()
        if ty == "partgroup":
            g = S.PartGroup()
            g.children = parts
            return g, M.note_array_from_part_list(parts)
        if ty == "partlist":
            return parts, M.note_array_from_part_list(parts)
    raise ValueError(ty)


def case_of_notearray(na):
    """units / rows / velocity / channel of a structured note array as a case (exact rationals)."""
    names = list(na.dtype.names)
    units = [u for u in UNITS if "onset_" + u in names]
    rows = []
    for row in na:
        rows.append({"pitch": int(row["pitch"]),
                     "t": [[frs(F(float(row["onset_" + u]))), frs(F(float(row["duration_" + u])))] for u in units],
                     "vel": int(row["velocity"]) if "velocity" in names else 1,
                     "chan": int(row["channel"]) if "channel" in names else 0})
    return {"kind": "roll", "units": units, "has_vel": "velocity" in names, "has_chan": "channel" in names, "rows": rows}


def gen_object_case(rng):
    ty = rng.choice(["part", "part", "score", "partgroup", "partlist", "ppart", "ppart", "performance"])
    pool = [rng.randint(21, 108) for _ in range(3)] + [rng.choice([0, 20, 21, 108, 109, 127])]
    if ty in ("ppart", "performance"):
        pps = []
        for _ in range(1 if ty == "ppart" else rng.randint(1, 2)):
            notes = []
            for _ in range(rng.randint(1, 6)):
                a = F(rng.randint(0, 40), 16)
                notes.append([rng.choice(pool), frs(a), frs(a + F(rng.randint(1, 24), 16)), rng.randint(1, 127),
                              rng.choice([0, 0, 1, 9, 9, 10]), rng.choice([0, 1, 9])])
            pps.append(notes)
        # 2 * ppq ticks per second: small, so that the tick columns give rolls of a few dozen frames
        spec = {"type": ty, "pparts": pps, "ppq": rng.choice([2, 4, 8])}
    else:
        parts = []
        for _ in range(1 if ty == "part" else rng.randint(1, 3)):
            qd = rng.choice([1, 2, 4, 4, 8])
            notes = []
            for _ in range(rng.randint(1, 6)):
                a = rng.randint(0, 6 * qd)
                notes.append([rng.choice(pool), a, a + rng.randint(1, 3 * qd)])
            parts.append({"qd": qd, "ts": rng.choice([[4, 4], [4, 4], [3, 4], [2, 2], [6, 8]]), "notes": notes})
        spec = {"type": ty, "parts": parts}
    try:
        ref = build_object(spec)[1]
    except Exception:
        return None
    case = case_of_notearray(ref)
    if not case["rows"] or not case["units"]:
        return None
    case["object"] = spec
    case["container"] = ty
    case["opts"] = gen_opts(rng, case["units"])
    if selected(case)[0] in INT_UNITS and case["opts"]["time_div"] != "auto":
        case["opts"]["time_div"] = rng.choice([1, 1, 2])      # whole ticks / divisions: keep the number of frames small
    if ty in ("score", "partgroup", "partlist"):
        case["opts"]["return_idxs"] = False    # the order of the rows of a merged note array is not the roll's business
    case["opts"]["end_time"] = choose_end_time(rng, case)
    add_kinds(rng, case)
    return case


# ----------------------------------------------------------------------------
# stream 1: compute_pianoroll


def classify_roll(ctx, case, got):
    o = case["opts"]
    u, td, notes = selected(case)
    feats = []
    ons = [n[1] for n in notes]
    if ons != sorted(ons):
        feats.append("unsorted_rows")
    if any(d == 0 for _, _, d, _ in notes):
        feats.append("zero_length")
    if any((td * n[1]).denominator == 2 or (td * n[2]).denominator == 2 for n in notes):
        feats.append("half_frame_tie")
    if got["status"] == "ok":
        sp = spec_roll(case)
        if sp["status"] == "ok":
            covered = {}
            for (r, a, e, p) in sp["idx"]:
                for c in range(a, e):
                    covered[(r, c)] = covered.get((r, c), 0) + 1
            if any(v > 1 for v in covered.values()):
                feats.append("collision")
    else:
        feats.append("rejected")
    if case["has_chan"] and o["remove_drums"] and any(r["chan"] == 9 for r in case["rows"]):
        feats.append("drums_removed")
    if o["end_time"] is not None:
        feats.append("end_time")
    for f in feats:
        ctx.count("roll:" + f)
    for k in BOOL_OPTS:
        if o[k]:
            ctx.count("opt:" + k)
    ctx.count("opt:pitch_margin=%d" % o["pitch_margin"])
    ctx.count("opt:time_margin=%d" % o["time_margin"])
    ctx.count("opt:time_div=%s" % (o["time_div"] if o["time_div"] in ("auto", 1) else "n"))
    if o.get("time_div_kind"):
        ctx.count("opt:time_div_as_" + o["time_div_kind"])
    ctx.count("unit:" + u)
    if o["time_unit"] != "auto":
        ctx.count("unit:explicit")
        if u != infer_unit(case["units"]):
            ctx.count("unit:explicit_other_than_inferred")
    elif len(case["units"]) > 1:
        ctx.count("unit:inferred_among_several")
    ctx.count("arr:velocity_field" if case["has_vel"] else "arr:no_velocity_field")
    if case["has_chan"]:
        ctx.count("arr:channel_field")
        if any(r["chan"] in (8, 10, 15) for r in case["rows"]):
            ctx.count("arr:channels_next_to_9")
    if len(case["rows"]) > 16:
        ctx.count("arr:more_than_16_rows")
    lay = case.get("layout")
    if lay:
        ctx.count("arr:layout_varied")
        if lay.get("order"):
            ctx.count("arr:fields_reordered")
        if lay.get("time") == "f8":
            ctx.count("arr:f8_time_columns")
    if case.get("container"):
        ctx.count("obj:" + case["container"])
    if got["status"] == "ok" and (set(feats) & {"unsorted_rows", "collision", "half_frame_tie", "zero_length"}):
        ctx.nontrivial(json.dumps(case, sort_keys=True))


def shrink_roll(case, pred):
    """ddmin over the rows, keeping the judgement 'pred(case) is a failure'."""
    def fails(rows):
        c = dict(case, rows=rows)
        try:
            return bool(pred(c))
        except Exception:
            return False
    rows = core.ddmin(case["rows"], fails)
    return dict(case, rows=rows)



WITH_COQ = True   # False when Props/C13.v did not build: the direct oracles still run


def coq_failing_or_empty(ctx, name, terms, checker, shard, defs="", imports="From PV Require Import Model.C13 Model.C13_Api."):
    """ctx.coq_failing, except that an empty case list (every case already failed the direct oracle)
    is not handed to Coq (an untyped empty list literal does not elaborate)."""
    if not terms or not WITH_COQ:
        return None
    t0 = time.time()
    try:
        return ctx.coq_failing(name, imports, defs, terms, checker, shard=shard)
    finally:
        ctx.log("coq %s: %d cases, %.1fs" % (name, len(terms), time.time() - t0))


def run_roll_stream(ctx, cases, name, with_coq=True, checker="check_pianoroll"):
    terms, kept = [], []
    nviol = 0
    t0 = time.time()
    for case in cases:
        if not float_safe(case):
            ctx.count("roll:near_tie_skipped")
            continue
        got = run_impl_roll(case)
        ctx.evaluations += 1
        classify_roll(ctx, case, got)
        why = judge_roll(case, got)
        if why:
            nviol += 1
            if nviol <= 5:
                small = case if case.get("object") else shrink_roll(case, judge_roll)
                ctx.violation("compute_pianoroll: " + (judge_roll(small) or why), {"case": small, "got": run_impl_roll(small)})
            continue
        if got["status"] == "crash":
            continue
        edge = domain_edge(case)
        if edge:
            ctx.count("roll:outside_statement_%s_%s" % (edge, "refused" if got["status"] == "err" else "shown"))
            if got["status"] == "ok":
                continue     # the model refuses such arrays; nothing the statement fixes is compared
        ctx.sample({"case": case, "implementation": got}, limit=3)
        terms.append(c_roll_case(case, got))
        kept.append((case, got))
    ctx.log("stream %s: %d cases run and judged, %.1fs" % (name, len(cases), time.time() - t0))
    if not with_coq:
        return
    failing = coq_failing_or_empty(ctx, name, terms, checker, 300)
    if failing is None:
        ctx.obligation("correspondence: compute_pianoroll [%s]: no case left to compare (all failed the direct oracle)" % name, False, "")
        return
    ctx.obligation("correspondence: Model.C13.compute_pianoroll = implementation (shape, dense array cell by cell%s, index rows) on %d cases [%s]"
                   % (", the stored cells assembled as the sparse constructor does (Model.C13_Api.sparse_sum) and at distinct positions"
                      if checker == "check_pianoroll_asm" else "", len(terms), name), not failing, failing[:5])
    for i in failing[:5]:
        case, got = kept[i]
        ctx.violation("model and implementation disagree on compute_pianoroll (the implementation no longer computes what the proved model computes)",
                      {"case": case, "got": got})


# ----------------------------------------------------------------------------
# stream 2: compute_pitch_class_pianoroll


def pc_kwargs(case):
    o = case["opts"]
    return dict(normalize=o["normalize"], time_unit=o["time_unit"], time_div=o["time_div"], onset_only=o["onset_only"],
                note_separation=o["note_separation"], time_margin=o["time_margin"], return_idxs=o["return_idxs"],
                remove_silence=o["remove_silence"], end_time=end_time_object(o), binary=o["binary"])


def to_simple_fraction(x):
    """float64 -> the unique fraction with denominator <= 10^6 within 1e-12 (declared tolerance)."""
    f = F(float(x)).limit_denominator(10 ** 6)
    if abs(F(float(x)) - f) > F(1, 10 ** 12):
        return None
    return f


def run_impl_pc(case, na=None, raw=None):
    """na: the (live) array to call on, default a new one built from the case; raw: a list that receives the
    objects returned."""
    import numpy as np
    import partitura.utils.music as M

    na = build_array(case) if na is None else na
    snap = na.tobytes()
    kw = pc_kwargs(case)
    et = kw["end_time"]
    et0 = et.copy() if isinstance(et, np.ndarray) else None
    try:
        with warnings.catch_warnings():
            warnings.simplefilter("ignore")
            res = M.compute_pitch_class_pianoroll(na, **kw)
    except Exception as e:
        res = e
    if na.tobytes() != snap:
        return {"status": "crash", "msg": "the call changed the note array it was given"}
    if et0 is not None and not bool(np.all(et == et0)):
        return {"status": "crash", "msg": "the call changed the end_time object it was given (a 0-d array) from %r to %r" % (et0.tolist(), et.tolist())}
    if isinstance(res, Exception):
        return {"status": "err", "exc": type(res).__name__, "msg": str(res)[:200]}
    idx = None
    if case["opts"]["return_idxs"]:
        res, idx = res
        if raw is not None:
            raw.append(("idx", idx))
        idx = [[int(x) for x in row] for row in np.asarray(idx)]
    if raw is not None:
        raw.append(("pc", res))
    d = np.asarray(res.toarray() if hasattr(res, "toarray") else res)
    if d.ndim != 2 or d.shape[0] != 12:
        return {"status": "crash", "msg": "pitch-class roll has shape %s" % (d.shape,)}
    runs = []
    for r, c0, c1, v in runs_of_dense(d):
        f = to_simple_fraction(v)
        if f is None:
            return {"status": "crash", "msg": "value %r is not within 1e-12 of a fraction with denominator <= 10^6" % v}
        runs.append([r, c0, c1, frs(f)])
    return {"status": "ok", "cols": int(d.shape[1]), "runs": runs, "idx": idx}


def full_case_of_pc(case):
    o = case["opts"]
    c = dict(case)
    c["opts"] = dict(time_unit=o["time_unit"], time_div=o["time_div"], onset_only=o["onset_only"], note_separation=o["note_separation"],
                     pitch_margin=-1, time_margin=o["time_margin"], return_idxs=True, piano_range=False, remove_drums=True,
                     remove_silence=o["remove_silence"], end_time=o["end_time"], binary=False)
    return c


def spec_pc(case):
    o = case["opts"]
    sp = spec_roll(full_case_of_pc(case))
    if sp["status"] != "ok":
        return sp
    N = sp["shape"][1]
    pc = {}
    for (r, c), v in sp["cells"].items():
        pc[(r % 12, c)] = pc.get((r % 12, c), 0) + v
    if o["binary"]:
        pc = {k: (1 if v > 0 else v) for k, v in pc.items()}
    if o["normalize"]:
        s = {}
        for (r, c), v in pc.items():
            s[c] = s.get(c, 0) + v
        pc = {(r, c): F(v, s[c]) if s[c] != 0 else F(v) for (r, c), v in pc.items()}
    pc = {k: F(v) for k, v in pc.items() if v != 0}
    idx = [[r % 12, a, b, p] for r, a, b, p in sp["idx"]]
    return {"status": "ok", "cols": N, "cells": pc, "idx": idx}


def judge_pc(case, got=None):
    got = got or run_impl_pc(case)
    exp = spec_pc(case)
    if got["status"] == "crash":
        return "compute_pitch_class_pianoroll crashed: " + got["msg"]
    if exp["status"] == "err":
        if got["status"] == "err":
            return None
        if exp["why"] == "empty" and not got["runs"]:
            return None    # no note to show and nothing shown: the statement fixes no more than that
        return "expected a refusal (%s), got a pitch-class roll" % exp["why"]
    if got["status"] == "err":
        return "valid input rejected: %s: %s" % (got.get("exc"), got["msg"])
    if got["cols"] != exp["cols"]:
        return "pitch-class roll has %d columns, expected %d" % (got["cols"], exp["cols"])
    gc = {k: fr(v) for k, v in cells_of_runs(got["runs"]).items()}
    if gc != exp["cells"]:
        diff = sorted(set(gc.items()) ^ set(exp["cells"].items()))[:6]
        return "pitch-class cells are not the octave fold of the full roll%s: %s" % (" (normalised)" if case["opts"]["normalize"] else "", [(k, str(v)) for k, v in diff])
    if case["opts"]["normalize"]:
        for c in range(got["cols"]):
            s = sum(v for (r, cc), v in gc.items() if cc == c)
            if s not in (0, 1):
                return "normalised column %d sums to %s" % (c, s)
    if case["opts"]["return_idxs"]:
        gi, ei = got["idx"], exp["idx"]
        if len(gi) != len(ei) or any(g[:3] != e[:3] or (len(g) > 3 and g[3] != e[3]) for g, e in zip(gi, ei)):
            return "pitch-class index rows %s, expected %s" % (gi[:6], ei[:6])
    return None


def gen_pc_case(rng):
    nunits = rng.choice([1, 1, 2])
    units = rng.sample(UNITS, nunits)
    case = {"kind": "pc", "units": units, "has_vel": rng.random() < 0.7, "has_chan": rng.random() < 0.3,
            "rows": gen_rows(rng, units, n=rng.randint(1, 8), small=True)}
    # weight on octave-related pitches (the fold must ADD them) and on rows 120..127 (the short last slice)
    if rng.random() < 0.6:
        base = rng.randint(0, 11)
        for r in case["rows"]:
            if rng.random() < 0.7:
                r["pitch"] = base + 12 * rng.randint(0, 10 if base < 8 else 9)
    go = gen_opts(rng, units)
    o = {k: go[k] for k in ("time_unit", "onset_only", "note_separation", "time_margin", "return_idxs", "remove_silence", "binary")}
    o["time_div"] = rng.choice(["auto", 1, 2, 4, 8])
    o["normalize"] = rng.random() < 0.6
    o["end_time"] = None
    case["opts"] = o
    tmp = full_case_of_pc(case)
    case["opts"]["end_time"] = choose_end_time(rng, tmp)
    if case["opts"]["end_time"] is not None and rng.random() < 0.3:
        k = end_kind_or_float(fr(case["opts"]["end_time"]), rng.choice(END_KINDS[1:]))
        if k != "float":
            case["opts"]["end_time_kind"] = k
    return case


def c_pcopts(case):
    o = case["opts"]
    tu = "None" if o["time_unit"] == "auto" else "(Some %s)" % UCOQ[o["time_unit"]]
    td = "None" if o["time_div"] == "auto" else "(Some %s)" % cz(o["time_div"])
    et = "None" if o["end_time"] is None else "(Some %s)" % cq(fr(o["end_time"]))
    return "(mkPcopts %s %s %s %s %s %s %s %s %s)" % (cbool(o["normalize"]), tu, td, cbool(o["onset_only"]), cbool(o["note_separation"]),
                                                      cz(o["time_margin"]), cbool(o["remove_silence"]), et, cbool(o["binary"]))


def c_obs_pc(got):
    if got["status"] != "ok":
        return "None"
    return "(Some (%s, %s, %s))" % (cz(got["cols"]), clist([ctuple([cz(r), cz(a), cz(b), cq(fr(q))]) for r, a, b, q in got["runs"]]), c_idx(got["idx"]))


def run_pc_stream(ctx, n):
    terms, kept = [], []
    nviol = 0
    for _ in range(n):
        case = gen_pc_case(ctx.rng)
        if not float_safe(full_case_of_pc(case)):
            ctx.count("pc:near_tie_skipped")
            continue
        got = run_impl_pc(case)
        ctx.evaluations += 1
        why = judge_pc(case, got)
        ctx.count("pc:" + got["status"])
        if case["opts"]["normalize"]:
            ctx.count("pc:normalize")
        if why:
            nviol += 1
            if nviol <= 3:
                small = shrink_roll(case, judge_pc)
                ctx.violation("compute_pitch_class_pianoroll: " + (judge_pc(small) or why), {"case": small, "got": run_impl_pc(small)})
            continue
        if got["status"] == "ok":
            ps = sorted(r["pitch"] % 12 for r in case["rows"])
            if len(set(ps)) < len(ps):
                ctx.count("pc:octave_or_unison_related_notes")
                ctx.nontrivial(json.dumps(case, sort_keys=True))
        if got["status"] == "ok" and spec_pc(case)["status"] == "err":
            ctx.count("pc:outside_statement_shown")
            continue
        ob = c_obs_pc(got)
        terms.append("((%s, %s, %s) : pcopts * narr * obs_pc)" % (c_pcopts(case), c_narr(case), ob))
        kept.append((case, got))
    if kept:
        ctx.sample({"case": kept[0][0], "implementation": kept[0][1]}, limit=4)
    failing = coq_failing_or_empty(ctx, "pc", terms, "check_pc", 100)
    if not WITH_COQ:
        return
    if failing is None:
        ctx.obligation("correspondence: compute_pitch_class_pianoroll: no case left to compare (all failed the direct oracle)", False, "")
        return
    ctx.obligation("correspondence: Model.C13 pitch-class fold/normalisation = compute_pitch_class_pianoroll on %d cases" % len(terms), not failing, failing[:5])
    for i in failing[:5]:
        ctx.violation("model and implementation disagree on compute_pitch_class_pianoroll", {"case": kept[i][0], "got": kept[i][1]})


# ----------------------------------------------------------------------------
# stream 3: pianoroll_to_notearray (random integer rolls, and the round trip of O6)


def gen_decode_case(rng):
    rows = rng.choice([128, 128, 88])
    cols = rng.choice([0, 1, 2, 3, 5, 8, 13, 24])
    nz = {}
    used_rows = [rng.randrange(rows) for _ in range(rng.randint(1, 5))]
    if rng.random() < 0.3:
        used_rows += [0, rows - 1]
    for r in used_rows:
        c = 0
        while c < cols:
            if rng.random() < 0.45:
                c += rng.randint(1, 3)
                continue
            ln = rng.randint(1, 4)
            v = rng.choice([1, 1, 64, 127, rng.randint(1, 127), rng.randint(1, 127)])
            if rng.random() < 0.04:
                v = -rng.randint(1, 5)
            for j in range(c, min(cols, c + ln)):
                nz[(r, j)] = v
            c += ln  # the next run may touch this one (same or different value)
    return {"kind": "decode", "rows": rows, "cols": cols, "cells": sorted([r, c, v] for (r, c), v in nz.items()),
            "time_div": rng.choice([1, 2, 4, 8, 8, 16, 3, 10]), "time_unit": rng.choice(["sec", "beat", "quarter", "div"]),
            "container": rng.choice(["dense", "dense", "csc", "csr"]), "dtype": rng.choice(["int64", "int64", "int32", "int16", "int8"]),
            "time_div_kind": rng.choice(["int", "int", "int", "np", "np8", "npu8"])}


def build_roll(case):
    import numpy as np
    from scipy.sparse import csc_matrix, csr_matrix

    d = np.zeros((case["rows"], case["cols"]), dtype=case.get("dtype", "int64"))
    for r, c, v in case["cells"]:
        d[r, c] = v
    return {"dense": lambda x: x, "csc": csc_matrix, "csr": csr_matrix}[case["container"]](d)


def run_impl_decode(case, roll=None):
    import numpy as np
    import partitura.utils.music as M

    td = {"int": int, "np": np.int64, "np8": np.int8, "npu8": np.uint8}[case.get("time_div_kind", "int")](case["time_div"])
    try:
        na = M.pianoroll_to_notearray(build_roll(case) if roll is None else roll, time_div=td, time_unit=case["time_unit"])
    except Exception as e:
        return {"status": "err", "exc": type(e).__name__, "msg": str(e)[:200]}
    return read_notearray(na, case["time_unit"], case["time_div"])


def read_notearray(na, unit, td):
    """(pitch, onset, duration, velocity) of every row of a decoded note array.  Only these four
    fields are the statement's business (not their position in the dtype, not the ids, not the row
    order: the rows are compared as a multiset)."""
    names = list(na.dtype.names or [])
    want = ["pitch", "onset_" + unit, "duration_" + unit, "velocity"]
    if any(w not in names for w in want):
        return {"status": "crash", "msg": "fields %s lack one of %s" % (names, want)}
    out = []
    for row in na:
        on, du = float(row[want[1]]), float(row[want[2]])
        # f4 columns: recover the exact k/time_div within float32 precision (declared tolerance 2^-20 relative)
        fo, fd = F(round(on * td), td), F(round(du * td), td)
        if abs(F(on) - fo) > F(1, 2 ** 20) * max(1, abs(fo)) or abs(F(du) - fd) > F(1, 2 ** 20) * max(1, abs(fd)):
            return {"status": "crash", "msg": "onset/duration %r/%r is not a multiple of 1/time_div" % (on, du)}
        out.append([int(row["pitch"]), frs(fo), frs(fd), int(row["velocity"])])
    return {"status": "ok", "notes": out}


def note_key(n):
    return (fr(n[1]), n[0], fr(n[2]), n[3])


def spec_decode(case):
    """maximal runs of equal non-zero value in every row, ordered by (onset, pitch, offset, velocity)."""
    if case["rows"] not in (128, 88):
        return {"status": "err"}
    init = 21 if case["rows"] == 88 else 0
    byrow = {}
    for r, c, v in case["cells"]:
        if v != 0:
            byrow.setdefault(r, {})[c] = v
    out = []
    for r, cs in byrow.items():
        for c in sorted(cs):
            if c - 1 in cs and cs[c - 1] == cs[c]:
                continue
            e = c
            while e in cs and cs[e] == cs[c]:
                e += 1
            out.append((c, r, e, cs[c]))
    out.sort()
    td = case["time_div"]
    return {"status": "ok", "notes": [[r + init, frs(F(a, td)), frs(F(b - a, td)), v] for a, r, b, v in out]}


def judge_decode(case, got=None):
    got = got or run_impl_decode(case)
    exp = spec_decode(case)
    if got["status"] == "crash":
        return "pianoroll_to_notearray: " + got["msg"]
    if got["status"] != exp["status"]:
        return "pianoroll_to_notearray status %s (%s), expected %s" % (got["status"], got.get("msg", ""), exp["status"])
    if got["status"] == "ok":
        g, e = sorted(got["notes"], key=note_key), sorted(exp["notes"], key=note_key)
        if g != e:
            k = next((i for i in range(min(len(g), len(e))) if g[i] != e[i]), min(len(g), len(e)))
            return "decoded notes (pitch, onset, duration, velocity; as a multiset, in onset order) %s, expected the runs of the roll %s" % (g[max(0, k - 1):k + 5], e[max(0, k - 1):k + 5])
    return None


def c_decode_case(case, got):
    cells = clist([ctuple([cz(r), cz(c), cz(v)]) for r, c, v in case["cells"]])
    if got["status"] == "ok":
        ob = "(Some %s)" % clist([ctuple([cz(p), cq(fr(a)), cq(fr(d)), cz(v)]) for p, a, d, v in got["notes"]])
    else:
        ob = "None"
    return "((%s, %s, %s, %s, %s) : Z * Z * list cell * Z * option (list (Z * Q * Q * Z)))" % (cz(case["rows"]), cz(case["cols"]), cells, cz(case["time_div"]), ob)


def gen_roundtrip_case(rng):
    """grid-aligned, non-touching notes, rows in random order (the last clause of the statement;
    hypotheses of theorems roundtrip_recovers_notes / roundtrip_with_time_margin /
    roundtrip_through_interface).  Weights: half the cases re-strike a pitch already used (the gap
    between two notes of one pitch is often exactly ONE empty frame, the least that is non-touching); 40 %
    piano range (notes inside 21..108); 35 % start late or before time 0 (with and without
    remove_silence: onsets come back counted from the roll's time origin); 45 % a time margin of 1 or 2
    units (onsets come back shifted by it); 25 % no velocity field (velocity 1 comes back); 30 % a channel
    field with drum rows laid OVER the other notes (removed before rasterising, so they neither touch nor
    come back); 40 % further unit columns holding other values (field selection / unit inference); the
    resolution given or 'auto'."""
    piano = rng.random() < 0.4
    units = rng.sample(UNITS, rng.choice([1, 1, 1, 2, 3]))
    explicit = rng.random() < 0.5
    unit = rng.choice(units) if explicit else infer_unit(units)
    k = units.index(unit)
    if unit in INT_UNITS:
        td = rng.choice(["auto", 1, 1, 2])
        tdv = 1      # values of the integer columns are whole: they lie on every grid
    else:
        td = rng.choice(["auto", 1, 2, 4, 8, 16])
        tdv = 8 if td == "auto" else td
    n = rng.randint(1, 10)
    shift = rng.choice([0, 0, 0, 0, 3, 16, -1, -8]) if tdv > 1 else rng.choice([0, 0, 2, -3])
    has_chan = rng.random() < 0.3
    rows, busy = [], {}

    def other_columns(row_t):
        t = []
        for u in units:
            if u == unit:
                t.append(row_t)
            elif u in INT_UNITS:
                t.append([frs(F(rng.randint(0, 30))), frs(F(rng.randint(0, 5)))])
            else:
                t.append([frs(F(rng.randint(0, 60), 16)), frs(F(rng.randint(0, 20), 16))])
        return t

    for _ in range(n * 4):
        if len(rows) >= n:
            break
        p = rng.randint(21, 108) if piano or rng.random() < 0.7 else rng.choice([0, 1, 20, 109, 126, 127, rng.randint(0, 127)])
        a = rng.randint(0, 40)
        if rng.random() < 0.5 and rows:
            p = rng.choice(rows)["pitch"]
            if rng.random() < 0.6:          # exactly one empty grid step after / before a note of this pitch
                x, y = rng.choice(busy[p])
                a = y + 1 if rng.random() < 0.7 else max(0, x - 1 - rng.randint(1, 3))
        b = a + rng.randint(1, 8)
        if any(not (b < x or y < a) for x, y in busy.get(p, [])):   # would overlap or touch a note of this pitch
            continue
        busy.setdefault(p, []).append((a, b))
        rows.append({"pitch": p, "t": other_columns([frs(F(a + shift, tdv)), frs(F(b - a, tdv))]), "vel": rng.randint(1, 127),
                     "chan": rng.choice([0, 1, 8, 10]) if has_chan else 0})
    if has_chan and rows:
        for _ in range(rng.randint(1, 3)):      # drum rows over (and touching) the notes: removed, never shown
            r0 = rng.choice(rows)
            a0 = fr(r0["t"][k][0])
            rows.append({"pitch": r0["pitch"] if rng.random() < 0.7 else rng.randint(21, 108),
                         "t": other_columns([frs(a0 + F(rng.randint(-2, 2), tdv)), frs(F(rng.randint(1, 6), tdv))]),
                         "vel": rng.randint(1, 127), "chan": 9})
    rng.shuffle(rows)
    case = {"kind": "roundtrip", "units": units, "has_vel": rng.random() < 0.75, "has_chan": has_chan, "rows": rows,
            "opts": dict(time_unit=unit if explicit else "auto", time_div=td, onset_only=False, note_separation=False, pitch_margin=-1,
                         time_margin=rng.choice([0, 0, 0, 1, 1, 2]), return_idxs=False, piano_range=piano, remove_drums=True,
                         remove_silence=rng.random() < 0.5, end_time=None, binary=False)}
    lay = gen_layout(rng, len(units))
    if lay:
        case["layout"] = lay
    return case



# ----------------------------------------------------------------------------
# stream 3b (round j extension): rolls whose rows are TILED with runs -- touching runs of equal value (one note),
# of rising and of falling value (two notes), runs from the first / to the last column, single empty frames -- judged
# by the direct oracle and by Model.C13_Runs.check_decode_runs, the boolean form of the theorems
# decoder_returns_maximal_runs / decoder_covers_every_cell_once evaluated on the implementation's OWN output


def gen_runs_case(rng):
    rows = rng.choice([128, 128, 88])
    cols = rng.choice([1, 2, 3, 4, 6, 9, 16, 24])
    pool = rng.choice([[1, 2, 3], [1, 64, 127], [5, 5, 7], [1, 1, 2], [127, 126, 1]])
    used = sorted(set(rng.randrange(rows) for _ in range(rng.randint(1, 4))))
    if rng.random() < 0.25:
        used = sorted(set(used + [0, rows - 1]))
    nz, feats = {}, set()
    for r in used:
        c, prev = 0, None      # prev = value of the run that ends exactly at c (None after a gap / at the start)
        while c < cols:
            if rng.random() < 0.25:
                g = rng.choice([1, 1, 2])
                if prev is not None and g == 1 and c + 1 < cols:
                    feats.add("one_empty_frame_between_runs")
                c, prev = c + g, None
                continue
            ln = rng.randint(1, 4)
            v = rng.choice(pool)
            if rng.random() < 0.03:
                v = -rng.randint(1, 3)
                feats.add("negative_value")
            if prev is not None:
                feats.add("touching_equal_value_one_note" if v == prev else "touching_rise" if v > prev else "touching_fall")
            if c == 0:
                feats.add("run_from_first_column")
            if c + ln >= cols:
                feats.add("run_to_last_column")
            if ln == 1:
                feats.add("one_frame_run")
            for j in range(c, min(cols, c + ln)):
                nz[(r, j)] = v
            c, prev = c + ln, v
    case = {"kind": "decode", "rows": rows, "cols": cols, "cells": sorted([r, c, v] for (r, c), v in nz.items()),
            "time_div": rng.choice([1, 2, 4, 8, 8, 16, 3, 10]), "time_unit": rng.choice(["sec", "beat", "quarter", "div"]),
            "container": rng.choice(["dense", "dense", "csc", "csr"]), "dtype": rng.choice(["int64", "int64", "int32", "int16", "int8"]),
            "time_div_kind": rng.choice(["int", "int", "int", "np"])}
    return case, sorted(feats)


def run_runs_stream(ctx, n):
    terms, kept = [], []
    oracle_failed = set()
    nviol = 0
    for _ in range(n):
        case, feats = gen_runs_case(ctx.rng)
        got = run_impl_decode(case)
        ctx.evaluations += 1
        ctx.count("runs:cases")
        ctx.count("runs:%d_rows" % case["rows"])
        for f in feats:
            ctx.count("runs:" + f)
        if got["status"] == "ok":
            ctx.count("runs:notes_returned", len(got["notes"]))
        why = judge_decode(case, got)
        if why:
            nviol += 1
            if nviol <= 3:
                def fails(cells, case=case):
                    return bool(judge_decode(dict(case, cells=cells)))
                small = dict(case, cells=core.ddmin(case["cells"], fails))
                ctx.violation(judge_decode(small) or why, {"case": small, "got": run_impl_decode(small)})
            if got["status"] == "crash":
                continue
            oracle_failed.add(len(terms))   # the checker judges the implementation's output on its own: it is asked all the same
        if len(case["cells"]) > 1:
            ctx.nontrivial(json.dumps(case, sort_keys=True))
        terms.append(c_decode_case(case, got))
        kept.append((case, got))
    if kept:
        ctx.sample({"case": kept[0][0], "implementation": kept[0][1]}, limit=7)
    failing = coq_failing_or_empty(ctx, "decode_runs", terms, "check_decode_runs", 250,
                                   imports="From PV Require Import Model.C13 Model.C13_Runs.")
    if not WITH_COQ:
        return
    if failing is None:
        ctx.obligation("correspondence: pianoroll_to_notearray (maximal runs): no case left to compare (all failed the direct oracle)", False, "")
        return
    ctx.obligation("correspondence: Model.C13_Runs.check_decode_runs (every returned row a maximal run of its roll row, every non-zero cell "
                   "in exactly one returned row of its value: the statement of decoder_returns_maximal_runs / decoder_covers_every_cell_once) "
                   "holds of the implementation's pianoroll_to_notearray output on %d rolls tiled with touching runs" % len(terms),
                   not failing, failing[:5])
    for i in [k for k in failing if k not in oracle_failed][:5]:
        ctx.violation("the note array returned by pianoroll_to_notearray is not the set of maximal runs of the roll (Model.C13_Runs.check_decode_runs)",
                      {"case": kept[i][0], "got": kept[i][1]})


def run_impl_roundtrip(case):
    import partitura.utils.music as M

    na = build_array(case)
    u, td, _ = selected(case)
    try:
        with warnings.catch_warnings():
            warnings.simplefilter("ignore")
            pr = M.compute_pianoroll(na, **roll_kwargs(case))
            back = M.pianoroll_to_notearray(pr, time_div=td, time_unit=u)
    except Exception as e:
        return {"status": "err", "exc": type(e).__name__, "msg": str(e)[:200]}
    return read_notearray(back, u, td)


def judge_roundtrip(case, got=None):
    got = got or run_impl_roundtrip(case)
    if got["status"] != "ok":
        return "round trip of grid-aligned non-touching notes failed: %s %s" % (got.get("exc", ""), got["msg"])
    u, td, notes = selected(case)      # the notes the statement shows: unit chosen, drum rows dropped, velocity 1 without the field
    ons = [n[1] for n in notes]
    origin = min(ons) if case["opts"]["remove_silence"] else min(F(0), min(ons))
    origin -= case["opts"]["time_margin"]      # the leading margin comes before the time origin
    g = sorted(got["notes"], key=note_key)
    want = sorted(([p, frs(on - origin), frs(du), v] for p, on, du, v in notes), key=note_key)
    if g != want:
        return ("roll -> note array does not recover the notes (pitch, onset counted from the first frame of the roll = time %s, duration, "
                "velocity): got %s, expected %s" % (origin, g[:5], want[:5]))
    return None


def run_decode_stream(ctx, n_random, n_round):
    terms, kept = [], []
    nviol = 0
    for _ in range(n_random):
        case = gen_decode_case(ctx.rng)
        got = run_impl_decode(case)
        ctx.evaluations += 1
        ctx.count("decode:%d_rows_%s" % (case["rows"], case["container"]))
        why = judge_decode(case, got)
        if why:
            nviol += 1
            if nviol <= 3:
                def fails(cells, case=case):
                    return bool(judge_decode(dict(case, cells=cells)))
                small = dict(case, cells=core.ddmin(case["cells"], fails))
                ctx.violation(judge_decode(small) or why, {"case": small, "got": run_impl_decode(small)})
            continue
        if len(case["cells"]) > 1:
            ctx.nontrivial(json.dumps(case, sort_keys=True))
        terms.append(c_decode_case(case, got))
        kept.append((case, got))
    if kept:
        ctx.sample({"case": kept[0][0], "implementation": kept[0][1]}, limit=5)
    failing = coq_failing_or_empty(ctx, "decode", terms, "check_decode", 250)
    if WITH_COQ:
        if failing is None:
            ctx.obligation("correspondence: pianoroll_to_notearray: no case left to compare (all failed the direct oracle)", False, "")
            failing = []
        ctx.obligation("correspondence: Model.C13.pianoroll_to_notearray = implementation (multiset of decoded notes) on %d random integer rolls "
                       "(128 x n and 88 x n; dense, csc, csr)" % len(terms), not failing, failing[:5])
        for i in failing[:5]:
            ctx.violation("model and implementation disagree on pianoroll_to_notearray", {"case": kept[i][0], "got": kept[i][1]})
    nviol = 0
    terms, kept = [], []
    for _ in range(n_round):
        case = gen_roundtrip_case(ctx.rng)
        if not case["rows"] or not selected(case)[2]:
            continue
        ctx.evaluations += 1
        ctx.count("roundtrip:%s" % ("piano_range" if case["opts"]["piano_range"] else "full"))
        if case["opts"]["remove_silence"]:
            ctx.count("roundtrip:remove_silence")
        ps = [n[0] for n in selected(case)[2]]
        if len(set(ps)) < len(ps):
            ctx.count("roundtrip:pitch_struck_more_than_once")
        if case["opts"]["time_margin"]:
            ctx.count("roundtrip:time_margin")
        if not case["has_vel"]:
            ctx.count("roundtrip:no_velocity_field")
        if case["has_chan"]:
            ctx.count("roundtrip:drum_rows_over_the_notes")
        if len(case["units"]) > 1:
            ctx.count("roundtrip:several_unit_columns")
        if case["opts"]["time_div"] == "auto":
            ctx.count("roundtrip:time_div_auto")
        got = run_impl_roundtrip(case)
        why = judge_roundtrip(case, got)
        if why:
            nviol += 1
            if nviol <= 3:
                small = shrink_roll(case, lambda c: bool(c["rows"]) and bool(selected(c)[2]) and judge_roundtrip(c))
                ctx.violation(judge_roundtrip(small) or why, {"case": small, "got": run_impl_roundtrip(small)})
            continue
        if len(case["rows"]) > 1:
            ctx.nontrivial(json.dumps(case, sort_keys=True))
        ob = "(Some %s)" % clist([ctuple([cz(p), cq(fr(a)), cq(fr(d)), cz(v)]) for p, a, d, v in got["notes"]])
        terms.append("((%s, %s, %s, %s) : copts * narr * Z * option (list (Z * Q * Q * Z)))" % (c_copts(case), c_narr(case), cz(selected(case)[1]), ob))
        kept.append((case, got))
    if kept:
        ctx.sample({"case": kept[0][0], "implementation": kept[0][1]}, limit=6)
    # both decoders of the model: the row-wise one (check_roundtrip) and, through Model.C13_Api.roundtrip (resolution resolved as
    # compute_pianoroll does), the column scan of the code (check_roundtrip_api)
    failing = coq_failing_or_empty(ctx, "roundtrip", terms, "pv_rt", 200,
                                   defs="Definition pv_rt (x : copts * narr * Z * option (list (Z * Q * Q * Z))) : bool :=\n"
                                        "  let '(c, a, td, ob) := x in check_roundtrip x && check_roundtrip_api (c, a, ob)\n"
                                        "  && match resolved_div c a with Some d => d =? td | None => true end.\n") or []
    if not WITH_COQ:
        return
    ctx.obligation("correspondence: Model.C13 decoders (row-wise and column scan) applied to Model.C13 roll = pianoroll_to_notearray(compute_pianoroll(.)) "
                   "up to order on %d grid-aligned non-touching arrays (hypotheses of roundtrip_through_interface: time margins, drum rows, "
                   "several unit columns, no velocity field, resolution 'auto')" % len(terms), not failing, failing[:5])
    for i in failing[:5]:
        ctx.violation("model and implementation disagree on the round trip roll -> note array", {"case": kept[i][0], "got": kept[i][1]})



# ----------------------------------------------------------------------------
# stream 4: HISTORIES -- state carried between calls.
# One process, live objects: a note array A (and often a second one, B, of the same layout and row count), sometimes
# a score-like or performance-like object; operations
#   roll / pc      call compute_pianoroll / compute_pitch_class_pianoroll on the live array (or a reversed / strided
#                  VIEW of it) or on the live object; half of the calls repeat the options of an earlier call
#   decode k       pianoroll_to_notearray on the k-th result still held, as it is NOW (the caller may have written into it)
#   set / reverse  edit the live array IN PLACE (one value; the row order)
#   switch         go on with the other array;  replace: a NEW array object takes the place of the current one
#   write k        the caller overwrites the k-th result held (roll cells, index rows, pitch-class values) in place
#   obj_edit       edit the live object through its API (add / remove a note, replace a part of a
#                  Score / group / list; velocity / channel of a performed note, append / delete one, replace a part)
# Every observation is judged against the CURRENT state only: the direct oracle over the current rows (arrays), or
# over the note array of an object BUILT ANEW from the current description (objects); the arguments must come back
# unchanged; every result still held must keep the value it had (or was given by the caller) whatever is called or
# edited afterwards.


def jcopy(x):
    return json.loads(json.dumps(x))


def dense_of(x):
    import numpy as np

    return np.asarray(x.toarray() if hasattr(x, "toarray") else x)


def build_part(ps, k):
    import partitura.score as S

    part = S.Part("P%d" % k, quarter_duration=ps["qd"])
    part.add(S.TimeSignature(ps["ts"][0], ps["ts"][1]), 0)
    for i, (pitch, a, b) in enumerate(ps["notes"]):
        step, alter = STEPS[pitch % 12]
        part.add(S.Note(step=step, octave=pitch // 12 - 1, alter=alter, voice=1 + i % 2, id="p%dn%d" % (k, i)), a, b)
    if ps.get("bars"):
        # whole bars laid out independently of the notes (the beat map reads the first measure: a history that adds
        # or removes notes must not move the measures, and a part built anew from the description must have the same)
        bar = ps["qd"] * 4 * ps["ts"][0] // ps["ts"][1]
        for i in range(ps["bars"]):
            part.add(S.Measure(number=i + 1), i * bar, (i + 1) * bar)
    else:
        S.add_measures(part)
    return part


def build_ppart(notes, ppq):
    import partitura.performance as P

    return P.PerformedPart([dict(midi_pitch=n[0], note_on=float(fr(n[1])), note_off=float(fr(n[2])), velocity=n[3], channel=n[4], track=n[5])
                            for n in notes], ppq=ppq, mpq=500000)


class Hist:
    def __init__(self, init):
        self.arrs = [jcopy(c) for c in init["arrs"]]
        self.nas = [build_array(c) for c in self.arrs]
        self.cur = 0
        self.spec = jcopy(init.get("obj"))
        self.obj = None
        self.ids = []
        self.fresh = 0
        if self.spec:
            with warnings.catch_warnings():
                warnings.simplefilter("ignore")
                self.obj = build_object(self.spec)[0]
            if "parts" in self.spec:
                self.ids = [["p%dn%d" % (k, i) for i in range(len(ps["notes"]))] for k, ps in enumerate(self.spec["parts"])]
        self.kept = []       # results held by the caller: {"kind": roll / idx / pc, "obj": live, "snap": value it must have}
        self.fail = []       # (op number, text)
        self.log = []        # (op number, what was observed) for the replay
        self.skipped = 0
        self.obs = []        # judged roll observations on OBJECTS (case, got) for the correspondence
        self.events = []     # the history on the arrays as events of the machine Model/C13_Hist.v (Coq terms)
        self.mobj = 0        # number of result objects the machine has created
        self.init_terms = [c_narr(c) for c in self.arrs]

    def live_parts(self):
        ty = self.spec["type"]
        return [self.obj] if ty == "part" else self.obj.parts if ty == "score" else self.obj.children if ty == "partgroup" else self.obj

    def live_pparts(self):
        return [self.obj] if self.spec["type"] == "ppart" else self.obj.performedparts

    def keep(self, kind, obj, m=None):
        import numpy as np

        if obj is None:
            return
        self.kept.append({"kind": kind, "obj": obj, "snap": np.array(dense_of(obj), copy=True), "m": m})
        del self.kept[:-5]

    def check_kept(self, i):
        import numpy as np

        for x in self.kept:
            d = dense_of(x["obj"])
            if d.shape != x["snap"].shape or not np.array_equal(d, x["snap"]):
                self.fail.append((i, "a result returned earlier (%s) changed its value without the caller writing into it" % x["kind"]))
                x["snap"] = np.array(d, copy=True)


def hist_step(h, i, op):
    import numpy as np

    k = op["op"]
    with warnings.catch_warnings():
        warnings.simplefilter("ignore")
        if k in ("roll", "pc"):
            if op.get("src") == "obj":
                if h.obj is None:
                    return
                try:
                    ref = build_object(h.spec)[1]       # built anew from the current description
                except Exception:
                    return
                base = case_of_notearray(ref)
                target = h.obj
                if not base["rows"] or not base["units"]:
                    return
            else:
                base = jcopy(h.arrs[h.cur])       # the rows as they are NOW (the description goes on changing)
                whole = base
                target = h.nas[h.cur]
                if k == "roll" and op.get("view") == "rev":
                    target, base = target[::-1], dict(base, rows=base["rows"][::-1])
                elif k == "roll" and op.get("view") == "step":
                    target, base = target[::2], dict(base, rows=base["rows"][::2])
            o = jcopy(op["opts"])
            if o["time_unit"] != "auto" and o["time_unit"] not in base["units"]:
                o["time_unit"] = "auto"
            case = dict(base, kind=k, opts=o)
            if not float_safe(case if k == "roll" else full_case_of_pc(case)):
                h.skipped += 1
                return
            if k == "roll":
                got, raw, raw_idx = call_roll(target, case)
                why = judge_roll(case, got)
                h.log.append((i, {"call": "compute_pianoroll", "on": op.get("src", "arr"), "current_rows": base["rows"], "got": got}))
                m = None
                if why:
                    h.fail.append((i, why if why.startswith("compute_pianoroll") else "compute_pianoroll: " + why))
                elif got["status"] != "crash" and (not domain_edge(case) or got["status"] == "err"):
                    if op.get("src") == "obj":
                        h.obs.append((case, got))
                    else:      # an event of the machine (a view is another array value for the time of the call)
                        ev = "(ERoll %s %s)" % (c_copts(case), c_obs_roll(got))
                        h.events += ["(ESet %s)" % c_narr(base), ev, "(ESet %s)" % c_narr(whole)] if op.get("view") else [ev]
                        m = h.mobj
                        h.mobj += 1
                h.keep("roll", raw, m)
                h.keep("idx", raw_idx, m)
            else:
                raw = []
                got = run_impl_pc(case, na=target, raw=raw)
                why = judge_pc(case, got)
                h.log.append((i, {"call": "compute_pitch_class_pianoroll", "current_rows": base["rows"], "got": got}))
                m = None
                if why:
                    h.fail.append((i, "compute_pitch_class_pianoroll: " + why))
                elif got["status"] == "err" or (got["status"] == "ok" and spec_pc(case)["status"] == "ok"):
                    h.events.append("(EPc %s %s)" % (c_pcopts(case), c_obs_pc(got)))
                    m = h.mobj
                    h.mobj += 1
                for kind, obj in raw:
                    h.keep(kind, obj, m)
        elif k == "decode":
            rolls = [x for x in h.kept if x["kind"] == "roll"]
            if not rolls:
                return
            x = rolls[op["k"] % len(rolls)]
            d = np.array(dense_of(x["obj"]), copy=True)
            if d.ndim != 2 or d.dtype.kind not in "iub":
                return
            rr, cc = np.nonzero(d)
            dcase = {"kind": "decode", "rows": int(d.shape[0]), "cols": int(d.shape[1]),
                     "cells": sorted([int(r), int(c), int(d[r, c])] for r, c in zip(rr, cc)),
                     "time_div": op["time_div"], "time_unit": op["time_unit"], "time_div_kind": op.get("time_div_kind", "int"),
                     "container": "dense", "dtype": "int64"}
            got = run_impl_decode(dcase, roll=x["obj"])
            why = judge_decode(dcase, got)
            h.log.append((i, {"call": "pianoroll_to_notearray", "roll": dcase, "got": got}))
            if why:
                h.fail.append((i, why))
            if not np.array_equal(dense_of(x["obj"]), d):
                h.fail.append((i, "pianoroll_to_notearray changed the roll it was given"))
                x["snap"] = np.array(dense_of(x["obj"]), copy=True)
        elif k == "set":
            c, na = h.arrs[h.cur], h.nas[h.cur]
            r = op["row"] % len(c["rows"])
            f, v = op["field"], op["value"]
            if f == "pitch":
                na["pitch"][r] = v
                c["rows"][r]["pitch"] = v
            elif f == "vel" and c["has_vel"]:
                na["velocity"][r] = v
                c["rows"][r]["vel"] = v
            elif f == "chan" and c["has_chan"]:
                na["channel"][r] = v
                c["rows"][r]["chan"] = v
            elif f in ("on", "du"):
                ui = op["unit"] % len(c["units"])
                u = c["units"][ui]
                val = F(v) if u in INT_UNITS else F(v, 16)
                name = ("onset_" if f == "on" else "duration_") + u
                na[name][r] = int(val) if u in INT_UNITS else float(val)
                assert F(float(na[name][r])) == val
                c["rows"][r]["t"][ui][0 if f == "on" else 1] = frs(val)
            h.events.append("(ESet %s)" % c_narr(c))
        elif k == "reverse":
            c, na = h.arrs[h.cur], h.nas[h.cur]
            na[:] = na[::-1].copy()
            c["rows"].reverse()
            h.events.append("(ESet %s)" % c_narr(c))
        elif k == "switch":
            if len(h.arrs) > 1:
                h.cur = (h.cur + 1) % len(h.arrs)
                h.events.append("ESwitch")
        elif k == "replace":
            h.arrs[h.cur] = jcopy(op["case"])
            h.nas[h.cur] = build_array(h.arrs[h.cur])
            h.events.append("(ESet %s)" % c_narr(h.arrs[h.cur]))
        elif k == "write":
            if not h.kept:
                return
            x = h.kept[op["k"] % len(h.kept)]
            obj = x["obj"]
            try:
                if x["kind"] == "roll":
                    d = dense_of(obj)
                    if d.shape[0] and d.shape[1]:
                        obj[op["a"] % d.shape[0], op["b"] % d.shape[1]] = op["v"]
                        if hasattr(obj, "data") and len(obj.data) and op["v"] % 2:
                            obj.data[:] = op["v"]
                elif x["kind"] == "idx":
                    obj[:] = -op["v"]
                else:
                    obj[...] = 0.5
            except Exception:
                pass          # not writable: nothing written
            x["snap"] = np.array(dense_of(obj), copy=True)
            if x.get("m") is not None:
                h.events.append("(EWrite %d)" % x["m"])
        elif k == "obj_edit":
            if h.obj is None:
                return
            hist_obj_edit(h, op)
    h.check_kept(i)


def hist_obj_edit(h, op):
    import partitura.score as S
    import partitura.performance as P

    spec, what = h.spec, op["what"]
    if "parts" in spec:
        pi = op["part"] % len(spec["parts"])
        ps = spec["parts"][pi]
        live = h.live_parts()
        if what == "add_note":
            pitch, a, b = op["note"]
            step, alter = STEPS[pitch % 12]
            h.fresh += 1
            nid = "h%d" % h.fresh
            live[pi].add(S.Note(step=step, octave=pitch // 12 - 1, alter=alter, voice=1, id=nid), a, b)
            ps["notes"].append([pitch, a, b])
            h.ids[pi].append(nid)
        elif what == "remove_note" and len(ps["notes"]) > 1:
            j = op["j"] % len(ps["notes"])
            nid = h.ids[pi].pop(j)
            ps["notes"].pop(j)
            note = next(n for n in live[pi].iter_all(S.Note) if n.id == nid)
            live[pi].remove(note)
        elif what == "replace_part":
            new = build_part(op["newpart"], pi)
            ty = spec["type"]
            if ty == "part":
                h.obj = new
            elif ty == "partgroup":
                h.obj.children[pi] = new
            else:                      # Score.__setitem__ / list item
                h.obj[pi] = new
            spec["parts"][pi] = jcopy(op["newpart"])
            h.ids[pi] = ["p%dn%d" % (pi, i) for i in range(len(op["newpart"]["notes"]))]
    elif "pparts" in spec:
        pi = op["part"] % len(spec["pparts"])
        notes = spec["pparts"][pi]
        live = h.live_pparts()[pi]
        j = op.get("j", 0) % len(notes)
        if what == "vel":
            live.notes[j]["velocity"] = op["v"]
            notes[j][3] = op["v"]
        elif what == "chan":
            live.notes[j]["channel"] = op["v"]
            notes[j][4] = op["v"]
        elif what == "add_pnote":
            n = op["note"]
            h.fresh += 1
            live.notes.append(P.PerformedNote(dict(id="h%d" % h.fresh, midi_pitch=n[0], note_on=float(fr(n[1])), note_off=float(fr(n[2])),
                                                   velocity=n[3], channel=n[4], track=n[5])))
            notes.append(list(n))
        elif what == "del_pnote" and len(notes) > 1:
            del live.notes[j]
            notes.pop(j)
        elif what == "replace_ppart" and spec["type"] == "performance":
            h.obj[pi] = build_ppart(op["notes"], spec.get("ppq", 480))
            spec["pparts"][pi] = jcopy(op["notes"])


def run_history(init, ops):
    h = Hist(init)
    for i, op in enumerate(ops):
        try:
            hist_step(h, i, op)
        except Exception as e:     # the harness' own operations must not fail; an exception inside a call is caught there
            h.fail.append((i, "operation %s raised %s: %s" % (op.get("op"), type(e).__name__, str(e)[:200])))
    return h


def gen_array_state(rng, like=None):
    """an array case without options; like: another one whose layout, units and row count it shares (what a cache
    keyed by too little cannot tell apart)."""
    if like is None:
        nunits = rng.choice([1, 1, 2, 2, 3])
        units = rng.sample(UNITS, nunits)
        lay = gen_layout(rng, len(units))
        c = {"units": units, "has_vel": rng.random() < 0.7, "has_chan": rng.random() < 0.4,
             "rows": gen_rows(rng, units, n=rng.choice([1, 2, 2, 3, 4, 5, 6]), small=True)}
        if lay:
            c["layout"] = lay
            narrow_int_columns(rng, c)
    else:
        c = jcopy(like)
        c["rows"] = gen_rows(rng, c["units"], n=len(like["rows"]), small=True)
        if (c.get("layout") or {}).get("tint"):      # the other array's integer width, if these values fit it too
            vals = [int(fr(x)) for r in c["rows"] for k, u in enumerate(c["units"]) if u in INT_UNITS for x in r["t"][k]]
            lo, hi = {"i1": (-128, 127), "u1": (0, 255), "i2": (-2 ** 15, 2 ** 15 - 1), "u2": (0, 2 ** 16 - 1), "i8": (-2 ** 62, 2 ** 62)}[c["layout"]["tint"]]
            if min(vals) < lo or max(vals) > hi:
                del c["layout"]["tint"]
    if rng.random() < 0.5:      # all-integer time columns: onsets and durations whole numbers in every unit column
        for r in c["rows"]:
            r["t"] = [[frs(F(math.floor(fr(a)))), frs(F(math.ceil(fr(b))))] for a, b in r["t"]]
    return c


def gen_obj_part(rng, pool):
    qd = rng.choice([1, 2, 4, 4, 8])
    notes = []
    for _ in range(rng.randint(1, 5)):
        a = rng.randint(0, 6 * qd)
        notes.append([rng.choice(pool), a, a + rng.randint(1, 3 * qd)])
    return {"qd": qd, "ts": rng.choice([[4, 4], [4, 4], [3, 4], [2, 2], [6, 8]]), "notes": notes, "bars": 6}


def gen_pnote(rng, pool):
    a = F(rng.randint(0, 40), 16)
    return [rng.choice(pool), frs(a), frs(a + F(rng.randint(1, 24), 16)), rng.randint(1, 127), rng.choice([0, 0, 1, 9, 9, 10]), rng.choice([0, 1, 9])]


def gen_history(rng, nops):
    """(init, ops).  Generated against the description of the state only (never against what the implementation
    returned), so that the same seed gives the same histories for every tree under test."""
    A = gen_array_state(rng)
    arrs = [A]
    if rng.random() < 0.7:
        arrs.append(gen_array_state(rng, like=A if rng.random() < 0.7 else None))
    init = {"arrs": arrs}
    pool = [rng.randint(21, 108) for _ in range(3)] + [rng.choice([0, 20, 21, 108, 109, 127])]
    if rng.random() < 0.45:
        ty = rng.choice(["part", "score", "score", "partgroup", "partlist", "ppart", "performance"])
        if ty in ("ppart", "performance"):
            init["obj"] = {"type": ty, "ppq": rng.choice([2, 4, 8]),
                           "pparts": [[gen_pnote(rng, pool) for _ in range(rng.randint(1, 5))] for _ in range(1 if ty == "ppart" else rng.randint(1, 2))]}
        else:
            init["obj"] = {"type": ty, "parts": [gen_obj_part(rng, pool) for _ in range(1 if ty == "part" else rng.randint(1, 3))]}
    # the description of the state, advanced as the operations are drawn
    st = Hist.__new__(Hist)
    st.arrs, st.cur, st.spec = [jcopy(c) for c in arrs], 0, jcopy(init.get("obj"))
    ops, used = [], {"arr": [], "obj": [], "pc": []}
    for _ in range(nops):
        x = rng.random()
        has_obj = st.spec is not None
        cur = st.arrs[st.cur]
        # with an object: the first operation is mostly a call on it, an edit of it is mostly followed by a call on it,
        # and a quarter of the other operations are edits of it
        after_edit = bool(ops) and ops[-1]["op"] == "obj_edit"
        force_obj = has_obj and ((not ops and rng.random() < 0.6) or (after_edit and rng.random() < 0.75))
        if has_obj and not force_obj and rng.random() < 0.25:
            x = 0.99
        if force_obj:
            x = 0.0
        if x < 0.36:
            src = "obj" if force_obj or (has_obj and rng.random() < 0.4) else "arr"
            if used[src] and rng.random() < 0.55:
                o = jcopy(rng.choice(used[src]))          # the very options of an earlier call
            else:
                if src == "obj":
                    try:
                        with warnings.catch_warnings():
                            warnings.simplefilter("ignore")
                            base = case_of_notearray(build_object(st.spec)[1])
                    except Exception:
                        continue
                    if not base["rows"] or not base["units"]:
                        continue
                else:
                    base = cur
                case = dict(base, opts=gen_opts(rng, base["units"]))
                if selected(case)[0] in INT_UNITS and case["opts"]["time_div"] != "auto":
                    case["opts"]["time_div"] = rng.choice([1, 1, 2, 4])
                if src == "obj":
                    case["opts"]["return_idxs"] = False      # the order of the rows of an object's note array is not the roll's business
                case["opts"]["end_time"] = choose_end_time(rng, case)
                add_kinds(rng, case)
                o = case["opts"]
                used[src].append(o)
            op = {"op": "roll", "src": src, "opts": o}
            if src == "arr" and rng.random() < 0.12:
                op["view"] = rng.choice(["rev", "step"])
            ops.append(op)
        elif x < 0.44:
            if used["pc"] and rng.random() < 0.5:
                o = jcopy(rng.choice(used["pc"]))
            else:
                go = gen_opts(rng, cur["units"])
                o = {k: go[k] for k in ("time_unit", "onset_only", "note_separation", "time_margin", "return_idxs", "remove_silence", "binary")}
                o["time_div"] = rng.choice(["auto", 1, 2, 4])
                o["normalize"] = rng.random() < 0.6
                o["end_time"] = None
                o["end_time"] = choose_end_time(rng, full_case_of_pc(dict(cur, opts=o)))
                used["pc"].append(o)
            ops.append({"op": "pc", "opts": o})
        elif x < 0.52:
            ops.append({"op": "decode", "k": rng.randrange(8), "time_div": rng.choice([1, 2, 4, 8, 8, 16, 3]), "time_unit": rng.choice(["sec", "beat", "quarter", "div"]),
                        "time_div_kind": rng.choice(["int", "int", "np", "np8", "npu8"])})
        elif x < 0.72:
            f = rng.choice(["pitch", "pitch", "vel", "vel", "chan", "on", "on", "du", "du"])
            v = {"pitch": rng.choice([rng.randint(21, 108), 20, 21, 108, 109, 0, 127]), "vel": rng.randint(1, 127), "chan": rng.choice([0, 9, 9, 10]),
                 "on": rng.randint(0, 24), "du": rng.choice([0, 1, 2, 3, 5, 8, 16])}[f]
            op = {"op": "set", "row": rng.randrange(8), "field": f, "value": v, "unit": rng.randrange(3)}
            ops.append(op)
            r = op["row"] % len(cur["rows"])      # keep the description in step
            if f == "pitch":
                cur["rows"][r]["pitch"] = v
            elif f == "vel" and cur["has_vel"]:
                cur["rows"][r]["vel"] = v
            elif f == "chan" and cur["has_chan"]:
                cur["rows"][r]["chan"] = v
            elif f in ("on", "du"):
                ui = op["unit"] % len(cur["units"])
                cur["rows"][r]["t"][ui][0 if f == "on" else 1] = frs(F(v) if cur["units"][ui] in INT_UNITS else F(v, 16))
        elif x < 0.75:
            ops.append({"op": "reverse"})
            cur["rows"].reverse()
        elif x < 0.84:
            if len(st.arrs) > 1:
                ops.append({"op": "switch"})
                st.cur = (st.cur + 1) % len(st.arrs)
        elif x < 0.87:
            new = gen_array_state(rng, like=cur if rng.random() < 0.6 else None)
            ops.append({"op": "replace", "case": new})
            st.arrs[st.cur] = jcopy(new)
        elif x < 0.94 or not has_obj:
            ops.append({"op": "write", "k": rng.randrange(8), "a": rng.randrange(128), "b": rng.randrange(64), "v": rng.randint(1, 120)})
        else:
            if "parts" in st.spec:
                what = rng.choice(["add_note", "add_note", "remove_note", "remove_note", "replace_part", "replace_part"])
                op = {"op": "obj_edit", "what": what, "part": rng.randrange(3)}
                pi = op["part"] % len(st.spec["parts"])
                ps = st.spec["parts"][pi]
                if what == "add_note":
                    a = rng.randint(0, 6 * ps["qd"])
                    op["note"] = [rng.choice(pool), a, a + rng.randint(1, 3 * ps["qd"])]
                    ps["notes"].append(op["note"])
                elif what == "remove_note":
                    op["j"] = rng.randrange(8)
                    if len(ps["notes"]) > 1:
                        ps["notes"].pop(op["j"] % len(ps["notes"]))
                else:
                    op["newpart"] = gen_obj_part(rng, pool)
                    st.spec["parts"][pi] = jcopy(op["newpart"])
            else:
                what = rng.choice(["vel", "chan", "chan", "add_pnote", "del_pnote", "replace_ppart"])
                op = {"op": "obj_edit", "what": what, "part": rng.randrange(2), "j": rng.randrange(8)}
                pi = op["part"] % len(st.spec["pparts"])
                notes = st.spec["pparts"][pi]
                j = op["j"] % len(notes)
                if what == "vel":
                    op["v"] = rng.randint(1, 127)
                    notes[j][3] = op["v"]
                elif what == "chan":
                    op["v"] = rng.choice([0, 9, 9, 10])
                    notes[j][4] = op["v"]
                elif what == "add_pnote":
                    op["note"] = gen_pnote(rng, pool)
                    notes.append(list(op["note"]))
                elif what == "del_pnote":
                    if len(notes) > 1:
                        notes.pop(j)
                elif st.spec["type"] == "performance":
                    op["notes"] = [gen_pnote(rng, pool) for _ in range(rng.randint(1, 4))]
                    st.spec["pparts"][pi] = jcopy(op["notes"])
            ops.append(op)
    return init, ops


def run_history_stream(ctx, n, nops):
    t0 = time.time()
    terms, kept, hterms, hkept = [], [], [], []
    nviol = nev = 0
    for _ in range(n):
        init, ops = gen_history(ctx.rng, ctx.rng.randint(*nops))
        h = run_history(init, ops)
        ctx.evaluations += len(h.log)
        ctx.count("history:histories")
        ctx.count("history:observations", len(h.log))
        ctx.count("history:near_tie_skipped", h.skipped)
        for op in ops:
            ctx.count("history:op_" + op["op"] + ("_" + op["what"] if op["op"] == "obj_edit" else "") + ("_obj" if op.get("src") == "obj" else ""))
        if init.get("obj"):
            ctx.count("history:with_" + init["obj"]["type"])
        if len(init["arrs"]) > 1:
            ctx.count("history:two_arrays")
        if h.fail:
            nviol += 1
            if nviol <= 3:
                small = core.ddmin(ops, lambda sub: bool(run_history(init, sub).fail))
                hs = run_history(init, small)
                i, text = (hs.fail or h.fail)[0]
                ctx.violation("history (state carried between calls), operation %d of %d: %s" % (i + 1, len(small), text),
                              {"case": {"kind": "history", "init": init, "ops": small}, "failures": [list(f) for f in hs.fail[:5]]})
            continue
        if len(h.log) > 1:
            ctx.nontrivial(json.dumps([init, ops], sort_keys=True))
        for case, got in h.obs:
            terms.append(c_roll_case(case, got))
            kept.append((init, ops, case, got))
        if h.events:
            hterms.append("((%s, %s, %s) : narr * narr * list hev)" % (h.init_terms[0], h.init_terms[-1], clist(h.events)))
            hkept.append((init, ops))
            nev += sum(1 for e in h.events if e.startswith("(ERoll") or e.startswith("(EPc"))
    ctx.log("stream history: %d histories, %.1fs" % (n, time.time() - t0))
    hfail = coq_failing_or_empty(ctx, "history_machine", hterms, "check_history", 60,
                                 imports="From PV Require Import Model.C13 Model.C13_Hist.")
    if WITH_COQ and hfail is not None:
        ctx.obligation("correspondence: the state machine Model.C13_Hist (theorem history_observes_current_state: every observation = the "
                       "function's value on the array as it is at that moment) run along %d observed histories on note arrays (in-place "
                       "edits, two arrays, repeated options, views, the caller's writes into results) reproduces all %d observations of "
                       "compute_pianoroll / compute_pitch_class_pianoroll" % (len(hterms), nev), not hfail, hfail[:5])
        for i in hfail[:3]:
            ctx.violation("model (history machine) and implementation disagree on a history of calls and edits",
                          {"case": {"kind": "history", "init": hkept[i][0], "ops": hkept[i][1]}})
    if kept:
        ctx.sample({"history": {"init": kept[0][0], "ops": kept[0][1]}}, limit=7)
    failing = coq_failing_or_empty(ctx, "history", terms, "check_pianoroll", 300)
    if not WITH_COQ or failing is None:
        return
    ctx.obligation("correspondence: every compute_pianoroll observation on a score / performance OBJECT inside a history (calls interleaved "
                   "with edits through the object's API: notes added / removed, parts replaced in a Score / group / list / Performance, "
                   "velocity / channel changed) = Model.C13.compute_pianoroll of the note array of the object built ANEW from its current "
                   "description, %d observations" % len(terms), not failing, failing[:5])
    for i in failing[:5]:
        ctx.violation("model and implementation disagree on an observation inside a history", {"case": kept[i][2], "got": kept[i][3],
                                                                                                 "history": {"init": kept[i][0], "ops": kept[i][1]}})


# ----------------------------------------------------------------------------


def run(ctx):
    ctx.rule = ("cases = (structured note array, keyword options) drawn from VERIF_SEED: 1-12 rows in random (mostly non-onset) order "
                "(12 % onset-descending, 5 % sorted), 1-3 time-unit column pairs with independent values (unit inference), optional "
                "velocity (60 %) / channel (35 %, channel 9 weighted, sometimes all drums) columns, pitch pools forcing collisions and the "
                "piano-range borders (20, 21, 108, 109, 120-127), grid onsets k/16 incl. negative ones against time_div in {1,2,4,8,16} "
                "(exact half-frame ties), 15 % zero-length notes, 12 % off-grid float32 values, time_div in {3,5,10,12} and 'auto'; every "
                "boolean option, pitch_margin, time_margin, end_time early / exact / late; ~3 % arrays outside the statement (negative "
                "duration, pitch outside the roll, no note left: a refusal OR the literal reading is accepted, counted as "
                "outside_statement_*); plus the complete 2^7 x 3 x 3 x 2 option grid on fixed arrays; pitch-class cases (octave-related "
                "pitches, rows 120-127, normalize x binary); random integer rolls 128 x n / 88 x n (dense, csc, csr; touching runs of equal "
                "and different value, negative values) for the inverse, judged as a multiset of (pitch, onset, duration, velocity); "
                "grid-aligned non-touching round trips (half of them re-strike a pitch, mostly with exactly one empty frame between; with and "
                "without remove_silence, early/late/negative start).  Non-trivial = accepted case with rows out of onset order, a collision, "
                "a half-frame tie or a zero-length note (roll); two notes sharing a pitch class (pc); more than one non-zero cell (decode); "
                "more than one note (round trip).  Distinct by the canonical JSON of the case.  Second hardening round: channels 8/10/15 "
                "next to the drum channel 9; 6 % arrays of 17-40 rows (unstable argsort, onset ties); 40 % varied layout (field order "
                "shuffled, f8 time columns with off-grid 53-bit values, i8/i2 pitch, i8/u1/f4 velocity, extra fields voice/staff/track); "
                "time_div as numpy integer; Part / Score / PartGroup / list of Parts / PerformedPart / Performance OBJECTS handed to "
                "compute_pianoroll and judged against the object's own note_array(); round trips with time margins, drum rows laid over the "
                "notes, several unit columns, no velocity field, resolution 'auto'.  Round 1b (state carried between calls): HISTORIES "
                "of 5-10 operations in one process on live objects -- one or two note arrays of the same layout and row count (half of them "
                "with whole-number times in every column), sometimes a Part / Score / PartGroup / list / PerformedPart / Performance: "
                "calls of compute_pianoroll and compute_pitch_class_pianoroll (55 % with the very options of an earlier call; on reversed / "
                "strided views), pianoroll_to_notearray on results still held, in-place edits of one value or of the row order, a switch to "
                "the other array, a new array object, the caller's writes into returned rolls / index rows / pitch-class rolls, edits of "
                "the object through its API (notes added / removed, a part of a Score / group / list / Performance replaced, velocity / "
                "channel changed); every observation judged against the CURRENT state only (oracle over the current rows; for objects the "
                "note array of an object built anew from the current description), arguments must come back unchanged (note array bytes, a "
                "0-d end_time array, the roll handed to the decoder), results held must keep their value; non-trivial = a history with more "
                "than one observation.  Kinds of number: end_time as Python float / int, numpy float64 / float32 / int64, 0-d float / integer "
                "array; margins and booleans as numpy scalars; time_div as int8 / uint8 / int32 / int64; integer unit columns of width "
                "i1 / u1 / i2 / u2 / i8 (with pitch and velocity columns of the same width: an all-int8 / all-uint8 array).")
    ctx.trusted = ["Coq 8.16.1 kernel incl. vm_compute",
                   "harness/props/c13.py: array builder, run-length coding of toarray(), Coq term printers",
                   "Model.C13 / Model.C13_Api boolean checkers check_pianoroll / check_pianoroll_asm / check_pc / check_decode / check_decode_runs (Model.C13_Runs) / check_roundtrip / "
                   "check_roundtrip_api (dense comparison by runs; note lists up to order)",
                   "object stream: the reference note array of a Part / Score / PerformedPart / Performance is the object's own note_array() "
                   "(note_array_from_part_list for a group or a list of parts)",
                   "history stream: the operation runner hist_step (in-place edits mirrored in the description of the state), Model.C13_Hist "
                   "check_history / check_events",
                   "numpy/scipy toarray() and float32/float64 representation of dyadic rationals"]
    ctx.assumptions = ["time values are fed to the model as the exact rationals the float columns hold; cases where a float product is inexact and "
                       "the exact value is within 2^-30 of a rounding/comparison boundary are counted (near_tie_skipped) and not compared",
                       "pitch-class values are float64; each is mapped to the unique fraction with denominator <= 10^6 within 1e-12",
                       "note-array onsets/durations returned by pianoroll_to_notearray are read as k/time_div within 2^-20 relative",
                       "observables compared are those the statement names: shape, cell values (any container / numeric dtype), index rows "
                       "(row, onset, offset; the pitch column when supplied), pitch-class values, the multiset of decoded (pitch, onset, duration, "
                       "velocity); not compared: sparse format, dtype, exception class, field order, ids, row order of the decoded array",
                       "pitches and velocities are Python/numpy integers, velocities 1..127 (i4 overflow and velocity 0 out of scope)"]
    global WITH_COQ
    ok, why = ctx.coq_props(expect_min=64)
    WITH_COQ = bool(ok)
    quick = ctx.tier == "quick"
    rng = ctx.rng
    # corpus / fixed arrays first: the full option grid
    grid_cases = []
    for i, rc in enumerate(FIXED_ROWS if not quick else FIXED_ROWS[:1]):
        grid_cases += exhaustive_option_cases(rc, [8, 1, 4][i])
    ctx.count("roll:option_grid_cases", len(grid_cases))
    run_roll_stream(ctx, grid_cases, "grid", with_coq=ok)
    n = 1200 if quick else 20000
    cases = [gen_roll_case(rng) for _ in range(n)]
    run_roll_stream(ctx, cases, "roll", with_coq=ok, checker="check_pianoroll_asm")
    # margins that are a fraction of a time unit but a whole number of frames (seed l: `int(time_margin) * time_div`).
    # Derived from the cases above (the random stream of the later streams is unchanged); oracle only: the Gallina
    # model's margin is an integer number of time units.
    fcases = []
    for i, c in enumerate(cases):
        td = c["opts"]["time_div"]
        if td == "auto" or td % 2 or len(fcases) >= (150 if quick else 2500):
            continue
        c2 = jcopy(c)
        den = 4 if td % 4 == 0 and i % 2 else 2
        c2["opts"]["margin_frac"] = [(1, 3)[i % 3 == 0] if den == 4 else 1, den]
        fcases.append(c2)
    ctx.count("roll:fractional_margin_cases", len(fcases))
    run_roll_stream(ctx, fcases, "frac_margin", with_coq=False)
    # score-like and performance-like objects in front of the same function
    ocases = [c for c in (gen_object_case(rng) for _ in range(120 if quick else 1500)) if c]
    run_roll_stream(ctx, ocases, "objects", with_coq=ok)
    t0 = time.time()
    run_pc_stream(ctx, 250 if quick else 3000)
    ctx.log("pitch-class stream %.1fs" % (time.time() - t0))
    t0 = time.time()
    run_decode_stream(ctx, 400 if quick else 6000, 300 if quick else 3600)
    ctx.log("decode + round-trip streams %.1fs" % (time.time() - t0))
    t0 = time.time()
    run_runs_stream(ctx, 250 if quick else 4000)
    ctx.log("maximal-runs stream %.1fs" % (time.time() - t0))
    run_history_stream(ctx, 220 if quick else 3000, (5, 10) if quick else (5, 16))
    if not ok and not ctx.violations:
        ctx.violation("proof obligations of Props/C13.v no longer check: " + why, {"theorem_or_build": why}, no_input=True)
    ctx.extra["exhaustive"] = False
    ctx.extra["exhaustive_note"] = ("the option grid (2^7 booleans x pitch_margin {-1,0,2} x time_margin {0,1,2} x end_time None/given) is "
                                    "enumerated completely on fixed arrays; note arrays are sampled")


def replay(obj):
    r = obj.get("replay", obj)
    case = r.get("case")
    print(json.dumps(obj, indent=1, default=str)[:6000])
    if not case:
        return 0
    kind = case.get("kind", "roll")
    if kind == "roll":
        got = run_impl_roll(case)
        sp = spec_roll(case)
        if sp["status"] == "ok":
            sp = dict(sp, cells=sorted([list(k) + [v] for k, v in sp["cells"].items()]))
        print("implementation:", json.dumps(got)[:3000])
        print("expected      :", json.dumps(sp)[:3000])
        print("verdict       :", judge_roll(case, got) or "agrees with the property")
    elif kind == "pc":
        got = run_impl_pc(case)
        print("implementation:", json.dumps(got)[:3000])
        print("verdict       :", judge_pc(case, got) or "agrees with the property")
    elif kind == "decode":
        got = run_impl_decode(case)
        print("implementation:", json.dumps(got)[:3000])
        print("expected      :", json.dumps(spec_decode(case))[:3000])
        print("verdict       :", judge_decode(case, got) or "agrees with the property")
    elif kind == "roundtrip":
        got = run_impl_roundtrip(case)
        print("implementation:", json.dumps(got)[:3000])
        print("verdict       :", judge_roundtrip(case, got) or "agrees with the property")
    elif kind == "history":
        h = run_history(case["init"], case["ops"])
        seen = dict()
        for i, ob in h.log:
            seen.setdefault(i, []).append(ob)
        bad = dict()
        for i, t in h.fail:
            bad.setdefault(i, []).append(t)
        for i, op in enumerate(case["ops"]):
            print("op %d: %s" % (i + 1, json.dumps(op)[:600]))
            for ob in seen.get(i, []):
                print("     observed:", json.dumps(ob)[:1500])
            for t in bad.get(i, []):
                print("     WRONG   :", t)
        print("verdict       :", ("%d observation(s) not what the current state requires" % len(h.fail)) if h.fail else "agrees with the property")
    return 0
