"""C19 -- MEI and Humdrum **kern files load to the notes their notation denotes.

Abstract documents (parts x staves x layers x measures x events) are generated from
``ctx.rng``, written to MEI XML / **kern text by the INDEPENDENT writers of this module
(not partitura's exporters), loaded with load_score / load_mei / load_kern, and the loaded
score is compared
  (a) with a Python transcription of the notation's denotation (direct oracle), and
  (b) with the Coq model Model/C19.v evaluated on the same abstract document
      (ctx.coq_failing), together with the code-side formulas (MEI tick duration, inferred
      ppq, kern reciprocal durations, kern pitch letters).
Export direction: parts built from abstract documents -> save_mei / save_kern -> reload.
Re-export direction: document -> load_score -> save_mei / save_kern of every loaded part -> reload.
Further streams evaluated in Coq: the MEI traversal in ticks (Model/C19_mei.v), the kern timeline placement with the
shared line table (Model/C19_kern.v part 3), single kern tokens probed through load_kern and tokens written by
save_kern (Model/C19_kern.v parts 1, 2), dispatch by extension on generated file names (Model/C19_disp.v), MEI attribute
probes on single notes / chord members and on probe layers (Model/C19_attr.v; tables reflected into Gen/C19_tables.v by gen()).
"""
import json
import math
import os
import random
from fractions import Fraction

import core
from core import cz, cq, cbool, clist, ctuple

F = Fraction
STEPS = ["C", "D", "E", "F", "G", "A", "B"]
BASE_PC = {"C": 0, "D": 2, "E": 4, "F": 5, "G": 7, "A": 9, "B": 11}
TUPLETS = [(3, 2), (5, 4), (6, 4), (7, 4)]
KIND_CODE = {"n": 0, "c": 1, "r": 2, "m": 3, "s": 4}

# --------------------------------------------------------------------------
# denotation (direct oracle): what the notation means, in quarter notes


def den_dur(v, d, t):
    """value v (1 = whole .. 64 = 64th), d dots, t = (num, numbase) or None."""
    q = F(4, v) * (2 - F(1, 2 ** d))
    if t:
        q = q * F(t[1], t[0])
    return q


def flat(nodes, t=None):
    """Layer content tree -> flat event list, each with its tuplet ratio."""
    out = []
    for nd in nodes:
        if "beam" in nd:
            out += flat(nd["beam"], t)
        elif "tuplet" in nd:
            out += flat(nd["items"], tuple(nd["tuplet"]))
        else:
            e = dict(nd)
            e["t"] = t
            out.append(e)
    return out


def ev_dur(e, meter):
    if e.get("g"):
        return F(0)
    if e["k"] == "m":
        return F(4 * meter[0], meter[1])
    return den_dur(e["v"], e.get("d", 0), e.get("t"))


def midi(p):
    return 12 * (p[2] + 1) + BASE_PC[p[0]] + (p[1] or 0)


def denote(doc):
    """Returns dict: staves -> list (one per staff) of layers -> list of events
    {onset, dur, kind, pitches, grace, tie, measure}; measures -> list of starts;
    sigs -> meter/key changes [(time, value)]."""
    nst = len(doc["staves"])
    meter = tuple(doc["meter"])
    key = tuple(doc["key"])
    pos = F(0)
    lay = [[[] for _ in range(2)] for _ in range(nst)]
    mstarts = []
    mends = []
    meters = [(F(0), meter)]
    keys = [(F(0), key)]
    clefs_ = [[(F(0), tuple(st_["clef"]))] for st_ in doc["staves"]]
    for mi, m in enumerate(doc["measures"]):
        if m.get("meter"):
            meter = tuple(m["meter"])
            meters.append((pos, meter))
        if m.get("key"):
            key = tuple(m["key"])
            keys.append((pos, key))
        for c_ in m.get("clefs", []):
            clefs_[c_[0]].append((pos, (c_[1], c_[2])))
        mstarts.append(pos)
        end = pos
        sends = []
        for si in range(nst):
            send = pos
            for li, layer in enumerate(m["content"][si]):
                t = pos
                for e in flat(layer):
                    d = ev_dur(e, meter)
                    if e["k"] != "s":
                        lay[si][li].append({"onset": t, "dur": d, "k": e["k"], "p": e.get("p", []),
                                            "g": bool(e.get("g")), "tie": bool(e.get("tie")), "m": mi})
                    t += d
                send = max(send, t)
            sends.append(send)
            end = max(end, send)
        mends.append(sends)
        pos = end
    return {"layers": lay, "mstarts": mstarts, "mends": mends, "meters": meters, "keys": keys, "clefs": clefs_, "end": pos}


def joined(events):
    """Tie chains within one layer: list of (onset, total duration, pitches) for chain heads
    and untied notes (grace notes and rests excluded from chains)."""
    out = []
    cur = None
    for e in events:
        if e["k"] not in ("n", "c") or e["g"]:
            continue
        if cur is not None:
            cur[1] += e["dur"]
            if not e["tie"]:
                out.append(tuple(cur))
                cur = None
            continue
        if e["tie"]:
            cur = [e["onset"], e["dur"], e["p"]]
        else:
            out.append((e["onset"], e["dur"], e["p"]))
    if cur is not None:
        out.append(tuple(cur))
    return out


# --------------------------------------------------------------------------
# generator

DEFAULT_W = {
    "tuplet": 0.25, "dots": 0.3, "chord": 0.2, "rest": 0.15, "tie": 0.15, "grace": 0.06, "beam": 0.3,
    "mrest": 0.1, "space": 0.08, "two_layers": 0.35, "meter_change": 0.15, "key_change": 0.15,
    "repeat": 0.15, "ending": 0.1, "pickup": 0.15, "short_layer": 0.1, "small": 0.35, "inner_dots": 0.3,
    "alter": 0.4, "explicit_natural": 0.15, "kern_chord_tie": 0.02, "clef_change": 0.06, "inner_section": 0.25, "sb": 0.15, "mid_split": 0.35,
}
METERS = [(4, 4), (3, 4), (2, 4), (6, 8), (3, 8), (2, 2), (5, 4), (5, 8), (9, 8), (3, 2), (7, 8), (3, 16), (12, 8)]


def rand_pitch(rng, w, lo=1, hi=7):
    step = rng.choice(STEPS)
    octv = rng.choice([2, 3, 3, 4, 4, 4, 5, 5, 6]) if rng.random() < 0.9 else rng.randint(lo, hi)
    if rng.random() < w["alter"]:
        alter = rng.choice([-2, -1, -1, 1, 1, 2])
    elif rng.random() < w["explicit_natural"]:
        alter = 0
    else:
        alter = None
    return [step, alter, octv]


def rand_pitches(rng, w, n):
    ps = {}
    while len(ps) < n:
        p = rand_pitch(rng, w)
        # chord members: distinct sounding pitches so that sorting by pitch is a canonical order
        ps.setdefault(midi(p), p)
    return [ps[k] for k in sorted(ps)]


def plain_candidates(rem, w, rng):
    out = []
    for v in (1, 2, 4, 8, 16, 32, 64):
        for d in (0, 1, 2):
            q = den_dur(v, d, None)
            if q <= rem:
                out.append((v, d, q))
    return out


def gen_sound(rng, w, v, d, fmt, allow_chord=True):
    """One sounding or resting event of the given value."""
    r = rng.random()
    if r < w["rest"]:
        return {"k": "r", "v": v, "d": d}
    if fmt == "mei" and r < w["rest"] + w["space"]:
        return {"k": "s", "v": v, "d": d}
    if allow_chord and rng.random() < w["chord"]:
        return {"k": "c", "v": v, "d": d, "p": rand_pitches(rng, w, rng.randint(2, 4))}
    return {"k": "n", "v": v, "d": d, "p": [rand_pitch(rng, w)]}


def gen_tuplet(rng, w, num, base, v, fmt):
    """`num` slots of value v in the time of `base`; slots may be merged (value v/2), or
    split dotted (v dotted + 2v), exercising dotted values under a tuplet ratio."""
    items = []
    slots = num
    while slots > 0:
        r = rng.random()
        if slots >= 2 and v >= 2 and r < 0.2:
            items.append(gen_sound(rng, w, v // 2, 0, fmt))
            slots -= 2
        elif slots >= 2 and v <= 32 and r < 0.2 + w["inner_dots"] * 0.5:
            a, b = gen_sound(rng, w, v, 1, fmt), gen_sound(rng, w, v * 2, 0, fmt)
            items += [a, b] if rng.random() < 0.5 else [b, a]
            slots -= 2
        elif v <= 32 and r > 0.9:
            items += [gen_sound(rng, w, v * 2, 0, fmt), gen_sound(rng, w, v * 2, 0, fmt)]
            slots -= 1
        else:
            items.append(gen_sound(rng, w, v, 0, fmt))
            slots -= 1
    return {"tuplet": [num, base], "items": items}


def kern_recip_ok(v, t):
    """kern writes a tuplet value as the reciprocal integer v*num/numbase (12 = triplet eighth)."""
    return t is None or (v * t[0]) % t[1] == 0


def fill_layer(rng, w, length, fmt, meter):
    """Random layer content of exactly `length` quarters."""
    nodes = []
    rem = F(length)
    unit = F(1, 64)
    small = rng.random() < w["small"]
    while rem > 0:
        cands = plain_candidates(rem, w, rng)
        if not cands:
            # remainder below a 64th: 128th / 256th filler rests (not in the sampled values, loader tables have them)
            for v in (128, 256):
                while den_dur(v, 0, None) <= rem:
                    nodes.append({"k": "r", "v": v, "d": 0})
                    rem -= den_dur(v, 0, None)
            assert rem == 0, rem
            break
        if rng.random() < w["tuplet"]:
            num, base = rng.choice(TUPLETS)
            vs = [v for v in (2, 4, 8, 16, 32) if base * den_dur(v, 0, None) <= rem]
            if vs:
                v = rng.choice(vs)
                tp = gen_tuplet(rng, w, num, base, v, fmt)
                # kern writes a tuplet value as the integer reciprocal v*num/numbase (3 = triplet half, 12 = triplet
                # eighth); groups containing a value without such an integer are not generated for kern
                if fmt != "kern" or all(kern_recip_ok(e["v"], (num, base)) for e in tp["items"]):
                    nodes.append(tp)
                    rem -= base * den_dur(v, 0, None)
                    continue
        if not small:
            cands = [c for c in cands if c[0] <= 16] or cands
        if rng.random() >= w["dots"]:
            cands = [c for c in cands if c[1] == 0] or cands
        else:
            cands = [c for c in cands if c[1] > 0] or cands
        # prefer longer values so that measures stay short
        cands.sort(key=lambda c: -c[2])
        v, d, q = cands[min(len(cands) - 1, int(abs(rng.gauss(0, 1.0 if not small else 3.0))))]
        nodes.append(gen_sound(rng, w, v, d, fmt))
        rem -= q
    return nodes


def add_graces(rng, w, nodes, fmt):
    out = []
    for nd in nodes:
        if "k" in nd and nd["k"] in ("n", "c") and rng.random() < w["grace"]:
            out.append({"k": "n", "v": rng.choice([8, 16]), "d": 0, "p": [rand_pitch(rng, w)], "g": True})
        out.append(nd)
    return out


def add_beams(rng, w, nodes):
    """Wrap runs of short events / whole tuplets in <beam>; put a beam inside a tuplet."""
    out = []
    i = 0
    while i < len(nodes):
        nd = nodes[i]
        if "tuplet" in nd:
            r = rng.random()
            b = w["beam"]
            items = nd["items"]
            if r < b * 0.5:        # beam > tuplet > note
                out.append({"beam": [nd]})
            elif r < b:            # tuplet > beam > note
                out.append({"tuplet": nd["tuplet"], "items": [{"beam": items}]})
            elif r < b * 1.4 and len(items) >= 3:   # tuplet > (beam over some of the notes, note)
                k = rng.randint(2, len(items) - 1)
                out.append({"tuplet": nd["tuplet"], "items": ([{"beam": items[:k]}] + items[k:]) if rng.random() < 0.5 else
                            (items[:len(items) - k] + [{"beam": items[len(items) - k:]}])})
            elif r < b * 1.7 and i + 1 < len(nodes) and "k" in nodes[i + 1] and nodes[i + 1].get("v", 0) >= 8 and nodes[i + 1]["k"] != "m":
                out.append({"beam": [nd, nodes[i + 1]]})   # beam > (tuplet > note, note)
                i += 2
                continue
            else:
                out.append(nd)
            i += 1
            continue
        if nd.get("v", 0) >= 8 and nd["k"] != "m" and rng.random() < w["beam"]:
            j = i
            while j < len(nodes) and "k" in nodes[j] and nodes[j].get("v", 0) >= 8 and j - i < 4:
                j += 1
            if j - i >= 2:
                out.append({"beam": nodes[i:j]})
                i = j
                continue
        out.append(nd)
        i += 1
    return out


def gen_doc(rng, fmt, w=None, nmeas=None, nstaves=None):
    w = dict(DEFAULT_W, **(w or {}))
    nst = nstaves or rng.choice([1, 1, 2, 2, 3])
    nme = nmeas or rng.randint(1, 4)
    meter = rng.choice(METERS[:6]) if rng.random() < 0.7 else rng.choice(METERS)
    key = [rng.randint(-7, 7) if rng.random() < 0.8 else 0, rng.choice(["major", "minor", None])]
    clefs = [["G", 2], ["F", 4], ["C", 3], ["C", 4], ["G", 2], ["F", 4]]
    staves = []
    for s in range(nst):
        staves.append({"n": s + 1, "clef": rng.choice(clefs)})
    doc = {"fmt": fmt, "meter": list(meter), "key": key, "staves": staves, "measures": []}
    o = {}
    if fmt == "mei":
        o["meter_as"] = rng.choice(["staffdef_attr", "staffdef_child", "scoredef_attr", "scoredef_child"])
        o["key_as"] = rng.choice(["staffdef_attr", "staffdef_child", "scoredef_attr", "scoredef_child"])
        o["clef_as"] = rng.choice(["attr", "child"])
        o["group"] = rng.choice(["flat", "nested"])
        o["ppq"] = rng.choice([None, None, None, "declared"])
        o["layer_n"] = rng.random() < 0.8
        # @n of the first / second layer of a staff: the voice number is the layer's n, not its position
        o["layer_ns"] = rng.choice([[1, 2], [1, 2], [2, 1], [3, 7], [5, 2], [2, 4]])
        o["change_as"] = rng.choice(["attr", "child"])
        o["tie_attr_too"] = rng.random() < 0.5
        o["ext"] = ".mei"
    else:
        o["staff_line"] = rng.random() < 0.8
        o["ext"] = rng.choice([".krn", ".krn", ".kern"])
        o["final_barline"] = rng.random() < 0.7
        o["beam_marks"] = rng.random() < 0.5
        # all spines carry the same *part interpretation: ONE part, spines = staves, voices numbered across the spines
        o["same_part"] = nst > 1 and rng.random() < w.get("same_part", 0.3)
        if o["same_part"]:
            o["staff_line"] = True
        if o["staff_line"] and nst > 1 and rng.random() < 0.5:
            for k_, st in enumerate(staves):   # kern spines usually run from the lowest staff to the highest
                st["n"] = nst - k_
        if not o["staff_line"]:
            for st in staves:  # without a *staff interpretation every spine is staff 1 of its own part
                st["n"] = 1
    doc["opts"] = o
    in_ending = None
    rpt_open = False
    for mi in range(nme):
        m = {"content": []}
        if mi > 0 and rng.random() < w["meter_change"]:
            # a change of meter usually changes the length of the measure (what a measure rest lasts); one time in five
            # any meter is drawn (same meter again, or another one with the same length: 3/4 -> 6/8)
            cands = [x for x in METERS if F(4 * x[0], x[1]) != F(4 * meter[0], meter[1])] if rng.random() < 0.8 else METERS
            meter = rng.choice(cands)
            m["meter"] = list(meter)
        if mi > 0 and rng.random() < w["key_change"]:
            key = [rng.randint(-7, 7), key[1]]
            m["key"] = list(key)
        length = F(4 * meter[0], meter[1])
        if mi == 0 and nme > 1 and rng.random() < w["pickup"]:
            length = rng.choice([F(1), F(1, 2), F(2), F(3, 2), F(1, 4)])
            length = min(length, F(4 * meter[0], meter[1]))
            m["pickup"] = True
        if rng.random() < w["repeat"] and not rpt_open:
            m["left"] = "rptstart"
            rpt_open = True
        elif rpt_open and rng.random() < 0.5:
            m["right"] = "rptend"
            rpt_open = False
        if fmt == "mei" and mi > 0 and rng.random() < w["ending"]:
            m["ending"] = 1 if in_ending is None else in_ending + 1
            in_ending = m["ending"]
        if mi > 0:
            ch = [[s_, c_[0], c_[1]] for s_ in range(nst) for c_ in [rng.choice(clefs)] if rng.random() < w["clef_change"]]
            if ch:
                m["clefs"] = ch       # clef change at the start of the measure: [staff index, shape, line]
        if fmt == "mei" and mi > 0 and rng.random() < w["sb"]:
            m["sb"] = True            # <sb/> (system break) before the measure
        for s in range(nst):
            layers = []
            if w.get("uniform_layers"):
                # export direction: a layer absent from a measure is filled by fill_rests (C11's subject) -> keep layers uniform
                nl = doc["measures"][0]["content"][s].__len__() if doc["measures"] else (2 if rng.random() < w["two_layers"] else 1)
            else:
                nl = 2 if rng.random() < w["two_layers"] else 1
            for li in range(nl):
                full = length == F(4 * meter[0], meter[1])
                if fmt == "mei" and full and rng.random() < w["mrest"]:
                    nodes = [{"k": "m"}]
                else:
                    ln = length
                    if fmt == "mei" and rng.random() < (w["short_layer"] * (3 if (nl == 2 and li == 0) else 1)):
                        ln = length - rng.choice([F(1, 2), F(1, 4), F(1, 8)])
                        if ln <= 0:
                            ln = length
                    nodes = fill_layer(rng, w, ln, fmt, meter)
                    nodes = add_graces(rng, w, nodes, fmt)
                    if fmt == "mei":
                        nodes = add_beams(rng, w, nodes)
                layers.append(nodes)
            if fmt == "kern" and len(layers) == 2 and rng.random() < w.get("mid_split", 0.0):
                # the second sub-spine exists only from t0 to t1 inside the measure: split "*^" and merge "*v" in the middle of the
                # measure, at times where the first sub-spine has a token (its previous token ends there)
                t_, ons = F(0), []
                for e in flat(layers[0]):
                    if not e.get("g"):
                        ons.append(t_)
                    t_ += ev_dur(e, meter)
                ons = [x for x in ons if x.denominator in (1, 2, 4, 8, 16)]      # times a plain value can start at
                starts = [x for x in ons if x > 0]
                if starts:
                    t0 = rng.choice(starts)
                    ends = [x for x in ons if x > t0] + [length] * 2
                    t1 = rng.choice(ends)

                    def gap(g):
                        return {"tuplet": [g.denominator, g.numerator], "items": [{"k": "s", "v": 4, "d": 0}], "gap": True}
                    mid = add_graces(rng, w, fill_layer(rng, w, t1 - t0, fmt, meter), fmt)
                    layers[1] = [gap(t0)] + mid + ([gap(length - t1)] if t1 < length else [])
            m["content"].append(layers)
        doc["measures"].append(m)
    if rpt_open:
        doc["measures"][-1]["right"] = "rptend"
    if fmt == "mei" and nme > 1 and rng.random() < w["inner_section"]:
        # a nested <section> around a run of measures that holds no ending
        free = [i for i in range(nme) if not doc["measures"][i].get("ending")]
        if free:
            a_ = rng.choice(free)
            b_ = a_
            while b_ + 1 < nme and not doc["measures"][b_ + 1].get("ending") and rng.random() < 0.6:
                b_ += 1
            o["inner_section"] = [a_, b_]
    add_ties(rng, w, doc)
    return doc


def add_ties(rng, w, doc):
    """Tie an event to the next sounding event of the same layer (also across the barline)
    by giving the successor the same pitches.  kern: single notes only (the loader documents
    chord ties as not handled)."""
    fmt = doc["fmt"]
    nst = len(doc["staves"])
    for s in range(nst):
        for li in range(2):
            seq = []  # references to the event dicts in document order

            def walk(nodes):
                for nd in nodes:
                    if "beam" in nd:
                        walk(nd["beam"])
                    elif "tuplet" in nd:
                        walk(nd["items"])
                    else:
                        seq.append(nd)
            for m in doc["measures"]:
                if li < len(m["content"][s]):
                    walk(m["content"][s][li])
                else:
                    seq.append(None)  # layer absent in this measure: breaks adjacency
            for a, b in zip(seq, seq[1:]):
                if a is None or b is None:
                    continue
                if a["k"] in ("n", "c") and b["k"] in ("n", "c") and not a.get("g") and not b.get("g"):
                    if fmt == "kern" and (a["k"] == "c" or b["k"] == "c"):
                        # the kern loader documents ties on chords as "not handled yet" (finding C19-K1)
                        if not (a["k"] == "c" and b["k"] == "c" and len(a["p"]) == len(b["p"]) and rng.random() < w.get("kern_chord_tie", 0.0)):
                            continue
                    if rng.random() < w["tie"]:
                        a["tie"] = True
                        b["p"] = [list(p) for p in a["p"]]
                        b["k"] = a["k"]


# --------------------------------------------------------------------------
# independent MEI writer

MEI_ACC = {-2: "ff", -1: "f", 0: "n", 1: "s", 2: "ss"}


def mei_sig(f):
    return "0" if f == 0 else ("%ds" % f if f > 0 else "%df" % -f)


def write_mei(doc):
    o = doc["opts"]
    ids = [0]

    def nid(p):
        ids[0] += 1
        return "%s%d" % (p, ids[0])
    den = denote(doc)
    L = ['<?xml version="1.0" encoding="UTF-8"?>',
         '<mei xmlns="http://www.music-encoding.org/ns/mei" meiversion="4.0.0">',
         '<meiHead><fileDesc><titleStmt><title>c19</title></titleStmt><pubStmt/></fileDesc></meiHead>',
         '<music><body><mdiv xml:id="mdiv1"><score xml:id="score1">']
    sd_attr = ""
    if o["meter_as"] == "scoredef_attr":
        sd_attr += ' meter.count="%d" meter.unit="%d"' % tuple(doc["meter"])
    if o["key_as"] == "scoredef_attr":
        sd_attr += ' key.sig="%s"' % mei_sig(doc["key"][0])
        if doc["key"][1]:
            sd_attr += ' key.mode="%s"' % doc["key"][1]
    L.append('<scoreDef xml:id="sd0"%s>' % sd_attr)
    if o["meter_as"] == "scoredef_child":
        L.append('<meterSig xml:id="%s" count="%d" unit="%d"/>' % (nid("ms"), doc["meter"][0], doc["meter"][1]))
    if o["key_as"] == "scoredef_child":
        L.append('<keySig xml:id="%s" sig="%s"%s/>' % (nid("ks"), mei_sig(doc["key"][0]),
                                                       ' mode="%s"' % doc["key"][1] if doc["key"][1] else ""))
    L.append('<staffGrp xml:id="sg0">')
    if o["group"] == "nested":
        L.append('<staffGrp xml:id="sg1" symbol="brace">')
    ppq = None
    if o.get("ppq") == "declared":
        ppq = o.get("ppq_value") or model_find_ppq(doc) * 2
        o["ppq_value"] = ppq
    staff_ids = []
    for st in doc["staves"]:
        a = ' n="%d" lines="5"' % st["n"]
        ch = []
        if ppq:
            a += ' ppq="%d"' % ppq
        if o["clef_as"] == "attr":
            a += ' clef.shape="%s" clef.line="%d"' % tuple(st["clef"])
        else:
            ch.append('<clef xml:id="%s" shape="%s" line="%d"/>' % (nid("cl"), st["clef"][0], st["clef"][1]))
        if o["key_as"] == "staffdef_attr":
            a += ' key.sig="%s"' % mei_sig(doc["key"][0])
            if doc["key"][1]:
                a += ' key.mode="%s"' % doc["key"][1]
        elif o["key_as"] == "staffdef_child":
            ch.append('<keySig xml:id="%s" sig="%s"%s/>' % (nid("ks"), mei_sig(doc["key"][0]),
                                                           ' mode="%s"' % doc["key"][1] if doc["key"][1] else ""))
        if o["meter_as"] == "staffdef_attr":
            a += ' meter.count="%d" meter.unit="%d"' % tuple(doc["meter"])
        elif o["meter_as"] == "staffdef_child":
            ch.append('<meterSig xml:id="%s" count="%d" unit="%d"/>' % (nid("ms"), doc["meter"][0], doc["meter"][1]))
        sid = "P%d" % st["n"]
        staff_ids.append(sid)
        L.append('<staffDef xml:id="%s"%s>%s</staffDef>' % (sid, a, "".join(ch)))
    if o["group"] == "nested":
        L.append('</staffGrp>')
    L.append('</staffGrp></scoreDef>')
    L.append('<section xml:id="sec1">')

    open_ending = None
    ev_ids = {}  # (staff, layer, index in flat sequence over the document) -> [note ids]
    counters = {}
    tstate = {}

    def ev_xml(e, si, li, t):
        key = (si, li)
        idx = counters.get(key, 0)
        counters[key] = idx + 1
        a = ""
        if e["k"] == "m":
            return '<mRest xml:id="%s"/>' % nid("mr"), None
        a += ' dur="%d"' % e["v"]
        if e.get("d"):
            a += ' dots="%d"' % e["d"]
        if ppq and not e.get("g"):
            a += ' dur.ppq="%d"' % int(ppq * den_dur(e["v"], e.get("d", 0), t))
        if e["k"] == "r":
            return '<rest xml:id="%s"%s/>' % (nid("r"), a), None
        if e["k"] == "s":
            return '<space xml:id="%s"%s/>' % (nid("sp"), a), None

        def note_xml(p, extra):
            n = nid("n")
            acc = ""
            sub = ""
            if p[1] is not None:
                how = (ids[0] % 3)
                if how == 0:
                    acc = ' accid="%s"' % MEI_ACC[p[1]]
                elif how == 1:
                    acc = ' accid.ges="%s"' % MEI_ACC[p[1]]
                else:
                    sub = '<accid xml:id="%s" accid="%s"/>' % (nid("ac"), MEI_ACC[p[1]])
            s = '<note xml:id="%s"%s pname="%s" oct="%d"%s' % (n, extra, p[0].lower(), p[2], acc)
            return (s + (">%s</note>" % sub if sub else "/>")), n
        if o.get("tie_attr_too") and not e.get("g"):
            # @tie written next to the <tie> elements (the loader reads the elements; the attribute must not disturb it)
            prev = tstate.get(key, False)
            cur = bool(e.get("tie"))
            tstate[key] = cur
            if prev or cur:
                a += ' tie="%s"' % ("m" if prev and cur else "i" if cur else "t")
        if e["k"] == "n":
            extra = a + (' grace="%s"' % ("acc" if ids[0] % 2 else "unacc") if e.get("g") else "")
            x, n = note_xml(e["p"][0], extra)
            return x, [n]
        xs, ns = [], []
        for p in e["p"]:
            x, n = note_xml(p, "")
            xs.append(x)
            ns.append(n)
        return '<chord xml:id="%s"%s>%s</chord>' % (nid("ch"), a, "".join(xs)), ns

    seqs = {}

    def nodes_xml(nodes, si, li, t):
        out = []
        for nd in nodes:
            if "beam" in nd:
                out.append('<beam xml:id="%s">%s</beam>' % (nid("b"), nodes_xml(nd["beam"], si, li, t)))
            elif "tuplet" in nd:
                out.append('<tuplet xml:id="%s" num="%d" numbase="%d">%s</tuplet>'
                           % (nid("t"), nd["tuplet"][0], nd["tuplet"][1], nodes_xml(nd["items"], si, li, tuple(nd["tuplet"]))))
            else:
                x, ns = ev_xml(nd, si, li, t)
                out.append(x)
                if nd["k"] != "s":
                    seqs.setdefault((si, li), []).append((nd, ns))
        return "".join(out)

    meas_xml = []
    for mi, m in enumerate(doc["measures"]):
        pre = []
        if m.get("meter") or m.get("key"):
            at, ch = "", ""
            if m.get("meter"):
                if o["change_as"] == "attr":
                    at += ' meter.count="%d" meter.unit="%d"' % tuple(m["meter"])
                else:
                    ch += '<meterSig xml:id="%s" count="%d" unit="%d"/>' % (nid("ms"), m["meter"][0], m["meter"][1])
            if m.get("key"):
                if o["change_as"] == "attr":
                    at += ' key.sig="%s"' % mei_sig(m["key"][0])
                else:
                    ch += '<keySig xml:id="%s" sig="%s"/>' % (nid("ks"), mei_sig(m["key"][0]))
            pre.append('<scoreDef xml:id="%s"%s>%s</scoreDef>' % (nid("sd"), at, ch))
        a = ' n="%d"' % (mi + 1)
        if m.get("left"):
            a += ' left="%s"' % m["left"]
        if m.get("right"):
            a += ' right="%s"' % m["right"]
        body = []
        for si, st in enumerate(doc["staves"]):
            lays = []
            for li, layer in enumerate(m["content"][si]):
                la = ' n="%d"' % layer_voice(doc, li) if o["layer_n"] else ""
                cl = "".join('<clef xml:id="%s" shape="%s" line="%d"/>' % (nid("cl"), c_[1], c_[2])
                             for c_ in m.get("clefs", []) if c_[0] == si and li == 0)
                lays.append('<layer xml:id="%s"%s>%s%s</layer>' % (nid("l"), la, cl, nodes_xml(layer, si, li, None)))
            body.append('<staff xml:id="%s" n="%d">%s</staff>' % (nid("s"), st["n"], "".join(lays)))
        meas_xml.append((m, pre, a, body))

    # ties as <tie> elements (in the measure where the tie starts), optionally also @tie
    ties_at = {}
    for (si, li), seq in seqs.items():
        snd = [(nd, ns) for nd, ns in seq if nd["k"] in ("n", "c") and not nd.get("g")]
        for (a_, an), (b_, bn) in zip(snd, snd[1:]):
            if a_.get("tie"):
                for x, y in zip(an, bn):
                    ties_at.setdefault(id(a_), []).append('<tie xml:id="%s" startid="#%s" endid="#%s"/>' % (nid("tie"), x, y))
    for mi, (m, pre, a, body) in enumerate(meas_xml):
        ties = []
        for si in range(len(doc["staves"])):
            for li, layer in enumerate(m["content"][si]):
                for e in _walk(layer):
                    ties += ties_at.get(id(e), [])
        if m.get("ending") and open_ending != m["ending"]:
            if open_ending is not None:
                L.append("</ending>")
            L.append('<ending xml:id="%s" n="%d">' % (nid("e"), m["ending"]))
            open_ending = m["ending"]
        elif not m.get("ending") and open_ending is not None:
            L.append("</ending>")
            open_ending = None
        inner = o.get("inner_section")
        if inner and mi == inner[0]:
            L.append('<section xml:id="%s">' % nid("sec"))
        if m.get("sb"):
            L.append('<sb xml:id="%s"/>' % nid("sb"))
        L += pre
        L.append('<measure xml:id="%s"%s>%s%s</measure>' % (nid("m"), a, "".join(body), "".join(ties)))
        if inner and mi == inner[1]:
            L.append('</section>')
    if open_ending is not None:
        L.append("</ending>")
    L.append('</section></score></mdiv></body></music></mei>')
    return "\n".join(L) + "\n"


def _walk(nodes):
    for nd in nodes:
        if "beam" in nd:
            yield from _walk(nd["beam"])
        elif "tuplet" in nd:
            yield from _walk(nd["items"])
        else:
            yield nd


# Python transcription of MeiParser._find_ppq (used only to declare an adequate ppq and, informationally,
# to compare with the Coq model's find_ppq)
def model_find_ppq(doc):
    durs = [4]
    for m in doc["measures"]:
        for st in m["content"]:
            for layer in st:
                for e in flat(layer):
                    if e["k"] == "m":
                        continue
                    v = e["v"]
                    if e.get("t"):
                        v = F(v * e["t"][0], e["t"][1]).numerator
                    durs.append(v * 2 ** e.get("d", 0))
    l = 1
    for d in durs:
        l = l * d // math.gcd(l, d)
    return l // 4


# --------------------------------------------------------------------------
# independent **kern writer

KERN_ACC = {-2: "--", -1: "-", 0: "n", 1: "#", 2: "##", None: ""}


def kern_pitch(p):
    step, alter, octv = p
    if octv >= 4:
        s = step.lower() * (octv - 3)
    else:
        s = step.upper() * (4 - octv)
    return s + KERN_ACC[alter]


def kern_recip(e):
    v = e["v"]
    if e.get("t"):
        assert (v * e["t"][0]) % e["t"][1] == 0
        v = v * e["t"][0] // e["t"][1]
    return "%d%s" % (v, "." * e.get("d", 0))


def kern_key(f):
    sharps = ["f#", "c#", "g#", "d#", "a#", "e#", "b#"]
    flats = ["b-", "e-", "a-", "d-", "g-", "c-", "f-"]
    return "*k[%s]" % "".join(sharps[:f] if f >= 0 else flats[:-f])


def write_kern(doc):
    """Spines are written left to right = staves listed in doc['staves'] order; every spine is
    one part (the loader reverses the part order).  Layers of a staff are sub-spines (*^ / *v)."""
    o = doc["opts"]
    nst = len(doc["staves"])
    lines = []

    def row(cells):
        lines.append("\t".join(cells))
    row(["**kern"] * nst)
    if o.get("same_part"):
        row(["*part1"] * nst)
    if o["staff_line"]:
        row(["*staff%d" % st["n"] for st in doc["staves"]])
    row(["*clef%s%d" % tuple(st["clef"]) for st in doc["staves"]])
    row([kern_key(doc["key"][0])] * nst)
    row(["*M%d/%d" % tuple(doc["meter"])] * nst)
    meter = tuple(doc["meter"])
    width = [1] * nst  # current number of sub-spines per spine
    tie_state = {}
    for mi, m in enumerate(doc["measures"]):
        if m.get("meter"):
            meter = tuple(m["meter"])
        # timeline of the measure; a second layer with leading / trailing spaces is a sub-spine that exists only from
        # t0 to t1 (split "*^" and merge "*v *v" in the middle of the measure)
        cols = {}
        exist = {}
        for s in range(nst):
            for li, layer in enumerate(m["content"][s]):
                t = F(0)
                evs = []
                for e in flat(layer):
                    evs.append((t, e))
                    t += ev_dur(e, meter)
                real = [(tt, e) for tt, e in evs if e["k"] != "s"]
                cols[(s, li)] = real
                exist[(s, li)] = (real[0][0], real[-1][0] + ev_dur(real[-1][1], meter), t) if real else (F(0), F(0), t)
        want = [1 + (1 if (len(m["content"][s]) > 1 and exist[(s, 1)][0] == 0 and cols[(s, 1)]) else 0) for s in range(nst)]
        # barline (the first measure gets one unless it is a pickup)
        if not (mi == 0 and m.get("pickup")):
            bar = "="
            if mi > 0 and doc["measures"][mi - 1].get("right") == "rptend":
                bar += ":|!"
            bar += "%d" % (mi + 1)
            if m.get("left") == "rptstart":
                bar += "|:"
            row([bar] * sum(width))
        # adjust sub-spines: merges first (old widths), then splits (widths after merging)
        for s0 in range(nst):  # one merge per line (adjacent "*v" groups of different spines would be ambiguous)
            if want[s0] < width[s0]:
                row(sum([["*v", "*v"] if s == s0 else ["*"] * width[s] for s in range(nst)], []))
                width[s0] = want[s0]
        if any(want[s] > width[s] for s in range(nst)):
            row(sum([["*^"] if want[s] > width[s] else ["*"] * width[s] for s in range(nst)], []))
        width = list(want)
        ncol = sum(width)
        if m.get("clefs"):
            chg = {c_[0]: c_ for c_ in m["clefs"]}
            row(sum([["*clef%s%d" % (chg[s][1], chg[s][2]) if s in chg else "*"] * width[s] for s in range(nst)], []))
        if m.get("meter"):
            row(["*M%d/%d" % meter] * ncol)
        if m.get("key"):
            row([kern_key(m["key"][0])] * ncol)
        times = sorted({t for evs in cols.values() for t, _ in evs})
        for t in times:
            # sub-spines that end / begin at this time inside the measure
            for s0 in range(nst):
                if width[s0] == 2 and exist[(s0, 1)][1] <= t:
                    row(sum([["*v", "*v"] if s == s0 else ["*"] * width[s] for s in range(nst)], []))
                    width[s0] = 1
            spl = [s for s in range(nst) if width[s] == 1 and len(m["content"][s]) > 1 and cols[(s, 1)] and exist[(s, 1)][0] == t and t > 0]
            if spl:
                row(sum([["*^"] if s in spl else ["*"] * width[s] for s in range(nst)], []))
                for s in spl:
                    width[s] = 2
            live = [(s, li) for s in range(nst) for li in range(width[s])]
            # grace notes first, on their own line(s)
            graces = [[e for tt, e in cols.get(key, []) if tt == t and e.get("g")] for key in live]
            for k in range(max(len(g) for g in graces)):
                row([kern_token(g[k], None, o) if k < len(g) else "." for g in graces])
            cells = []
            for key in live:
                main = [e for tt, e in cols.get(key, []) if tt == t and not e.get("g")]
                if not main:
                    cells.append(".")
                    continue
                cells.append(kern_token(main[0], tie_state.setdefault(key, [False]), o))
            if any(c != "." for c in cells):
                row(cells)
    if o["final_barline"]:
        row(["=="] * sum(width))
    for s0 in range(nst):
        if width[s0] > 1:
            row(sum([["*v", "*v"] if s == s0 else ["*"] * width[s] for s in range(nst)], []))
            width[s0] = 1
    row(["*-"] * nst)
    return "\n".join(lines) + "\n"


def kern_token(e, tie_state, o):
    rec = kern_recip(e)
    if e["k"] == "r":
        return rec + "r"
    if e.get("g"):
        return rec + kern_pitch(e["p"][0]) + "q"
    toks = []
    for p in e["p"]:
        pre = post = ""
        if tie_state is not None:
            if tie_state[0] and e.get("tie"):
                post = "_"
            elif tie_state[0]:
                post = "]"
            elif e.get("tie"):
                pre = "["
        toks.append(pre + rec + kern_pitch(p) + post)
    if tie_state is not None:
        tie_state[0] = bool(e.get("tie"))
    return " ".join(toks)


# --------------------------------------------------------------------------
# running the implementation and observing the loaded score


def work_dir():
    d = os.path.join(core.WORKROOT, "C19", "files")
    os.makedirs(d, exist_ok=True)
    return d


def write_doc(doc, name="doc"):
    text = write_mei(doc) if doc["fmt"] == "mei" else write_kern(doc)
    path = os.path.join(work_dir(), name + doc["opts"]["ext"])
    with open(path, "w") as f:
        f.write(text)
    return path, text


def observe_part(part):
    import partitura.score as S
    divs = [int(x) for x in part._quarter_durations]
    ob = {"divs": divs, "notes": [], "measures": [], "ts": [], "ks": [], "clefs": []}
    for n in part.iter_all(S.GenericNote, include_subclasses=True):
        kind = "g" if isinstance(n, S.GraceNote) else "r" if isinstance(n, S.Rest) else "n"
        ob["notes"].append({
            "kind": kind, "start": int(n.start.t), "end": int(n.end.t), "voice": n.voice, "staff": n.staff,
            "step": getattr(n, "step", None), "alter": getattr(n, "alter", None), "octave": getattr(n, "octave", None),
            "tp": getattr(n, "tie_prev", None) is not None, "tn": getattr(n, "tie_next", None) is not None,
            "dur_tied": int(n.duration_tied) if kind != "r" else None,
            "sym": dict(n.symbolic_duration) if isinstance(getattr(n, "symbolic_duration", None), dict) else None,
            "id": n.id})
    for m in part.iter_all(S.Measure):
        ob["measures"].append([int(m.start.t), int(m.end.t) if m.end is not None else None, m.number])
    for t in part.iter_all(S.TimeSignature):
        ob["ts"].append([int(t.start.t), int(t.beats), int(t.beat_type)])
    for k in part.iter_all(S.KeySignature):
        ob["ks"].append([int(k.start.t), int(k.fifths), k.mode])
    for c in part.iter_all(S.Clef):
        ob["clefs"].append([int(c.start.t), c.staff, c.sign, int(c.line)])
    try:
        na = part.note_array(include_staff=True)
        ob["na"] = [[float(r["onset_quarter"]), float(r["duration_quarter"]), int(r["pitch"]), int(r["voice"]), int(r["staff"])] for r in na]
    except Exception as ex:  # note_array is C05's subject; its failure is reported as part of the observation
        ob["na_error"] = "%s: %s" % (type(ex).__name__, ex)
    return ob


def load(path, loader="load_score", keep=None):
    """Returns ('ok', [observed part per staff, in doc['staves'] order]) or ('err', text); the loaded Score is appended
    to ``keep`` (history stream: the object stays alive and is edited / exported later)."""
    import partitura as pt
    try:
        if loader == "load_score":
            sc = pt.load_score(path)
        elif loader == "load_mei":
            sc = pt.load_mei(path)
        else:
            sc = pt.load_kern(path)
    except Exception as ex:
        import traceback
        tb = traceback.extract_tb(ex.__traceback__)
        where = "%s:%d %s" % (os.path.basename(tb[-1].filename), tb[-1].lineno, tb[-1].name)
        return "err", "%s: %s @ %s" % (type(ex).__name__, str(ex)[:200], where)
    if keep is not None:
        keep.append(sc)
    parts = list(sc.parts)
    if path.endswith(".mei"):   # the harness names MEI documents *.mei, kern documents *.krn / *.kern
        obs = [observe_part(p) for p in parts]
    else:
        obs = [observe_part(p) for p in parts[::-1]]
    for p, ob in zip(parts if path.endswith(".mei") else parts[::-1], obs):
        ob["id"] = p.id
    return "ok", obs


# file names with several dots / with the extension of another reader before the last dot: the reader is chosen
# from the (last) extension only
DOTTED_NAMES = {"mei": ["doc.v2", "a.b.c", "doc.krn", "doc.xml", "doc.kern.mid"],
                "kern": ["doc.v2", "a.b.c", "doc.mei", "doc.musicxml", "doc.mei.xml"]}


def kern_spine_tokens(text, nst):
    """Independent reading of the spine structure of a written kern document: per spine, its cells line by line
    coded 0 other / 1 '*^' / 2 '*v' (the widths follow what the tokens denote)."""
    width = [1] * nst
    out = [[] for _ in range(nst)]
    for line in text.split("\n"):
        if not line or line.startswith("!"):
            continue
        cells = line.split("\t")
        if len(cells) != sum(width):
            raise RuntimeError("harness kern reader: %d cells for widths %r in line %r" % (len(cells), width, line))
        k = 0
        for s_ in range(nst):
            mine = cells[k:k + width[s_]]
            k += width[s_]
            out[s_].append([1 if c == "*^" else 2 if c == "*v" else 0 for c in mine])
            w2 = width[s_] + mine.count("*^")
            run = 0
            for c in mine + [None]:
                if c == "*v":
                    run += 1
                else:
                    if run:
                        w2 -= run - 1
                    run = 0
            width[s_] = w2
    return out


def kern_columns(text, nst):
    """Independent reading of a written kern document as the columns element_parsing meets: per spine, per sub-spine
    (voice) the cells [(document line, text)] -- a sub-spine that does not exist on a line holds nothing there, except
    that tandem interpretations and barlines of the spine's first sub-spine are copied to all its sub-spines
    (parse_by_voice); null tokens are dropped (SplineParser.parse); the '**kern' line is the header."""
    rows = []
    width = [1] * nst
    maxw = [1] * nst
    for ln, line in enumerate(text.split("\n")):
        if not line or line.startswith("!"):
            continue
        cells = line.split("\t")
        k = 0
        per = []
        for s_ in range(nst):
            mine = cells[k:k + width[s_]]
            k += width[s_]
            per.append(mine)
            w2 = width[s_] + mine.count("*^")
            run = 0
            for c in mine + [None]:
                if c == "*v":
                    run += 1
                else:
                    if run:
                        w2 -= run - 1
                    run = 0
            width[s_] = w2
            maxw[s_] = max(maxw[s_], w2)
        rows.append((ln, per))
    cols = [[[] for _ in range(maxw[s_])] for s_ in range(nst)]
    for ln, per in rows:
        if ln == 0:
            continue
        for s_ in range(nst):
            mine = per[s_]
            for v in range(maxw[s_]):
                c = mine[v] if v < len(mine) else ""
                if v >= 1 and (mine[0].startswith("*") or mine[0].startswith("=")):
                    c = mine[0]
                if c not in ("", ".", "-"):
                    cols[s_][v].append((ln, c))
    return cols


def c_kcell(c):
    import re
    if "*^" in c:
        return "KSplit"
    if "*" in c:
        return "KTandem"
    if "=" in c:
        return "KBar"
    if "q" in c:
        return "KGrace"
    m = re.search(r"(\d+)(\.*)", c.split(" ")[0])
    return "(KNote %s %d%%nat)" % (cq(F(int(m.group(1)))), len(m.group(2)))


def c_partrun_cases(doc, obs, text):
    """One case per loaded part: (divs, columns, per column the loaded (line, start, end) of its elements, measure starts)."""
    nst = len(doc["staves"])
    cols = kern_columns(text, nst)
    per_spine = []
    for si in range(nst):
        ob = obs[si]
        cc, oo = [], []
        for v, col in enumerate(cols[si]):
            cc.append(ctuple([cbool(v > 0), clist([ctuple([cz(ln), c_kcell(c)]) for ln, c in col])]))
            note_lines = [ln for ln, c in col if "*" not in c and "=" not in c]
            els = sorted({(n["start"], 0 if n["kind"] == "g" else 1, n["end"]) for n in ob["notes"] if n["voice"] == v + 1})
            rows = [ctuple([cz(ln), cz(a), cz(b)]) for ln, (a, _, b) in zip(note_lines, els)]
            if len(note_lines) != len(els):
                rows.append(ctuple([cz(-1), cz(len(note_lines)), cz(len(els))]))   # different counts: cannot agree
            oo.append(clist(rows))
        mst = clist([cz(x) for x in sorted(m[0] for m in ob["measures"] if m[2] != 0)])
        per_spine.append((cz(ob["divs"][0]), cc, oo, mst))
    if doc["opts"].get("same_part"):
        return [ctuple([per_spine[0][0], clist(sum((p[1] for p in per_spine), [])), clist(sum((p[2] for p in per_spine), [])), per_spine[0][3]])]
    return [ctuple([p[0], clist(p[1]), clist(p[2]), p[3]]) for p in per_spine]


def a0(x):
    return 0 if x is None else int(x)


def layer_voice(doc, li):
    """Voice number the li-th layer / sub-spine of a staff is expected to load as."""
    o = doc["opts"]
    if doc["fmt"] == "mei" and o.get("layer_n") and o.get("layer_ns"):
        return o["layer_ns"][li]
    return li + 1


def expected_rows(doc, den, si):
    """Expected (voice, staff, kind, onset, dur, step, alter, octave) rows of staff si."""
    rows = []
    stn = doc["staves"][si]["n"]
    for li in range(2):
        for e in den["layers"][si][li]:
            if e["k"] in ("r", "m"):
                rows.append((layer_voice(doc, li), stn, "r", e["onset"], e["dur"], None, 0, None))
            else:
                for p in e["p"]:
                    rows.append((layer_voice(doc, li), stn, "g" if e["g"] else "n", e["onset"], e["dur"], p[0], a0(p[1]), p[2]))
    return rows


def rowkey(r):
    return (r[0], r[1], r[3], r[2], -1 if r[7] is None else 12 * (r[7] + 1) + BASE_PC[r[5]] + r[6], str(r[5]), r[4])


def compare(doc, obs):
    """Direct oracle.  Returns list of (clause, text) mismatches (empty = property holds on this document)."""
    den = denote(doc)
    bad = []
    nst = len(doc["staves"])
    if len(obs) != nst:
        return [("parts", "expected %d parts (one per %s), loaded %d" % (nst, "staffDef" if doc["fmt"] == "mei" else "spine", len(obs)))]
    if obs and obs[0].get("stray"):
        n = obs[0]["stray"][0]
        bad.append(("voice/staff", "spines of one part: %d loaded elements carry a voice number that belongs to no spine, e.g. voice %s staff %s at tick %s"
                    % (len(obs[0]["stray"]), n["voice"], n["staff"], n["start"])))
    for si in range(nst):
        ob = obs[si]
        if len(set(ob["divs"])) != 1:
            bad.append(("divisions", "staff %d: several quarter durations %r" % (si, ob["divs"])))
            continue
        dv = ob["divs"][0]
        exp = sorted(expected_rows(doc, den, si), key=rowkey)
        got = sorted([(n["voice"], n["staff"], n["kind"], F(n["start"], dv), F(n["end"] - n["start"], dv),
                       n["step"], a0(n["alter"]), n["octave"]) for n in ob["notes"]], key=rowkey)
        if exp != got:
            k = 0
            while k < min(len(exp), len(got)) and exp[k] == got[k]:
                k += 1
            e_ = exp[k] if k < len(exp) else None
            g_ = got[k] if k < len(got) else None
            clause = "notes"
            if e_ and g_:
                if e_[:2] != g_[:2]:
                    clause = "voice/staff"
                elif e_[3] != g_[3]:
                    clause = "onset"
                elif e_[4] != g_[4]:
                    clause = "duration"
                elif e_[5:] != g_[5:]:
                    clause = "spelling"
                elif e_[2] != g_[2]:
                    clause = "kind"
            else:
                clause = "count"
            bad.append((clause, "staff %d (divs %d): %d expected / %d loaded elements; first difference at sorted index %d: expected %s, loaded %s"
                        % (si, dv, len(exp), len(got), k, fmt_row(e_), fmt_row(g_))))
            continue
        # the written value the loaded note carries (symbolic_duration: what both writers export) denotes its duration
        for n in ob["notes"]:
            if n["kind"] != "n":
                continue
            q = sym_quarters(n.get("sym"))
            if q != F(n["end"] - n["start"], dv):
                bad.append(("symbolic", "staff %d: note %s%s%s (voice %s) at quarter %s lasts %s quarters but carries the written value %r (= %s quarters)"
                            % (si, n["step"], {None: "", 0: "n"}.get(n["alter"], "%+d" % (n["alter"] or 0)), n["octave"], n["voice"],
                               F(n["start"], dv), F(n["end"] - n["start"], dv), n.get("sym"), q)))
                break
        # ties joined: chain heads with the summed duration (objects), and the note array rows
        expj = []
        for li in range(2):
            for on, du, ps in joined(den["layers"][si][li]):
                for p in ps:
                    expj.append((layer_voice(doc, li), on, du, midi(p)))
            for e in den["layers"][si][li]:
                if e["g"]:
                    expj.append((layer_voice(doc, li), e["onset"], F(0), midi(e["p"][0])))
        expj.sort()
        gotj = sorted((n["voice"], F(n["start"], dv), F(n["dur_tied"], dv), 12 * (n["octave"] + 1) + BASE_PC[n["step"].upper()] + a0(n["alter"]))
                      for n in ob["notes"] if n["kind"] != "r" and not n["tp"])
        if expj != gotj:
            d_ = [x for x in expj if x not in gotj][:2], [x for x in gotj if x not in expj][:2]
            bad.append(("ties", "staff %d: tie chains differ: expected-only %s loaded-only %s" % (si, fmt_any(d_[0]), fmt_any(d_[1]))))
        elif "na" in ob:
            # note-array onsets are relative to the part's quarter-map origin (a pickup measure shifts it;
            # that convention belongs to C02/C05), so onsets are compared relative to the first row
            gna = sorted((r[3], r[0], r[1], r[2]) for r in ob["na"])
            sh = (min(r[0] for r in ob["na"]) - float(min(x[1] for x in expj))) if gna and expj else 0.0
            ok = len(gna) == len(expj) and all(
                a[0] == b[0] and a[3] == b[3] and abs(float(a[1]) + sh - b[1]) <= 1e-4 * (1 + abs(b[1])) and abs(float(a[2]) - b[2]) <= 1e-4 * (1 + abs(b[2]))
                for a, b in zip(expj, gna))
            if not ok:
                bad.append(("note_array", "staff %d: note array rows differ from joined notes: expected %s got %s" % (si, fmt_any(expj[:4]), gna[:4])))
        # measures at the encoded barlines
        expm = list(den["mstarts"])
        end = F(max([n["end"] for n in ob["notes"]] + [0]), dv)
        gotm = sorted(F(m[0], dv) for m in ob["measures"] if not (m[1] is not None and m[0] == m[1] and F(m[0], dv) >= den["end"]))
        if expm != gotm:
            bad.append(("measures", "staff %d: measures start at %s, barlines encoded at %s" % (si, fmt_any(gotm), fmt_any(expm))))
        # meter / key in force at every measure start; clef of the staff
        for name, chg, o_ in (("meter", den["meters"], [(F(t[0], dv), (t[1], t[2])) for t in ob["ts"]]),
                              ("key", [(t, (k[0],)) for t, k in den["keys"]], [(F(t[0], dv), (t[1],)) for t in ob["ks"]])):
            for T in den["mstarts"]:
                e_ = [v for t, v in chg if t <= T][-1]
                g_ = [v for t, v in sorted(o_, key=lambda x: x[0]) if t <= T]
                if not g_ or tuple(g_[-1]) != tuple(e_):
                    bad.append((name, "staff %d: %s in force at quarter %s is %s, declared %s" % (si, name, T, g_[-1] if g_ else None, e_)))
                    break
        if doc["key"][1] and doc["fmt"] == "mei":
            m0 = [k[2] for k in ob["ks"] if k[0] == 0]
            if not m0 or m0[0] != doc["key"][1]:
                bad.append(("key", "staff %d: key mode %r loaded, %r declared" % (si, m0, doc["key"][1])))
        c0 = [(c[1], c[2], c[3]) for c in ob["clefs"] if c[0] == 0]
        st = doc["staves"][si]
        if (st["n"], st["clef"][0], st["clef"][1]) not in c0:
            bad.append(("clef", "staff %d: clef at 0 is %s, declared %s" % (si, c0, (st["n"], st["clef"]))))
        elif len(den["clefs"][si]) > 1:
            mine = sorted([(F(c[0], dv), k_, (c[2], c[3])) for k_, c in enumerate(ob["clefs"]) if c[1] == st["n"]])
            for mi_, T in enumerate(den["mstarts"]):
                if mi_ + 1 < len(den["mstarts"]) and den["mstarts"][mi_ + 1] == T:
                    continue      # a measure without length: what is in force "at" it is decided by the next one
                e_ = [v for t, v in den["clefs"][si] if t <= T][-1]
                g_ = [v for t, _, v in mine if t <= T]
                if not g_ or tuple(g_[-1]) != tuple(e_):
                    bad.append(("clef", "staff %d: clef in force at quarter %s is %s, declared %s" % (si, T, g_[-1] if g_ else None, e_)))
                    break
    return bad


SYM_VALUE = {"long": F(1, 4), "breve": F(1, 2), "whole": 1, "half": 2, "quarter": 4, "eighth": 8, "16th": 16, "32nd": 32, "64th": 64,
             "128th": 128, "256th": 256}


def sym_quarters(sd):
    """Quarters a symbolic duration {type, dots, actual_notes, normal_notes} denotes (None when it denotes nothing)."""
    if not sd or sd.get("type") not in SYM_VALUE:
        return None
    q = F(4) / SYM_VALUE[sd["type"]] * (2 - F(1, 2 ** int(sd.get("dots") or 0)))
    a, b = sd.get("actual_notes"), sd.get("normal_notes")
    if a is not None or b is not None:
        if not a or not b:
            return None
        q = q * F(int(b), int(a))
    return q


def fmt_row(r):
    if r is None:
        return "none"
    return "(voice %s staff %s %s onset %s dur %s %s%+d%s)" % (r[0], r[1], r[2], r[3], r[4], r[5], r[6], r[7]) if r[5] else \
        "(voice %s staff %s rest onset %s dur %s)" % (r[0], r[1], r[3], r[4])


def fmt_any(x):
    return json.dumps(x, default=str)


# --------------------------------------------------------------------------
# export direction (O4): abstract document -> Part (partitura API) -> save_mei / save_kern -> reload
#
# The abstract document of the import direction is reused for the rhythm; on top of it
#   doc["voices"][si][li]   voice number of layer li of staff si (unique over the part; numbered per staff block,
#                           consecutively, or by a random permutation so that a voice number may equal the number of
#                           ANOTHER staff)
#   event["st"]             staff number per pitch (chord members individually) / of the rest: cross-staff placement
#   doc["xopts"]["order"]   order in which the objects are added to the Part (layer by layer, by time, or by time
#                           with the members of simultaneous chords of different voices interleaved)

SYM = {1: "whole", 2: "half", 4: "quarter", 8: "eighth", 16: "16th", 32: "32nd", 64: "64th", 128: "128th", 256: "256th"}

EXPORT_W = {"space": 0.0, "mrest": 0.0, "short_layer": 0.0, "grace": 0.0, "pickup": 0.2, "meter_change": 0.0,
            "key_change": 0.0, "repeat": 0.0, "ending": 0.0, "explicit_natural": 0.1, "uniform_layers": 1, "tie": 0.2, "clef_change": 0.0,
            "inner_section": 0.0, "sb": 0.0, "mid_split": 0.0}

PLAIN = {}
for _v in (1, 2, 4, 8, 16, 32, 64):
    for _d in (0, 1, 2):
        PLAIN.setdefault(den_dur(_v, _d, None), (_v, _d))


def measure_lengths(doc):
    den = denote(doc)
    ms = den["mstarts"] + [den["end"]]
    return [b - a for a, b in zip(ms, ms[1:])]


def layer_events(doc, si, li):
    """[(measure index, [(original event dict, tuplet ratio, duration)])] of one layer."""
    out = []
    meter = tuple(doc["meter"])
    for mi, m in enumerate(doc["measures"]):
        if m.get("meter"):
            meter = tuple(m["meter"])
        if li >= len(m["content"][si]):
            out.append((mi, []))
            continue
        layer = m["content"][si][li]
        orig = list(_walk(layer))
        fl = flat(layer)
        out.append((mi, [(o, f.get("t"), ev_dur(f, meter)) for o, f in zip(orig, fl)]))
    return out


def fix_ties(doc):
    """A tie flag needs a following note/chord with the same pitches in the same layer."""
    for si in range(len(doc["staves"])):
        for li in range(2):
            seq = []
            for mi, evs in layer_events(doc, si, li):
                seq += [o for o, _, _ in evs] if evs else [None]
            for a, b in zip(seq, seq[1:] + [None]):
                if a is not None and a.get("tie"):
                    if b is None or a["k"] not in ("n", "c") or b["k"] != a["k"] or b.get("p") != a.get("p"):
                        a["tie"] = False


def gen_xdoc(rng, fmt):
    w = dict(EXPORT_W)
    r = rng.random()
    if r < 0.25:
        w["tuplet"] = 0.0
    elif r < 0.45:
        w.update({"tuplet": 0.45, "chord": 0.35})
    elif r < 0.55:
        w.update({"chord": 0.5, "tuplet": 0.1})
    if rng.random() < (0.3 if fmt == "mei" else 0.06):   # kern: known finding C19-K3
        w["grace"] = 0.08
    nst = rng.choice([1, 2, 2, 2, 3, 3])
    if fmt == "kern":   # save_kern walks every class at every time point: keep the parts small
        w["small"] = 0.15
    doc = gen_doc(rng, "kern" if fmt == "kern" else "mei", w, nstaves=nst, nmeas=rng.randint(1, 3) if fmt == "kern" else None)
    for i, st in enumerate(doc["staves"]):
        st["n"] = i + 1
    decorate_export(rng, doc, fmt)
    return doc


def decorate_export(rng, doc, fmt):
    nst = len(doc["staves"])
    lens = measure_lengths(doc)
    # ---- measure rests: one rest filling the measure (where the length is a single written value)
    for mi, m in enumerate(doc["measures"]):
        for si in range(nst):
            for li in range(len(m["content"][si])):
                if lens[mi] in PLAIN and rng.random() < 0.07:
                    v, d = PLAIN[lens[mi]]
                    m["content"][si][li] = [{"k": "r", "v": v, "d": d, "mrest": True}]
    fix_ties(doc)
    # ---- voice numbers
    pairs = [(si, li) for si in range(nst) for li in range(len(doc["measures"][0]["content"][si]))]
    r = rng.random()
    if r < 0.2:
        nums = [2 * si + li + 1 for si, li in pairs]
        vmode = "block"
    elif r < 0.4:
        nums = list(range(1, len(pairs) + 1))
        vmode = "seq"
    else:
        nums = rng.sample(range(1, max(len(pairs), 4) + 1), len(pairs))
        vmode = "perm"
    voices = [[None, None] for _ in range(nst)]
    for (si, li), v in zip(pairs, nums):
        voices[si][li] = v
    doc["voices"] = voices
    order = rng.choice(["layer", "layer", "time", "interleave"])
    doc["xopts"] = {"order": order, "vmode": vmode, "cross": "none"}
    # ---- cross-staff placement
    for si, li in pairs:
        for mi, evs in layer_events(doc, si, li):
            for o, _, _ in evs:
                if o["k"] in ("n", "c"):
                    o["st"] = [si + 1] * len(o["p"])
                else:
                    o["st"] = [si + 1]
    if nst < 2:
        return
    p = rng.choice([0.0, 0.15, 0.15, 0.3, 0.5])
    if p == 0.0:
        return
    free = fmt == "mei" or rng.random() < 0.06
    if fmt == "kern" and not free and any(x not in PLAIN for x in lens):
        return
    doc["xopts"]["cross"] = "free" if free else "block"

    def other_staff(si, v):
        others = [s for s in range(1, nst + 1) if s != si + 1]
        # the shape of a voice numbered like another staff is weighted
        if v in others and rng.random() < 0.7:
            return v
        return rng.choice(others)
    for si, li in pairs:
        v = voices[si][li]
        for mi, evs in layer_events(doc, si, li):
            if not evs:
                continue
            if free:
                for o, _, _ in evs:
                    if rng.random() >= p:
                        continue
                    ot = other_staff(si, v)
                    if o["k"] == "c":
                        r = rng.random()
                        n = len(o["p"])
                        if r < 0.5:
                            o["st"][rng.randrange(n)] = ot
                        elif r < 0.7:
                            o["st"] = [ot] * n
                        else:
                            o["st"] = [ot if rng.random() < 0.5 else si + 1 for _ in range(n)]
                    elif o["k"] == "n" or rng.random() < 0.3:
                        o["st"] = [ot]
            elif rng.random() < p:
                # kern: every (voice, staff) pair is a spine that the loader places by its own durations, and save_kern
                # fills only the gap before the first / after the last element of a pair in a measure: move a prefix
                # or a suffix of the measure whose complement is a single written value; the chord at the boundary
                # may be split between the staves
                n = len(evs)
                durs = [d for _, _, d in evs]
                for _try in range(6):
                    k = rng.randrange(n)
                    suffix = rng.random() < 0.5
                    block = list(range(k, n)) if suffix else list(range(0, k + 1))
                    rest = [i for i in range(n) if i not in block]
                    bnd = block[0] if suffix else block[-1]
                    split = evs[bnd][0]["k"] == "c" and rng.random() < 0.6
                    gap_other = sum((durs[i] for i in rest), F(0))
                    home = rest + ([bnd] if split else [])
                    gap_home = sum((durs[i] for i in range(n) if i not in home), F(0))
                    if not ((gap_other and gap_other not in PLAIN) or (home and gap_home and gap_home not in PLAIN)):
                        break
                else:
                    continue
                ot = other_staff(si, v)
                for i in block:
                    o = evs[i][0]
                    if i == bnd and split:
                        j = rng.randrange(len(o["p"]))
                        o["st"] = [ot if (x != j) else si + 1 for x in range(len(o["p"]))] if rng.random() < 0.5 else \
                                  [ot if (x == j) else si + 1 for x in range(len(o["p"]))]
                    else:
                        o["st"] = [ot] * len(o["st"])


def spine_pairs(doc):
    """(voice, staff) pairs in use (notes and rests), sorted: the spines save_kern writes."""
    out = set()
    for si in range(len(doc["staves"])):
        for li in range(2):
            for mi, evs in layer_events(doc, si, li):
                for o, _, _ in evs:
                    for s in o.get("st", [si + 1]):
                        out.add((voice_of(doc, si, li), s))
    return sorted(out)


def voice_of(doc, si, li):
    return doc["voices"][si][li] if doc.get("voices") else 2 * si + li + 1


def kern_gaps_ok(doc):
    """Every (voice, staff) pair is, in every measure, either absent (measure of a single written value) or one
    run of consecutive elements with a single written value (or nothing) missing before and after it: what save_kern
    (one spine per pair, fill_rests before/after) can express."""
    lens = measure_lengths(doc)
    pairs_seen = set()
    absent = []
    for si in range(len(doc["staves"])):
        for li in range(2):
            for mi, evs in layer_events(doc, si, li):
                runs = {}
                t = F(0)
                for idx, (o, _, d) in enumerate(evs):
                    for s in set(o.get("st", [si + 1])):
                        r = runs.setdefault(s, [idx, idx, t, t + d])
                        if idx > r[1] + 1:
                            return False
                        r[1], r[3] = idx, t + d
                    t += d
                for s, r in runs.items():
                    pairs_seen.add((si, li, s))
                    for gap in (r[2], lens[mi] - r[3]):
                        if gap and gap not in PLAIN:
                            return False
                absent.append((si, li, mi, set(runs)))
    for si, li, mi, present in absent:
        for (sj, lj, s) in pairs_seen:
            if (sj, lj) == (si, li) and s not in present and lens[mi] not in PLAIN:
                return False
    return True


def kern_tied_only_pair(doc):
    """A (voice, staff) pair whose notes are all tied continuations (so the pair is not in the note array, from which
    save_kern's fill_rests takes the pairs to fill) and which is absent from some measure (known finding C19-K3)."""
    pairs = {}
    nme = len(doc["measures"])
    for si in range(len(doc["staves"])):
        for li in range(2):
            prev_tie = False
            for mi, evs in layer_events(doc, si, li):
                if not evs:
                    prev_tie = False
                for o, _, _ in evs:
                    if o["k"] in ("n", "c"):
                        for s in o.get("st", [si + 1]):
                            info = pairs.setdefault((si, li, s), [True, set()])
                            info[0] = info[0] and prev_tie
                            info[1].add(mi)
                        prev_tie = bool(o.get("tie"))
                    else:
                        prev_tie = False
    return any(only_tied and len(ms) < nme for only_tied, ms in pairs.values())


def interior_gap(doc):
    """True when some (voice, staff) pair has, inside a measure, an element after a hole: save_kern writes such a pair
    as a spine with null tokens and load_kern places every spine by its own durations (known finding C19-K2)."""
    for si in range(len(doc["staves"])):
        for li in range(2):
            for mi, evs in layer_events(doc, si, li):
                seen = {}
                for idx, (o, _, _) in enumerate(evs):
                    for s in set(o.get("st", [si + 1])):
                        if s in seen and seen[s] != idx - 1:
                            return True
                        seen[s] = idx
    return False


def build_part(doc):
    """One Part; returns (part, expected rows {id: (onset, duration, step, alter, octave, staff)})."""
    import partitura.score as S
    den = denote(doc)
    dens = [1]
    for si in range(len(doc["staves"])):
        for li in range(2):
            for e in den["layers"][si][li]:
                dens += [e["onset"].denominator, e["dur"].denominator]
    dens += [t.denominator for t in den["mstarts"]] + [den["end"].denominator]
    divs = 1
    for d in dens:
        divs = divs * d // math.gcd(divs, d)
    part = S.Part("P1", "c19", quarter_duration=divs)
    part.add(S.TimeSignature(doc["meter"][0], doc["meter"][1]), 0)
    part.add(S.KeySignature(doc["key"][0], doc["key"][1] or "major"), 0)
    for st in doc["staves"]:
        part.add(S.Clef(st["n"], st["clef"][0], st["clef"][1], 0), 0)
    rows = {}
    vmap = {}     # note id -> (staff index, layer index) of the abstract part
    k = 0
    todo = []     # (start, member index, voice, object, end)
    tuplets = []
    for si, st in enumerate(doc["staves"]):
        for li in range(2):
            prev = None
            # tuplet groups: walk the trees again to find first/last event of each group
            evs = den["layers"][si][li]
            flat_evs = []
            groups = []
            for m in doc["measures"]:
                if li >= len(m["content"][si]):
                    continue

                def walk(nodes, t):
                    for nd in nodes:
                        if "beam" in nd:
                            walk(nd["beam"], t)
                        elif "tuplet" in nd:
                            a = len(flat_evs)
                            walk(nd["items"], tuple(nd["tuplet"]))
                            groups.append((a, len(flat_evs) - 1))
                        elif nd["k"] != "s":
                            flat_evs.append((nd, t))
                walk(m["content"][si][li], None)
            assert len(flat_evs) == len(evs)
            objs = []
            voice = voice_of(doc, si, li)
            for (nd, t), e in zip(flat_evs, evs):
                sd = {"type": SYM[nd["v"]]}
                if nd.get("d"):
                    sd["dots"] = nd["d"]
                if t:
                    sd["actual_notes"], sd["normal_notes"] = t
                a, b = int(e["onset"] * divs), int((e["onset"] + e["dur"]) * divs)
                sts = nd.get("st") or [st["n"]] * max(1, len(e["p"]))
                these = []
                if e["k"] == "r":
                    k += 1
                    o_ = S.Rest(id="r%d" % k, voice=voice, staff=sts[0], symbolic_duration=dict(sd))
                    todo.append((a, 0, voice, o_, b))
                    these.append(o_)
                else:
                    for j, p in enumerate(e["p"]):
                        k += 1
                        if e["g"]:
                            o_ = S.GraceNote(grace_type="acciaccatura" if k % 2 else "appoggiatura", step=p[0], octave=p[2], alter=p[1],
                                             id="n%d" % k, voice=voice, staff=sts[j], symbolic_duration=dict(sd))
                        else:
                            o_ = S.Note(step=p[0], octave=p[2], alter=p[1], id="n%d" % k, voice=voice, staff=sts[j], symbolic_duration=dict(sd))
                        todo.append((a, j, voice, o_, b))
                        these.append(o_)
                        rows["n%d" % k] = (F(a, divs), F(b - a, divs), p[0], a0(p[1]), p[2], sts[j])
                        vmap["n%d" % k] = (si, li)
                    if prev is not None:
                        for x, y in zip(prev, these):
                            x.tie_next = y
                            y.tie_prev = x
                prev = these if (e["k"] != "r" and e["tie"]) else None
                objs.append(these)
            for a, b in groups:
                tuplets.append((objs[a][0], objs[b][0]))
    order = (doc.get("xopts") or {}).get("order", "layer")
    if order == "time":
        todo.sort(key=lambda x: (x[0], x[2], x[1]))
    elif order == "interleave":
        todo.sort(key=lambda x: (x[0], x[1], x[2]))
    for a, _, _, o_, b in todo:
        part.add(o_, a, b)
    for x, y in tuplets:
        part.add(S.Tuplet(x, y), x.start.t, y.end.t)
    for mi, t in enumerate(den["mstarts"]):
        end = den["mstarts"][mi + 1] if mi + 1 < len(den["mstarts"]) else den["end"]
        part.add(S.Measure(number=mi + 1), int(t * divs), int(end * divs))
    return part, rows, vmap


def mei_staff_attrs(text):
    """Independent reading of the exported MEI: note id -> (note@staff, chord@staff, n of the enclosing <staff>)."""
    from lxml import etree
    root = etree.fromstring(text.encode("utf-8") if isinstance(text, str) else text)
    out = {}
    for el in root.iter():
        if not isinstance(el.tag, str) or etree.QName(el).localname != "note":
            continue
        nid = el.get("{http://www.w3.org/XML/1998/namespace}id")
        par = el.getparent()
        chord = par.get("staff") if etree.QName(par).localname == "chord" else None
        anc = par
        while anc is not None and etree.QName(anc).localname != "staff":
            anc = anc.getparent()
        out[nid] = (el.get("staff"), chord, anc.get("n") if anc is not None else None)
    return out


def export_roundtrip(doc, fmt, want_obs=False):
    """Returns ('ok', expected rows, loaded rows, file text, obs) | ('err', text).
    Rows: (onset, duration, step, alter, octave, staff) of every Note object (not joined); MEI keeps the note
    ids, so the MEI rows are compared id by id, the kern rows as a multiset."""
    import partitura as pt
    import partitura.score as S
    try:
        part, rows, vmap = build_part(doc)
    except Exception as ex:
        return ("builderr", "%s: %s" % (type(ex).__name__, ex))
    name = (doc.get("xopts") or {}).get("fname") or "export"
    path = os.path.join(work_dir(), name + "." + ("mei" if fmt == "mei" else "krn"))
    try:
        if fmt == "mei":
            pt.save_mei(part, path)
        else:
            from partitura.io.exportkern import save_kern
            save_kern(part, path)
        sc = pt.load_score(path)
    except Exception as ex:
        import traceback
        tb = traceback.extract_tb(ex.__traceback__)
        return ("err", "%s: %s @ %s:%d %s" % (type(ex).__name__, str(ex)[:200], os.path.basename(tb[-1].filename), tb[-1].lineno, tb[-1].name))
    got = []
    obs = []   # (part index, id, voice, start, end, divs, staff)
    for pi, p in enumerate(sc.parts):
        dv = int(p._quarter_durations[0])
        for n in p.iter_all(S.Note, include_subclasses=True):
            got.append((n.id, F(int(n.start.t), dv), F(int(n.end.t - n.start.t), dv), n.step.upper(), a0(n.alter), n.octave, n.staff))
            if not isinstance(n, S.GraceNote):
                obs.append((pi, n.id, n.voice, int(n.start.t), int(n.end.t), dv, n.staff))
    with open(path) as f:
        text = f.read()
    return ("ok", rows, got, text, (len(sc.parts), obs, vmap))


REEXPORT_W = {"space": 0.0, "mrest": 0.0, "short_layer": 0.0, "uniform_layers": 1, "ending": 0.0, "clef_change": 0.0, "mid_split": 0.0, "tuplet": 0.35,
              "dots": 0.3,
              "meter_change": 0.15, "key_change": 0.15, "small": 0.5}


def reexport_roundtrip(doc, name="reexp"):
    """Abstract document -> file (this module's writer) -> load_score -> every loaded part through save_mei / save_kern
    -> load_score.  Returns ('err', text) or ('ok', [(part index, expected rows {id: row}, reloaded rows, exported text)]):
    the part a loader returns is a part the writers must be able to export (rows as in export_roundtrip)."""
    import partitura as pt
    import partitura.score as S
    fmt = doc["fmt"]
    path, text = write_doc(doc, name)
    out = []
    stage = "load"
    try:
        sc = pt.load_score(path)
        for pi, part in enumerate(sc.parts):
            dv = int(part._quarter_durations[0])
            rows = {}
            for k, n in enumerate(part.iter_all(S.Note, include_subclasses=True)):
                rows[n.id if (fmt == "mei" and n.id) else "x%d" % k] = (
                    F(int(n.start.t), dv), F(int(n.end.t - n.start.t), dv), n.step.upper(), a0(n.alter), n.octave, n.staff)
            p2 = os.path.join(work_dir(), "%s_part%d.%s" % (name, pi, "mei" if fmt == "mei" else "krn"))
            stage = "save"
            if fmt == "mei":
                pt.save_mei(part, p2)
            else:
                from partitura.io.exportkern import save_kern
                save_kern(part, p2)
            stage = "reload"
            sc2 = pt.load_score(p2)
            got = []
            for q in sc2.parts:
                dv2 = int(q._quarter_durations[0])
                for n in q.iter_all(S.Note, include_subclasses=True):
                    got.append((n.id, F(int(n.start.t), dv2), F(int(n.end.t - n.start.t), dv2), n.step.upper(), a0(n.alter), n.octave, n.staff))
            with open(p2) as f:
                out.append((pi, rows, got, f.read()))
            stage = "load"
    except Exception as ex:
        import traceback
        tb = traceback.extract_tb(ex.__traceback__)
        return ("err", "%s of the loaded part raised %s: %s @ %s:%d %s" % (stage, type(ex).__name__, str(ex)[:200], os.path.basename(tb[-1].filename),
                                                                          tb[-1].lineno, tb[-1].name))
    return ("ok", out)


def reexport_bad(doc, name="reexp"):
    """First difference of the re-export round trip: None | (what, detail dict)."""
    r = reexport_roundtrip(doc, name)
    if r[0] == "err":
        return ("a %s document loaded by load_score could not be exported and re-loaded: %s" % (doc["fmt"], r[1]), {"error": r[1], "clauses": ["error"]})
    for pi, rows, got, text in r[1]:
        fmt = doc["fmt"] if (doc["fmt"] == "mei" and all(not k.startswith("x") for k in rows)) else "kern"
        bad = export_diff(fmt, rows, got)
        if bad:
            i0, e0, g0 = bad[0]
            return ("%s document -> load_score -> save_%s of part %d -> load_score changed notes [%s]: %d before / %d after, %d differ; first: %s before %s, after %s"
                    % (doc["fmt"], doc["fmt"], pi, ",".join(diff_clause(bad)), len(rows), len(got), len(bad), "note %s" % i0 if i0 else "",
                       fmt_xrow(e0), "; ".join(fmt_xrow(x) for x in (g0 or [])) or "none"),
                    {"clauses": diff_clause(bad), "part": pi, "file": text,
                     "differences": [[i_, fmt_xrow(e_), [fmt_xrow(x) for x in (g_ or [])]] for i_, e_, g_ in bad[:6]]})
    return None


def export_diff(fmt, rows, got):
    """Direct oracle of the export clause: list of differences (empty = every note kept onset, duration, pitch, staff)."""
    bad = []
    if fmt == "mei" and got and not any(r[0] in rows for r in got):
        fmt = "kern"    # no id survived: compare as a multiset (ids are not an observable of the property)
    if fmt == "mei":
        g = {}
        for r in got:
            g.setdefault(r[0], []).append(r[1:])
        for i in sorted(rows, key=lambda x: int(x[1:])):
            if g.get(i) != [rows[i]]:
                bad.append((i, rows[i], g.get(i)))
        for i in sorted(set(g) - set(rows)):
            bad.append((i, None, g[i]))
    else:
        a = sorted(rows.values())
        b = sorted(r[1:] for r in got)
        if a != b:
            from collections import Counter
            ca, cb = Counter(a), Counter(b)
            only_a, only_b = sorted((ca - cb).elements()), sorted((cb - ca).elements())
            for x in list(only_a):
                # pair with the loaded row that agrees on most fields (pitch first), to name what changed
                cands = [y for y in only_b if y[2:5] == x[2:5]] or []
                if cands:
                    y = max(cands, key=lambda y: sum(1 for j in (0, 1, 5) if x[j] == y[j]))
                    only_b.remove(y)
                    only_a.remove(x)
                    bad.append((None, x, [y]))
            for x in only_a:
                bad.append((None, x, None))
            for x in only_b:
                bad.append((None, None, [x]))
    return bad


def diff_clause(bad):
    """Which of onset / duration / pitch / staff differs in the first difference."""
    for i, e, g in bad:
        if e is not None and g and len(g) == 1:
            g = g[0]
            names = ["onset", "duration", "pitch", "pitch", "pitch", "staff"]
            return sorted({names[j] for j in range(6) if e[j] != g[j]})
    return ["notes"]


def fmt_xrow(r):
    if r is None:
        return "none"
    return "(onset %s dur %s %s%+d%s staff %s)" % (r[0], r[1], r[2], r[3], r[4], r[5])


def xfeatures(doc):
    f = set()
    f.add("staves:%d" % len(doc["staves"]))
    xo = doc.get("xopts") or {}
    f.add("order=%s" % xo.get("order"))
    f.add("voices=%s" % xo.get("vmode"))
    f.add("cross=%s" % xo.get("cross"))
    if doc["measures"][0].get("pickup"):
        f.add("pickup")
    nums = {st["n"] for st in doc["staves"]}
    for si in range(len(doc["staves"])):
        for li in range(2):
            v = voice_of(doc, si, li)
            for mi, evs in layer_events(doc, si, li):
                for o, t, _ in evs:
                    if o.get("mrest"):
                        f.add("measure_rest")
                    if o.get("g"):
                        f.add("grace")
                    if o["k"] == "r":
                        continue
                    sts = o.get("st") or [si + 1]
                    if o.get("tie"):
                        f.add("tie")
                    if o.get("d"):
                        f.add("dotted")
                    if t:
                        f.add("tuplet")
                    if o["k"] == "c":
                        f.add("chord")
                        if len(set(sts)) > 1:
                            f.add("chord_members_on_different_staves")
                    for s in sts:
                        if s != si + 1:
                            f.add("cross_staff_%s" % ("chord_member" if o["k"] == "c" else "note"))
                            if t:
                                f.add("cross_staff_in_tuplet")
                            if s == v:
                                f.add("cross_staff_%s_on_staff_numbered_like_its_voice" % ("chord_member" if o["k"] == "c" else "note"))
            if v in nums and v != si + 1:
                f.add("voice_numbered_like_another_staff")
            if v == si + 1:
                f.add("voice_numbered_like_its_staff")
    if interior_gap(doc):
        f.add("interior_gap_in_voice_staff_pair")
    return f


# --------------------------------------------------------------------------
# Coq terms


def c_event(e):
    t = e.get("t") or (1, 1)
    ps = clist([ctuple([cz(STEPS.index(p[0])), cz(a0(p[1])), cz(p[2])]) for p in e.get("p", [])])
    return "(Ev %s %s %d%%nat %s %s %s %s %s)" % (
        cz(KIND_CODE[e["k"]]), cz(e.get("v", 1)), e.get("d", 0), cz(t[0]), cz(t[1]),
        cbool(e.get("g")), cbool(e.get("tie")), ps)


def c_doc(doc):
    meter = tuple(doc["meter"])
    ms = []
    for m in doc["measures"]:
        if m.get("meter"):
            meter = tuple(m["meter"])
        staves = clist([clist([clist([c_event(e) for e in flat(layer)]) for layer in st]) for st in m["content"]])
        ms.append("(Me %s %s)" % (cq(F(4 * meter[0], meter[1])), staves))
    return clist(ms)


def c_observed(doc, obs):
    """Observed per staff: (divs, layers [[(onset, dur, ticks)]], joined [[(onset, dur)]], measure starts)."""
    den = denote(doc)
    out = []
    for si, ob in enumerate(obs):
        dv = ob["divs"][0]
        lays, joins = [], []
        for li in range(2):
            ns = [n for n in ob["notes"] if n["voice"] == layer_voice(doc, li)]
            rows = sorted({(n["start"], 0 if n["kind"] == "g" else 1, n["end"]) for n in ns})
            lays.append(clist([ctuple([cq(F(a, dv)), cq(F(b - a, dv)), cz(b - a)]) for a, _, b in rows]))
            jr = sorted({(n["start"], n["dur_tied"]) for n in ns if n["kind"] == "n" and not n["tp"]})
            joins.append(clist([ctuple([cq(F(a, dv)), cq(F(d, dv))]) for a, d in jr]))
        mst = sorted(F(m[0], dv) for m in ob["measures"] if not (m[1] is not None and m[0] == m[1] and F(m[0], dv) >= den["end"]))
        out.append(ctuple([cz(dv), clist(lays), clist(joins), clist([cq(x) for x in mst])]))
    return clist(out)


def c_case(doc, obs):
    return ctuple([cbool(doc["fmt"] == "mei"), c_doc(doc), c_observed(doc, obs)])


def c_meirun_case(doc, obs):
    """MEI document as the loader's traversal meets it (Model/C19_mei.v): section items in document order (meter /
    key changes as items, NOT resolved into measure lengths), layers with their @n, elements with @dur.ppq where the
    file carries it; observed per part: signatures, measure starts and per VOICE NUMBER the (start, end) ticks.
    Returns None when the parts were given different divisions (the model has one)."""
    o = doc["opts"]
    dvs = {ob["divs"][0] for ob in obs}
    if len(dvs) != 1:
        return None
    dv = dvs.pop()
    ppq = o.get("ppq_value") if o.get("ppq") == "declared" else None
    items = []
    for m in doc["measures"]:
        if m.get("meter"):
            items.append("(IMeter %s %s)" % (cz(m["meter"][0]), cz(m["meter"][1])))
        if m.get("key"):
            items.append("(IKey %s)" % cz(m["key"][0]))
        staves = []
        for st in m["content"]:
            layers = []
            for li, layer in enumerate(st):
                n = "(Some %s)" % cz(o["layer_ns"][li]) if o.get("layer_n") else "(@None Z)"
                els = []
                for e in flat(layer):
                    p = "(@None Z)"
                    if ppq and not e.get("g") and e["k"] != "m":
                        p = "(Some %s)" % cz(int(ppq * den_dur(e["v"], e.get("d", 0), e.get("t"))))
                    els.append("(Mel %s %s)" % (c_event(e), p))
                layers.append(ctuple([n, clist(els)]))
            staves.append(clist(layers))
        items.append("(IMeasure %s)" % clist(staves))
    init = clist([ctuple([cz(doc["meter"][0]), cz(doc["meter"][1]), cz(doc["key"][0])]) for _ in doc["staves"]])
    parts = []
    for ob in obs:
        voices = {}
        for n in ob["notes"]:
            voices.setdefault(n["voice"], set()).add((n["start"], 0 if n["kind"] == "g" else 1, n["end"]))
        vs = clist([ctuple([cz(v), clist([ctuple([cz(a), cz(b)]) for a, _, b in sorted(voices[v])])]) for v in sorted(voices)])
        parts.append(ctuple([clist([ctuple([cz(t[0]), cz(t[1]), cz(t[2])]) for t in ob["ts"]]),
                             clist([ctuple([cz(k[0]), cz(k[1])]) for k in ob["ks"]]),
                             clist([cz(x) for x in sorted(m[0] for m in ob["measures"])]), vs]))
    return ctuple([cz(dv), init, clist(items), clist(parts)])


KERN_ACC_CODE = {None: 0, 1: 1, 2: 2, -1: 3, -2: 4, 0: 5}


# --------------------------------------------------------------------------
# features / shrinking / known findings


def features(doc):
    f = set()
    f.add("staves:%d" % len(doc["staves"]))
    f.add("measures:%d" % len(doc["measures"]))
    for m in doc["measures"]:
        for k in ("meter", "key", "left", "right", "ending", "pickup", "sb"):
            if m.get(k):
                f.add(k if k not in ("meter", "key") else k + "_change")
        if m.get("clefs"):
            f.add("clef_change")
        for st in m["content"]:
            if len(st) > 1:
                f.add("two_layers")
            for layer in st:
                for nd in layer:
                    if "beam" in nd:
                        f.add("beam")
                        if any("tuplet" in x for x in nd["beam"]):
                            f.add("beam>tuplet")
                            if len(nd["beam"]) > 1:
                                f.add("beam>(tuplet,note)")
                    if "tuplet" in nd:
                        if any("beam" in x for x in nd["items"]):
                            f.add("tuplet>beam")
                            if len(nd["items"]) > 1:
                                f.add("tuplet>(beam,note)")
                        if any(x.get("k") == "c" for x in _walk(nd["items"])):
                            f.add("tuplet>chord")
                for e in flat(layer):
                    if e["k"] == "s" and doc["fmt"] == "kern":
                        f.add("sub_spine_split_or_merged_inside_a_measure")
                        continue
                    f.add({"n": "note", "c": "chord", "r": "rest", "m": "mrest", "s": "space"}[e["k"]])
                    if e.get("d"):
                        f.add("dots%d" % e["d"])
                    if e.get("t"):
                        f.add("tuplet%d:%d" % e["t"])
                        if e.get("d"):
                            f.add("dotted_tuplet")
                    if e.get("tie"):
                        f.add("tie")
                        if e["k"] == "c":
                            f.add("chord_tie")
                    if e.get("g"):
                        f.add("grace")
    # histories: what happened in the same staff before (state the loaders carry from measure to measure)
    meter = tuple(doc["meter"])
    seen_mrest = [set() for _ in doc["staves"]]     # measure lengths under which the staff already had a measure rest
    changed = False
    for mi, m in enumerate(doc["measures"]):
        if m.get("meter"):
            if F(4 * m["meter"][0], m["meter"][1]) != F(4 * meter[0], meter[1]):
                f.add("meter_change_changes_measure_length")
                changed = True
            else:
                f.add("meter_change_keeps_measure_length")
            meter = tuple(m["meter"])
        ln = F(4 * meter[0], meter[1])
        for si, st in enumerate(m["content"]):
            if any(e["k"] == "m" for layer in st for e in flat(layer)):
                if changed:
                    f.add("mrest_after_meter_change")
                if seen_mrest[si] - {ln}:
                    f.add("mrests_under_meters_of_different_length_in_one_staff")
                seen_mrest[si].add(ln)
            if mi > 0 and len(st) != len(doc["measures"][mi - 1]["content"][si]):
                f.add("number_of_layers_changes_between_measures")
            for layer in st:
                fl = flat(layer)
                if fl and fl[0].get("g"):
                    f.add("grace_first_in_measure")
        for si, st in enumerate(m["content"]):
            for layer in st:
                fl = [e for e in flat(layer) if e["k"] in ("n", "c") and not e.get("g")]
                if fl and fl[-1].get("tie") and mi + 1 < len(doc["measures"]):
                    f.add("tie_across_barline")
    for k, v in doc["opts"].items():
        if isinstance(v, (str, bool)) and k not in ("ext",):
            f.add("%s=%s" % (k, v))
    if doc["opts"].get("inner_section"):
        f.add("nested_section")
        if any(m.get("meter") or m.get("key") for m in doc["measures"][doc["opts"]["inner_section"][0]:doc["opts"]["inner_section"][1] + 1]):
            f.add("meter_or_key_change_inside_nested_section")
    if doc["fmt"] == "mei" and doc["opts"].get("layer_n") and doc["opts"].get("layer_ns") not in (None, [1, 2]):
        f.add("layer_n_differs_from_position")
    if doc["fmt"] == "kern" and [st["n"] for st in doc["staves"]] != list(range(1, len(doc["staves"]) + 1)):
        f.add("staff_numbers_not_in_spine_order")
    return f


def has_grace(doc):
    return any(e.get("g") for m in doc.get("measures", []) for st in m["content"] for layer in st for e in _walk(layer))


def has_tied_chord(doc):
    return "chord_tie" in features(doc)


def check_import(doc, loader="load_score", name="doc", keep=None):
    """Write, load, compare: returns (status, obs_or_text, bad list)."""
    path, text = write_doc(doc, name)
    st, obs = load(path, loader, keep)
    if st == "err":
        return "err", obs, [("load", obs)], text
    if doc["opts"].get("same_part"):
        if len(obs) != 1:
            return "ok", obs, [("parts", "all spines carry *part1: expected one part, loaded %d" % len(obs))], text
        obs = split_same_part(doc, obs[0])
    return "ok", obs, compare(doc, obs), text


def split_same_part(doc, ob):
    """kern spines of ONE part: the loader numbers the voices across all sub-spines from left to right; the notes
    are regrouped per spine by these voice numbers (and renumbered from 1) so that the per-staff comparison applies;
    a note with a voice number outside every spine's range is reported."""
    out = []
    off = 0
    claimed = set()
    for si in range(len(doc["staves"])):
        width = max(len(m["content"][si]) for m in doc["measures"])
        o2 = dict(ob)
        o2["notes"] = []
        for i, n in enumerate(ob["notes"]):
            if n["voice"] is not None and off < n["voice"] <= off + width:
                n2 = dict(n)
                n2["voice"] = n["voice"] - off
                o2["notes"].append(n2)
                claimed.add(i)
        o2.pop("na", None)   # the note array of the whole part is not split
        out.append(o2)
        off += width
    stray = [n for i, n in enumerate(ob["notes"]) if i not in claimed]
    if stray:
        out[0]["stray"] = stray
    return out


def shrink_import(doc, loader, clauses, fname="shrink", fails=None):
    """ddmin over measures, then staves (kern documents keep whole measures: spines must stay aligned)."""
    import copy

    def fails_import(d):
        try:
            st, _, bad, _ = check_import(d, loader, fname)
        except Exception:
            return False
        return bool(bad) and bool({b[0] for b in bad} & clauses)
    fails = fails or fails_import

    # meter / key in force in every measure: a dropped measure hands its change on to the next one kept (the first
    # kept measure's meter / key becomes the document's initial one), so that every kept measure keeps its meaning
    force = []
    meter, key = list(doc["meter"]), list(doc["key"])
    for m in doc["measures"]:
        meter = list(m["meter"]) if m.get("meter") else meter
        key = list(m["key"]) if m.get("key") else key
        force.append((list(meter), list(key)))

    def with_measures(idx):
        d = copy.deepcopy(doc)
        d["measures"] = []
        if len(idx) != len(doc["measures"]):
            d["opts"].pop("inner_section", None)
        meter = key = None
        for k_, i in enumerate(idx):
            m = copy.deepcopy(doc["measures"][i])
            m.pop("meter", None)
            m.pop("key", None)
            fm, fk = force[i]
            if k_ == 0:
                d["meter"], d["key"] = list(fm), list(fk)
                if m.get("pickup") and i != 0:
                    m.pop("pickup")
            else:
                if fm != meter:
                    m["meter"] = list(fm)
                if fk != key:
                    m["key"] = list(fk)
            meter, key = fm, fk
            d["measures"].append(m)
        return d
    cur = doc
    if len(doc["measures"]) > 1 and not any(m.get("ending") for m in doc["measures"]):
        idx = core.ddmin(list(range(len(doc["measures"]))), lambda sub: fails(with_measures(sub)))
        cur = with_measures(idx)
    while len(cur["staves"]) > 1:
        for si in range(len(cur["staves"])):
            d = copy.deepcopy(cur)
            del d["staves"][si]
            for m in d["measures"]:
                del m["content"][si]
            if fails(d):
                cur = d
                break
        else:
            break
    if cur["fmt"] == "mei":
        for mi in range(len(cur["measures"])):
            for si in range(len(cur["staves"])):
                for li in range(len(cur["measures"][mi]["content"][si])):
                    nodes = cur["measures"][mi]["content"][si][li]
                    if len(nodes) < 2:
                        continue

                    def sub_doc(sub):
                        d = copy.deepcopy(cur)
                        d["measures"][mi]["content"][si][li] = copy.deepcopy(sub)
                        for m in d["measures"]:  # ties may lose their partner: drop them unless still adjacent
                            pass
                        return d
                    if any(e.get("tie") for m in cur["measures"] for st in m["content"] for l in st for e in flat(l)):
                        continue
                    sub = core.ddmin(nodes, lambda s_: fails(sub_doc(s_)))
                    cur = sub_doc(sub)
    return cur


def register_matchers(ctx):
    # C19-K1: kern ties whose notes are chord members are not joined (importkern.py documents
    # "Case of note to chord tie or chord to note tie is not handled yet"; chord members are parsed with add=False)
    def _hist_k1(r):
        # the same finding met by the history stream: the failing operation is the LOAD of a kern document that holds a
        # tied chord, and only the tie clauses fail (gen_history draws its documents with DEFAULT_W's kern_chord_tie = 0.02)
        op = r.get("failing_op") or []
        if r.get("dir") != "history" or len(op) < 2 or op[0] != "load" or not isinstance(op[1], int) or not 0 <= op[1] < len(r.get("docs", [])):
            return False
        d = r["docs"][op[1]]
        return (d.get("fmt") == "kern" and set(r.get("clauses", [])) <= {"ties", "note_array"} and bool(r.get("clauses"))
                and has_tied_chord(d))
    ctx.matchers["C19-K1"] = lambda r: (
        (r.get("dir") == "import" and r.get("doc", {}).get("fmt") == "kern"
         and set(r.get("clauses", [])) <= {"ties", "note_array"} and bool(r.get("clauses"))
         and has_tied_chord(r["doc"])) or _hist_k1(r))
    # C19-K3: save_kern writes a grace note into the token of the note it precedes (a chord), and marks acciaccaturas
    # with 'p', which load_kern does not read as a grace note
    ctx.matchers["C19-K3"] = lambda r: (
        r.get("dir") == "export" and r.get("fmt") == "kern" and has_grace(r.get("doc", {})))
    # C19-K2: save_kern writes one spine per (voice, staff) pair and fills only the time before the first / after the
    # last element of a pair in a measure, with one rest: a pair with a hole inside a measure, or with missing time
    # that is not a single written value, cannot be written (the part shape decides, not the failure text)
    ctx.matchers["C19-K2"] = lambda r: (
        r.get("dir") == "export" and r.get("fmt") == "kern" and "voices" in r.get("doc", {})
        and not kern_gaps_ok(r["doc"]))


# --------------------------------------------------------------------------
# the check


def gen():
    """Reflect the three constant tables the MEI loader decodes attributes with (as importmei sees them) into
    coq/Gen/C19_tables.v: Model/C19_attr.v looks values up in them, Proofs/C19_attr.v re-proves the table theorems
    on them at every run."""
    import importlib
    mod = importlib.import_module("partitura.io.importmei")

    def table(name):
        t = getattr(mod, name, None)
        if t is None:
            import partitura.utils.globals as g_
            t = getattr(g_, name)
        return t
    L = ["(* GENERATED by harness/props/c19.py gen() from the live partitura.io.importmei namespace -- do not edit *)",
         "From Coq Require Import ZArith QArith List String.", "Import ListNotations.", "Open Scope Z_scope.", ""]

    def ok_str(x):
        return isinstance(x, str) and all(32 <= ord(c) < 127 for c in x)
    m2s = [(k, v) for k, v in table("MEI_DURS_TO_SYMBOLIC").items() if ok_str(k) and ok_str(v)]
    L.append("Definition mei_durs_to_symbolic : list (string * string) := %s." % core.clist(
        [core.ctuple([core.cstr(k), core.cstr(v)]) for k, v in m2s]))
    s2i = [(k, Fraction(v).limit_denominator(1 << 20)) for k, v in table("SYMBOLIC_TO_INT_DURS").items()
           if ok_str(k) and isinstance(v, (int, float)) and not isinstance(v, bool)]
    L.append("Definition symbolic_to_int_durs : list (string * Q) := %s." % core.clist(
        [core.ctuple([core.cstr(k), core.cq(v)]) for k, v in s2i]))
    s2a = [(k, v) for k, v in table("SIGN_TO_ALTER").items() if ok_str(k) and (v is None or (isinstance(v, int) and not isinstance(v, bool)))]
    L.append("Definition sign_to_alter : list (string * option Z) := %s." % core.clist(
        [core.ctuple([core.cstr(k), core.copt(v, core.cz)]) for k, v in s2a]))
    core.write_gen("C19_tables", "\n".join(L) + "\n")
    return None


def run(ctx):
    ctx.rule = ("IMPORT: abstract documents (1-3 staves/spines x 1-2 layers x 1-5 measures; notes, chords, rests, measure rests, spaces, "
                "beams, tuplets 3:2 5:4 6:4 7:4 incl. dotted values inside tuplets and the nestings tuplet>beam>note, beam>tuplet>note, "
                "tuplet>chord>note, values whole..64th (128th/256th filler rests), 0-2 dots, ties incl. across barlines and on chords, "
                "grace notes, meter/key/clef changes, pickups, repeats, endings, nested sections, system breaks, meter/key/clef as attributes "
                "or children of staffDef/scoreDef; kern: spines, *^/*v sub-spines, reciprocal tuplet values, tandem clef/meter/key/staff lines) "
                "drawn from VERIF_SEED, written by this module's own MEI/kern writers, loaded by load_score/load_mei/load_kern (file names "
                "with several dots included); 12% of the documents are 'histories' (3-5 measures, meter change 0.55 / key change 0.35 / clef "
                "change 0.3 per measure, MEI measure rest 0.45 per layer: measure rests before and after a change of measure length in one "
                "staff).  Distinct non-trivial = distinct document text whose document has at least one of: dots, tuplet, tie, grace, chord, "
                "two layers, >1 staff, meter/key change.  "
                "EXPORT: parts built from abstract documents with 1-3 staves, 1-2 voices per staff numbered per staff block / "
                "consecutively / by a random permutation of 1..max(4, #voices) (so that a voice number may equal the number of another "
                "staff), notes and individual CHORD MEMBERS placed on another staff (MEI: each element with probability 0/0.15/0.3/0.5 per "
                "part, 70% onto the staff numbered like the voice when there is one; kern: a prefix or suffix of a measure, the chord "
                "at the boundary possibly split, such that each (voice, staff) pair stays one run with a single written value missing "
                "before/after; 6% of the kern parts are placed freely -> known finding C19-K2), ties, dots, tuplets (also crossing "
                "staves), grace notes (30% of the MEI parts; 6% of the kern parts -> known finding C19-K3), measure-filling rests, "
                "pickups, objects added layer by layer / by time / with simultaneous chords of different "
                "voices interleaved; save_mei / save_kern, load_score; every Note compared on (onset, duration, step, alter, octave, "
                "staff): MEI id by id (ids survive), kern as a multiset.  Distinct non-trivial export case = distinct exported file with > 1 note.  "
                "RE-EXPORT: abstract document (gap-free voices, tuplet 0.35, 30% with tuplet 0.55 so that tuplet values precede plain values "
                "of the same base) -> file -> load_score -> save_mei / save_kern of every loaded part -> load_score, every Note compared as in "
                "EXPORT; all streams run in one process, no module state is reset between documents.  "
                "TOKENS: every distinct kern note token of the generated documents (sample) plus tokens drawn from a grammar (decorations, "
                "reciprocal values of the supported tuplets, 0-3 dots, letters x 1-5, accidentals, pitch before duration, no duration), each "
                "probed through load_kern in a file of its own; tokens save_kern writes for notes of drawn attributes.  "
                "DISPATCH: file names drawn from a grammar (0-2 directories with dots / other readers' extensions, hidden names, only dots, "
                "several dots, upper-case extensions, unknown extensions), the reader observed by its outcome on an MEI and a kern file of "
                "known content written under the name.  "
                "ATTRIBUTE PROBES: MEI layers of 10 probes (a note or a chord of 2-3 members; @dur long..256, @dots absent/0-3, 0-3 beams with "
                "a tuplet at a random place of the chain, @grace, @dur.ppq, @staff on note / chord / member, the accidental written at 0-4 of "
                "@accid / @accid.ges / <accid> child @accid / @accid.ges, an <artic> before the child, spaces between probes) + single-probe "
                "documents of error classes; every loaded note compared with what its attributes denote and with Model/C19_attr.v; "
                "distinct non-trivial = distinct probe text.")
    ctx.trusted = ["Coq 8.16.1 kernel incl. vm_compute",
                   "harness/props/c19.py: generator, the independent MEI/kern writers, denotation transcription (oracle), observer, "
                   "the part builder of the export direction and its lxml reading of @staff in exported files, the reading of a written "
                   "kern document as columns of cells (kern_columns), the token probe and dispatch observers",
                   "lxml / numpy text parsing inside partitura is exercised, not modelled"]
    ctx.assumptions = ["MEI without verovio (the use_verovio path is taken only when verovio imports; it does not here)",
                       "note-array onsets compared relative to the first row (pickup origin convention belongs to C02/C05), f4 tolerance 1e-4",
                       "kern float arithmetic (isclose/ceil) is modelled in exact rationals; a float artefact would show as a correspondence failure "
                       "(token probes use the reciprocal values of the supported tuplets only: others make the loader's float arithmetic inexact)",
                       "a zero-length measure after the final kern barline is ignored",
                       "export / re-export: parts are gap-free per voice and every symbolic duration matches its tick duration (the writers take "
                       "the written value from symbolic_duration); rests are not compared (the property names notes); a re-exported part whose "
                       "tick positions exceed int32 (huge lcm of kern divisions) is skipped and counted (Part.note_array, not the writers)",
                       "the clause [symbolic] (a loaded note's symbolic duration denotes its duration) is what 'exporting a part' rests on: "
                       "both writers take the written value from it",
                       "dispatch: which of the OTHER readers runs for a name, or none, is not compared (classes 0 and 3 are merged)"]
    register_matchers(ctx)
    gen()
    ok, why = ctx.coq_props(expect_min=66)
    quick = ctx.tier == "quick"
    n_docs = {"mei": 100 if quick else 2600, "kern": 100 if quick else 2600}
    n_exp = {"mei": 60 if quick else 1500, "kern": 26 if quick else 550}   # save_kern is ~5x slower than save_mei
    n_viol = 0
    coq_cases, coq_docs = [], []
    ppq_cases = []
    pitch_cases = {}
    spine_cases, spine_info = [], []
    run_cases, run_docs = [], []
    prun_cases, prun_docs = [], []
    corpus = load_corpus()
    for fmt in ("mei", "kern"):
        todo = [d for d in corpus if d["fmt"] == fmt and not d.get("xfmt")]
        ctx.count("corpus:%s" % fmt, len(todo))
        for i in range(n_docs[fmt]):
            w = {}
            r = ctx.rng.random()
            if r < 0.15:   # stress rhythm: many tuplets and dots
                w = {"tuplet": 0.5, "dots": 0.5, "inner_dots": 0.8}
            elif r < 0.25:  # plain documents (bisecting aid: only basic features)
                w = {"tuplet": 0, "grace": 0, "space": 0, "mrest": 0, "short_layer": 0, "tie": 0.05}
            elif r < 0.35:
                w = {"tie": 0.5, "grace": 0.15}
            elif r < 0.47:
                # history of declarations: several measures, frequent meter / key changes, and (MEI) measure rests before
                # and after them in the same staff -- what a measure rest lasts is the state the loader carries along
                w = {"meter_change": 0.55, "key_change": 0.35, "clef_change": 0.3, "mrest": 0.45, "tuplet": 0.1, "two_layers": 0.25, "pickup": 0.1,
                     "inner_section": 0.5}
                todo.append(gen_doc(ctx.rng, fmt, w, nmeas=ctx.rng.randint(3, 5), nstaves=ctx.rng.choice([1, 2, 2])))
                continue
            todo.append(gen_doc(ctx.rng, fmt, w))
        for di, doc in enumerate(todo):
            loader = "load_score" if (di % 4) else ("load_mei" if fmt == "mei" else "load_kern")
            fname = DOTTED_NAMES[fmt][(di // 3) % len(DOTTED_NAMES[fmt])] if di % 3 == 1 else "doc"
            if fname != "doc":
                ctx.count("%s:file_name_with_several_dots" % fmt)
            st, obs, bad, text = check_import(doc, loader, fname)
            ctx.evaluations += 1
            fs = features(doc)
            for f_ in fs:
                ctx.count("%s:%s" % (fmt, f_))
            ctx.count("%s:loader=%s" % (fmt, loader))
            if fs & {"dots1", "dots2", "tie", "grace", "chord", "two_layers", "staves:2", "staves:3", "meter_change", "key_change"} or any(x.startswith("tuplet") for x in fs):
                ctx.nontrivial(text)
            if di < 1:
                ctx.sample({"format": fmt, "file": text[:1500], "loaded": "ok" if st == "ok" else obs})
            if bad:
                clauses = {b[0] for b in bad}
                small = doc
                if n_viol < 6:
                    try:
                        small = shrink_import(doc, loader, clauses, fname)
                    except Exception:
                        small = doc
                st2, obs2, bad2, text2 = check_import(small, loader, fname)
                if not bad2:
                    small, bad2, text2 = doc, bad, text
                res = ctx.violation("%s document loaded by %s differs from what its notation denotes [%s]: %s"
                                    % (fmt, loader, ",".join(sorted({b[0] for b in bad2})), bad2[0][1][:400]),
                                    {"dir": "import", "doc": small, "loader": loader, "clauses": sorted({b[0] for b in bad2}),
                                     "file_name": fname + doc["opts"]["ext"], "text": text2, "mismatch": [b[1] for b in bad2[:5]]})
                if res != "known":
                    n_viol += 1
                if n_viol >= 12:
                    break
                continue
            coq_cases.append(c_case(doc, obs))
            coq_docs.append((doc, loader, text))
            if fmt == "mei":
                c_ = c_meirun_case(doc, obs)
                if c_ is None:
                    ctx.count("mei:parts_with_different_divisions(not_in_traversal_model)")
                else:
                    run_cases.append(c_)
                    run_docs.append((doc, loader, text))
            if fmt == "mei" and doc["opts"].get("ppq") != "declared":
                evs = [e for m in doc["measures"] for st_ in m["content"] for layer in st_ for e in flat(layer) if e["k"] != "m"]
                units = [doc["meter"][1]] + [m["meter"][1] for m in doc["measures"] if m.get("meter")]
                ppq_cases.append(ctuple([clist([cz(u) for u in units]), clist([c_event(e) for e in evs]), cz(obs[0]["divs"][0])]))
            if fmt == "kern":
                for c_ in c_partrun_cases(doc, obs, text):
                    prun_cases.append(c_)
                    prun_docs.append((doc, loader, text))
                for si_, lines_ in enumerate(kern_spine_tokens(text, len(doc["staves"]))):
                    nv_ = max([n["voice"] for n in obs[si_]["notes"]] + [0])
                    spine_cases.append(ctuple([clist([clist([cz(c) for c in l_]) for l_ in lines_]), cz(nv_)]))
                    spine_info.append((doc, loader, text, si_))
                for m in doc["measures"]:
                    for st_ in m["content"]:
                        for layer in st_:
                            for e in flat(layer):
                                for p in e.get("p", []):
                                    letters = kern_pitch([p[0], None, p[2]])
                                    pitch_cases[(letters, KERN_ACC_CODE[p[1]])] = (STEPS.index(p[0]), a0(p[1]), p[2])
    # ---- correspondence with the Coq model
    ctx.log("import direction: %d documents loaded and compared with the denotation" % len(coq_cases))
    if ok:
        try:
            failing = ctx.coq_failing("doc", "From PV Require Import Model.C19.", "", coq_cases,
                                      "fun c => match c with (mei, ms, st) => check_doc mei ms st end", shard=60 if quick else 150)
        except RuntimeError as ex:
            failing = None
            ctx.obligation("correspondence: Model.C19 denotation = loaded score", False, str(ex)[-800:])
            ctx.violation("the Coq model could not be evaluated on the generated documents: " + str(ex)[-600:], {"coq": str(ex)[-1500:]}, no_input=True)
        if failing is not None:
            ctx.obligation("correspondence: Model.C19 denotation (onsets, durations, exact ticks by the MEI/kern formulas, joined ties, "
                           "measure starts) = loaded score on %d documents" % len(coq_cases), not failing, failing[:5])
            for i in failing[:5]:
                doc, loader, text = coq_docs[i]
                ctx.violation("Coq model and loaded score disagree on a document the Python oracle accepts (model drift or loader change)",
                              {"dir": "import", "doc": doc, "loader": loader, "clauses": ["model"], "text": text})
        ctx.log("coq: doc stream done")
        if run_cases:
            f5 = ctx.coq_failing("meirun", "From PV Require Import Model.C19 Model.C19_mei.", "", run_cases, "check_mei_run", shard=40 if quick else 100)
            ctx.obligation("correspondence: Model.C19_mei.mei_load (the loader's traversal in ticks: section items in document order, "
                           "meter / key changes as state, measure rests from the part's last time signature, position from the order "
                           "within the layer, measure end = max over layers and parts, voice = layer@n) = ticks of every element per "
                           "voice number, measure starts, time and key signatures of every part, on %d MEI documents" % len(run_cases),
                           not f5, f5[:5])
            for i in f5[:3]:
                doc, loader, text = run_docs[i]
                ctx.violation("Coq model of the MEI traversal and the loaded score disagree on a document the Python oracle accepts "
                              "(model drift or loader change)",
                              {"dir": "import", "doc": doc, "loader": loader, "clauses": ["model"], "text": text})
        ctx.log("coq: meirun stream done")
        if ppq_cases:
            f2 = ctx.coq_failing("ppq", "From PV Require Import Model.C19.", "", ppq_cases,
                                 "fun c => match c with (units, evs, divs) => Z.eqb (find_ppq units evs) divs end", shard=300)
            ctx.obligation("correspondence (informational, not a property observable): Model.C19.find_ppq = the ppq inferred by load_mei on %d documents"
                           % len(ppq_cases), not f2, f2[:5])
        ctx.log("coq: ppq stream done")
        if prun_cases:
            f7 = ctx.coq_failing("partrun", "From PV Require Import Model.C19 Model.C19_kern.", "", prun_cases, "check_part_run", shard=70 if quick else 100)
            ctx.obligation("correspondence: Model.C19_kern.part_run (element_parsing: position from the order within the spine, "
                           "ceil(4 / value * divs), the table document line -> position shared by the spines of one part, a barline of a "
                           "later spine jumping to the start of the measure with its number) = (start, end) ticks of every element of every "
                           "sub-spine and the measure starts, on %d loaded kern parts" % len(prun_cases), not f7, f7[:5])
            for i in f7[:3]:
                doc, loader, text = prun_docs[i]
                ctx.violation("Coq model of the kern timeline placement (element_parsing, line2pos) and the loaded score disagree on a "
                              "document the Python oracle accepts (model drift or loader change)",
                              {"dir": "import", "doc": doc, "loader": loader, "clauses": ["model"], "text": text})
        ctx.log("coq: partrun stream done")
        if spine_cases:
            f4 = ctx.coq_failing("spine", "From PV Require Import Model.C19.", "", spine_cases, "check_spine", shard=150)
            ctx.obligation("correspondence: Model.C19.spine_voices (sub-spine count of parse_by_voice over the '*^' / '*v' cells of each spine) "
                           "= number of voices load_kern gave the spine, on %d spines" % len(spine_cases), not f4, f4[:5])
            for i in f4[:3]:
                doc, loader, text, si_ = spine_info[i]
                ctx.violation("kern spine %d: the number of voices loaded differs from the model's sub-spine count" % si_,
                              {"dir": "import", "doc": doc, "loader": loader, "clauses": ["model", "voice/staff"], "text": text})
        if pitch_cases:
            items = sorted(pitch_cases.items())
            terms = [ctuple([core.cstr(k[0]), cz(k[1]), cz(v[0]), cz(v[1]), cz(v[2])]) for k, v in items]
            f3 = ctx.coq_failing("pitch", "From PV Require Import Model.C19.", "", terms, "check_kern_pitch", shard=500)
            ctx.obligation("correspondence: Model.C19.kern_pitch/kern_alter = spelling loaded by load_kern for %d distinct pitch tokens" % len(terms),
                           not f3, [items[i] for i in f3[:5]])
            for i in f3[:3]:
                ctx.violation("kern pitch token %r loads as %r, the model's letter rule gives something else" % (items[i][0], items[i][1]),
                              {"dir": "pitch", "token": list(items[i][0]), "loaded": list(items[i][1])})
    else:
        ctx.violation("proof obligations of Props/C19.v no longer check: " + why, {"theorem_or_build": why}, no_input=True)
    # ---- export direction
    ctx.log("import correspondence evaluated in Coq")
    run_export(ctx, n_exp, ok)
    ctx.log("export direction done")
    run_attr(ctx, 40 if quick else 900, ok)
    run_reexport(ctx, {"mei": 35 if quick else 600, "kern": 14 if quick else 170})
    ctx.log("re-export direction done")
    run_tokens(ctx, [t for d_, l_, t in coq_docs if d_["fmt"] == "kern"], 350 if quick else 4500, 90 if quick else 2000, ok)
    ctx.log("kern token probes done")
    run_dispatch(ctx, 120 if quick else 3000, ok)
    ctx.log("dispatch by extension done")
    run_histories(ctx, 15 if quick else 500)
    run_token_histories(ctx, 40 if quick else 1500, ok)
    ctx.log("histories (state carried between calls) done")
    # ---- dispatch by extension (negative side): an unknown extension is rejected, not guessed
    import partitura as pt
    p = os.path.join(work_dir(), "x.c19unknown")
    with open(p, "w") as f:
        f.write("**kern\n4c\n*-\n")
    try:
        pt.load_score(p)
        ctx.violation("load_score accepted a file with an unknown extension", {"dir": "dispatch", "path": p})
    except Exception:
        pass
    ctx.evaluations += 1


def run_export(ctx, n, ok):
    xcases, xdocs, scases, sinfo = [], [], [], []
    for fmt in ("mei", "kern"):
        nv = 0
        todo = [d for d in load_corpus() if d.get("xfmt") == fmt]
        ctx.count("corpus:export:%s" % fmt, len(todo))
        for i in range(n[fmt] + len(todo)):
            doc = todo[i] if i < len(todo) else gen_xdoc(ctx.rng, fmt)
            if i >= len(todo) and i % 7 == 3:
                doc["xopts"]["fname"] = ctx.rng.choice(["export.v2", "a.b.c", "export.krn.final", "x.mei.bak"])
            r = export_roundtrip(doc, fmt)
            ctx.evaluations += 1
            ctx.count("export:%s" % fmt)
            fs = xfeatures(doc)
            for f_ in fs:
                ctx.count("export:%s:%s" % (fmt, f_))
            if r[0] == "builderr":
                raise RuntimeError("harness could not build the part: " + r[1])
            bad = export_diff(fmt, r[1], r[2]) if r[0] == "ok" else None
            if r[0] == "ok" and not bad:
                if len(r[1]) > 1:
                    ctx.nontrivial("export" + r[3])
                if i < 1:
                    ctx.sample({"export": fmt, "voices": doc["voices"], "xopts": doc["xopts"], "file": r[3][-1500:]})
                c = c_xcase(doc, fmt, r[4])
                if c is None:
                    ctx.count("export:%s:not_mapped_to_model" % fmt)
                else:
                    xcases.append(c)
                    xdocs.append((doc, fmt))
                if fmt == "mei":
                    attrs = mei_staff_attrs(r[3])
                    loaded = {g[0]: g[6] for g in r[2]}
                    for nid in sorted(r[1], key=lambda x: int(x[1:])):
                        if nid in attrs and nid in loaded and attrs[nid][2] is not None:
                            na, ca, en = attrs[nid]
                            scases.append(ctuple([coptz(na), coptz(ca), cz(int(en)),
                                                  cz(loaded[nid]), cz(r[1][nid][5])]))
                            sinfo.append((doc, nid))
                continue
            small = shrink_export(doc, fmt) if (nv < 3 and not (fmt == "kern" and (has_grace(doc) or not kern_gaps_ok(doc)))) else doc
            if small is not doc:
                r2 = export_roundtrip(small, fmt)
                if r2[0] == "err" or (r2[0] == "ok" and export_diff(fmt, r2[1], r2[2])):
                    r = r2
                    bad = export_diff(fmt, r[1], r[2]) if r[0] == "ok" else None
                else:
                    small = doc
            what, det = describe_export_failure(small, fmt, r, bad)
            res = ctx.violation(what[:700], dict({"dir": "export", "fmt": fmt, "doc": small, "interior_gap": interior_gap(small)}, **det))
            if res != "known":
                nv += 1
            if nv >= 6:
                break
    ctx.log("export: %d parts saved and reloaded" % sum(n.values()))
    if not ok:
        return
    if xcases:
        fx = ctx.coq_failing("xdoc", "From PV Require Import Model.C19.", "", xcases,
                             "fun c => match c with (mei, ms, vs) => check_xdoc mei ms vs end", shard=60)
        ctx.obligation("correspondence: Model.C19 denotation of the abstract part (onset, duration, exact ticks by the MEI/kern formulas, per voice) "
                       "= score reloaded after save_mei / save_kern on %d parts" % len(xcases), not fx, fx[:5])
        for i in fx[:3]:
            ctx.violation("Coq model and the score reloaded after export disagree on a part the Python oracle accepts (model drift or loader change)",
                          {"dir": "export", "fmt": xdocs[i][1], "doc": xdocs[i][0], "clauses": ["model"]})
    if scases:
        fs_ = ctx.coq_failing("xstaff", "From PV Require Import Model.C19.", "", scases, "check_xstaff", shard=4000)
        ctx.obligation("correspondence: Model.C19.imp_staff (note@staff, else chord@staff, else n of the enclosing staff, read from the exported "
                       "file by the harness) = staff loaded by load_mei = staff of the note in the part, on %d exported notes" % len(scases),
                       not fs_, [sinfo[i][1] for i in fs_[:5]])
        for i in fs_[:3]:
            ctx.violation("staff of note %s after save_mei/load: the model's resolution of the exported attributes disagrees with the loaded staff" % sinfo[i][1],
                          {"dir": "export", "fmt": "mei", "doc": sinfo[i][0], "clauses": ["model", "staff"]})


# --------------------------------------------------------------------------
# dispatch by extension (O5): names drawn from a grammar of stems and extensions; the reader that ran is observed by
# its outcome on two tiny files of known content written under the same name (one MEI, one kern)

TINY_MEI = ('<?xml version="1.0" encoding="UTF-8"?>\n<mei xmlns="http://www.music-encoding.org/ns/mei" meiversion="4.0.0"><meiHead><fileDesc>'
            '<titleStmt><title>d</title></titleStmt><pubStmt/></fileDesc></meiHead><music><body><mdiv xml:id="m"><score xml:id="s"><scoreDef xml:id="sd">'
            '<staffGrp xml:id="sg"><staffDef xml:id="P1" n="1" lines="5" clef.shape="G" clef.line="2" meter.count="4" meter.unit="4" key.sig="0"/>'
            '</staffGrp></scoreDef><section xml:id="sec"><measure xml:id="m1" n="1"><staff xml:id="st" n="1"><layer xml:id="l" n="1">'
            '<note xml:id="n1" dur="4" pname="e" oct="4"/></layer></staff></measure></section></score></mdiv></body></music></mei>\n')
TINY_KERN = "**kern\n*clefG2\n*M4/4\n=1\n4e\n==\n*-\n"
DISPATCH_EXTS = [".mei", ".mei", ".krn", ".kern", ".MEI", ".Mei", ".KRN", ".Kern", ".xml", ".musicxml", ".mxl", ".mid", ".midi", ".match",
                 ".txt", ".meix", ".me", ".kr", ".krnn", "", "", ".mei~", ".json", ".md", ".mscz"]
DISPATCH_INNER = [".mei", ".krn", ".kern", ".xml", ".mid", ".v2", ".1", ".final", ".MEI", ".match"]


def gen_dispatch_name(rng):
    """Relative path below the work directory: 0-2 directories (possibly with dots / another reader's extension),
    a stem (possibly empty = hidden file, only dots, several dots, inner extensions of other readers), an extension."""
    def word():
        return "".join(rng.choice("abcxyz019_-") for _ in range(rng.randint(1, 4)))
    parts = []
    for _ in range(rng.choice([0, 0, 1, 1, 2])):
        d = word()
        if rng.random() < 0.5:
            d += rng.choice(DISPATCH_INNER)
        if rng.random() < 0.15:
            d = "." + d
        parts.append(d)
    r = rng.random()
    if r < 0.1:
        stem = ""                      # ".mei": a hidden file without extension
    elif r < 0.17:
        stem = "." * rng.randint(1, 3)  # "...krn": only dots before the last dot
    else:
        stem = ("." * rng.choice([0, 0, 0, 1, 2])) + word()
        for _ in range(rng.choice([0, 0, 1, 1, 2])):
            stem += rng.choice(DISPATCH_INNER) if rng.random() < 0.7 else "." + word()
        if rng.random() < 0.1:
            stem += "."                # "doc..mei"
    return "/".join(parts + [stem + rng.choice(DISPATCH_EXTS)])


def observe_dispatch(rel, k=0):
    """0 NotSupportedFormatError for both contents | 1 the MEI content loads to its note and the kern content does not |
    2 the kern content loads to its note and the MEI content does not | 3 neither loads to its note (another reader ran) |
    4 both do (ambiguous)."""
    import partitura as pt
    res = []
    for sub, content in (("dm", TINY_MEI), ("dk", TINY_KERN)):
        path = os.path.join(work_dir(), "dispatch", "%s%d" % (sub, k), rel)
        os.makedirs(os.path.dirname(path), exist_ok=True)
        with open(path, "w") as f:
            f.write(content)
        try:
            import contextlib
            import io
            with contextlib.redirect_stdout(io.StringIO()):    # the match reader prints every line it cannot parse
                sc = pt.load_score(path)
            notes = [(n.step.upper(), n.octave, n.id) for q in sc.parts for n in q.notes]
            ok = len(notes) == 1 and notes[0][:2] == ("E", 4)
            # the MEI reader keeps the xml:id; the kern reader invents ids: tells the two readers apart should one
            # of them ever accept the other's content
            res.append(("ok" if ok else "other", notes[0][2] if ok else None))
        except Exception as ex:
            res.append(("unsupported" if type(ex).__name__ == "NotSupportedFormatError" else "other", None))
    (m, mid), (k, _) = res
    if m == "unsupported" and k == "unsupported":
        return 0, path
    if m == "ok" and mid == "n1" and k != "ok":
        return 1, path
    if k == "ok" and m != "ok":
        return 2, path
    if m == "ok" and k == "ok":
        return 4, path
    return 3, path


def run_dispatch(ctx, n, ok):
    cases, names = [], []
    for i in range(n):
        rel = gen_dispatch_name(ctx.rng)
        if rel.split("/")[-1] in ("", ".", ".."):
            continue
        ob, path = observe_dispatch(rel, i)
        ctx.evaluations += 1
        ctx.count("dispatch:observed_class_%d" % ob)
        base = rel.split("/")[-1]
        if base.count(".") > 1:
            ctx.count("dispatch:several_dots_in_the_name")
        if base.startswith("."):
            ctx.count("dispatch:name_starts_with_a_dot")
        if "." in "/".join(rel.split("/")[:-1]):
            ctx.count("dispatch:dot_in_a_directory")
        if base != base.lower():
            ctx.count("dispatch:upper_case_extension")
        # direct oracle: the reader is decided by the extension after the last dot of the name (case-insensitive);
        # a name that is only an extension (".mei") or has only dots before it has none
        stem, dot, ext = base.rpartition(".")
        ext = (dot + ext).lower() if (dot and stem.strip(".")) else ""
        want = 1 if ext == ".mei" else 2 if ext in (".krn", ".kern") else 0 if ob == 0 else 3   # other names: not the MEI / kern reader
        if ob != want:
            ctx.violation("load_score(%r): %s, but the extension %r selects %s"
                          % (rel, ["rejected the file (NotSupportedFormatError)", "ran the MEI reader", "ran the kern reader", "ran another reader",
                                   "loaded both an MEI and a kern content"][ob], ext,
                             ["no reader", "the MEI reader", "the kern reader", "neither the MEI nor the kern reader"][want]),
                          {"dir": "dispatch", "name": rel, "observed": ob, "expected": want})
            continue
        ctx.nontrivial("dispatch" + rel)
        cases.append(ctuple([core.cstr(path), cz(ob)]))
        names.append(rel)
    if ok and cases:
        f6 = ctx.coq_failing("dispatch", "From PV Require Import Model.C19_disp.", "", cases, "check_dispatch", shard=400)
        ctx.obligation("correspondence: Model.C19_disp.load_score_reader (posixpath.splitext: last dot of the last path component unless only dots "
                       "precede it, lower-cased, the if/elif chain of load_score) = the reader load_score ran, observed by the outcome on an MEI "
                       "and a kern file of known content written under %d generated names" % len(cases), not f6, [names[i] for i in f6[:5]])
        for i in f6[:3]:
            ctx.violation("load_score(%r): the reader that ran differs from the model's dispatch" % names[i],
                          {"dir": "dispatch", "name": names[i], "clauses": ["model"]})


# --------------------------------------------------------------------------
# kern tokens: (1) every distinct note token is probed through load_kern in a tiny file of its own and compared with
# Model.C19_kern.parse_note_token; (2) the tokens save_kern writes for notes of known attributes are compared with
# Model.C19_kern.kern_write_token

PROBE_PRE = ["", "", "", "[", "(", "([", "{", "&", "<"]
PROBE_POST = ["", "", "", "]", "_", "L", "J", "LL", "JJ", "K", "k", ";", ")", "'", "^", "~", "/", "\\", "q", "qq", "yy", "X", "x", "i", "v", "u",
              "m", "t", "T", "S", "O", "z", "p", "P", "M", "W", "w", "$", "R", "_L", "];", "J)", "/L", "q/"]
# note values and their 3:2, 5:4, 7:4 subdivisions (the supported subset; other reciprocal values make the loader's float
# arithmetic -- isclose, ceil -- inexact)
PROBE_RECIP = [1, 2, 4, 8, 16, 32, 64, 128, 256, 3, 6, 12, 24, 48, 96, 5, 10, 20, 40, 80, 7, 14, 28, 56, 112]
PROBE_ACC = ["", "", "", "#", "##", "-", "--", "n", "###", "n#", "n-", "#n", "-n", "nn"]


def gen_probe_token(rng):
    pre, post = rng.choice(PROBE_PRE), rng.choice(PROBE_POST)
    dur = "%d%s" % (rng.choice(PROBE_RECIP), "." * rng.choice([0, 0, 0, 1, 1, 2, 3]))
    if rng.random() < 0.12:
        body = "r" * rng.choice([1, 1, 2])
        post = post.replace("q", "")     # a "grace rest" is no notation
    else:
        step = rng.choice("cdefgab")
        n = rng.choice([1, 1, 2, 2, 3, 4, 5])
        body = (step if rng.random() < 0.5 else step.upper()) * n + rng.choice(PROBE_ACC)
    r = rng.random()
    if r < 0.8:
        return pre + dur + body + post
    if r < 0.95:
        return pre + body + dur + post          # humdrum does not fix the order of duration and pitch
    return pre + body + post                    # no duration at all (grace notes): the loader assumes "8"


def probe_token(tok):
    """What load_kern makes of one note token: a file holding a quarter c and the token; returns the Coq term of the
    observation, or None when the loader rejects the file."""
    import partitura as pt
    import partitura.score as S
    tied = "]" in tok or "_" in tok
    path = os.path.join(work_dir(), "probe.krn")
    with open(path, "w") as f:
        f.write("**kern\n*M4/4\n=1\n%s\n%s\n*-\n" % ("[4c" if tied else "4c", tok))
    try:
        sc = pt.load_kern(path)
    except Exception:
        return None
    part = sc.parts[0]
    dv = int(part._quarter_durations[0])
    els = [n for n in part.iter_all(S.GenericNote, include_subclasses=True) if int(n.start.t) == dv]
    if len(els) != 1:
        return None
    n = els[0]
    rest, grace = isinstance(n, S.Rest), isinstance(n, S.GraceNote)
    sd = n.symbolic_duration or {}
    if sd.get("type") not in SYM_VALUE or F(SYM_VALUE[sd["type"]]).denominator != 1:
        return None
    alter = getattr(n, "alter", None)
    return ctuple([core.cstr(tok), ctuple([cbool(rest), cbool(grace), cz(0 if rest else STEPS.index(n.step.upper())),
                                           "(@None Z)" if alter is None else "(Some %s)" % cz(int(alter)), cz(0 if rest else n.octave),
                                           cq(F(int(n.end.t - n.start.t), dv)), cbool(getattr(n, "tie_prev", None) is not None),
                                           ctuple([cz(int(SYM_VALUE[sd["type"]])), cz(int(sd.get("dots") or 0)), cz(int(sd.get("actual_notes") or 0)),
                                                   cz(int(sd.get("normal_notes") or 0))])])])


def written_tokens(notes):
    """notes: [(step index, alter or None, octave, value, dots, actual, normal, tie to the next note?)] written one after
    the other in one voice of a Part; returns the tokens save_kern writes for them (None: the writer raised)."""
    import partitura.score as S
    from partitura.io.exportkern import save_kern
    durs = [den_dur(v, d, (a, n) if a else None) for (_, _, _, v, d, a, n, _) in notes]
    divs = 1
    for q in durs:
        divs = divs * q.denominator // math.gcd(divs, q.denominator)
    part = S.Part("P1", "tokens", quarter_duration=divs)
    part.add(S.TimeSignature(4, 4), 0)
    part.add(S.Clef(1, "G", 2, 0), 0)
    t = 0
    prev = None
    for i, ((st, alter, octv, v, d, a, n, tie), q) in enumerate(zip(notes, durs)):
        sd = {"type": SYM[v]}
        if d:
            sd["dots"] = d
        if a:
            sd["actual_notes"], sd["normal_notes"] = a, n
        o = S.Note(step=STEPS[st], octave=octv, alter=alter, id="w%d" % i, voice=1, staff=1, symbolic_duration=sd)
        part.add(o, t, t + int(q * divs))
        part.add(S.Measure(number=i + 1), t, t + int(q * divs))   # one measure per note: nothing for fill_rests to fill
        if prev is not None:
            prev.tie_next, o.tie_prev = o, prev
        prev = o if tie else None
        t += int(q * divs)
    try:
        data = save_kern(part)
    except Exception:
        return None
    toks = [c for row in data for c in row if c and c != "." and c[0] not in "*=!"]
    return toks[:len(notes)] if len(toks) >= len(notes) else None


def run_tokens(ctx, texts, n_probe, n_written, ok):
    import re
    seen = set()
    for text in texts:
        for line in text.split("\n"):
            for cell in line.split("\t"):
                if cell and cell != "." and cell[0] not in "*=!":
                    seen.update(cell.split(" "))
    toks = sorted(seen)
    ctx.rng.shuffle(toks)
    toks = toks[:n_probe // 2]
    ctx.count("tokens:from_generated_documents", len(toks))
    while len(toks) < n_probe:
        toks.append(gen_probe_token(ctx.rng))
    cases, names = [], []
    for tok in sorted(set(toks)):
        c = probe_token(tok)
        ctx.evaluations += 1
        if c is None:
            ctx.count("tokens:rejected_by_load_kern")
            continue
        for k_, rx in (("tokens:tie_mark", r"[\[\]_]"), ("tokens:dots", r"\."), ("tokens:grace", "q"), ("tokens:rest", "r"), ("tokens:accidental", "[#n-]"),
                       ("tokens:pitch_before_duration", r"^[^0-9]*[a-gA-G][^0-9]*[0-9]")):
            if re.search(rx, tok):
                ctx.count(k_)
        ctx.nontrivial("token" + tok)
        cases.append(c)
        names.append(tok)
    if ok and cases:
        f8 = ctx.coq_failing("token", "From PV Require Import Model.C19 Model.C19_kern.", "", cases, "check_token", shard=400)
        ctx.obligation("correspondence: Model.C19_kern.parse_note_token / token_quarters / kern_symbolic (the regular-expression searches of "
                       "meta_note_line, _process_kern_pitch, _process_kern_duration as functions on strings) = rest / grace / step / alter / "
                       "octave / duration / tie to the previous note / written value load_kern gives the token, on %d distinct note tokens "
                       "each probed in a file of its own" % len(cases), not f8, [names[i] for i in f8[:8]])
        for i in f8[:3]:
            ctx.violation("kern token %r: what load_kern makes of it differs from the model's reading of the token" % names[i],
                          {"dir": "token", "token": names[i], "clauses": ["model"]})
    # ---- the writer's tokens
    wcases, wnames = [], []
    alters = [None, None, 0, 1, 2, -1, -2]
    done = 0
    while done < n_written:
        notes = []
        for _ in range(30):
            v = ctx.rng.choice([1, 2, 4, 4, 8, 8, 16, 32, 64, 128, 256])
            a, n = ctx.rng.choice([(0, 0), (0, 0), (3, 2), (5, 4), (6, 4), (7, 4)])
            if a and (v * a) % n:
                a, n = 0, 0
            notes.append([ctx.rng.randrange(7), ctx.rng.choice(alters), ctx.rng.choice([0, 1, 2, 3, 3, 4, 4, 5, 6, 7, 8, 9]), v,
                          ctx.rng.choice([0, 0, 0, 1, 2, 3]), a, n, False])
        for i in range(len(notes) - 1):     # ties: the next note takes the pitch
            if ctx.rng.random() < 0.25:
                notes[i][7] = True
                notes[i + 1][:3] = notes[i][:3]
        toks = written_tokens([tuple(x) for x in notes])
        ctx.evaluations += 1
        done += len(notes)
        if toks is None:
            ctx.violation("save_kern raised (or wrote fewer tokens than notes) on a one-voice part of 30 notes of plain attributes",
                          {"dir": "written", "notes": notes})
            continue
        for i, (nt, tok) in enumerate(zip(notes, toks)):
            tprev = i > 0 and notes[i - 1][7]
            wcases.append(ctuple([ctuple([cz(nt[0]), "(@None Z)" if nt[1] is None else "(Some %s)" % cz(nt[1]), cz(nt[2]), cz(nt[3]), cz(nt[4]),
                                          cz(nt[5]), cz(nt[6]), cbool(tprev), cbool(nt[7])]), core.cstr(tok)]))
            wnames.append((nt, tprev, tok))
            ctx.nontrivial("written" + tok)
    ctx.count("tokens:written_by_save_kern", len(wcases))
    if ok and wcases:
        f9 = ctx.coq_failing("written", "From PV Require Import Model.C19 Model.C19_kern.", "", wcases, "check_written", shard=600)
        ctx.obligation("correspondence: Model.C19_kern.kern_write_token (pitch_to_kern, sym_dur_to_kern, markings_to_kern) = the token save_kern "
                       "writes, on %d notes of drawn step / accidental / octave 0-9 / value / dots / tuplet ratio / ties" % len(wcases),
                       not f9, [wnames[i] for i in f9[:5]])
        for i in f9[:3]:
            ctx.violation("save_kern wrote %r for the note %r (tie from the previous note: %s): the model's token differs"
                          % (wnames[i][2], wnames[i][0], wnames[i][1]), {"dir": "written", "note": wnames[i][0], "token": wnames[i][2], "clauses": ["model"]})


def run_reexport(ctx, n):
    """document -> load_score -> save_mei / save_kern of every loaded part -> load_score: the parts the two loaders
    return are parts the writers must export (the written value comes from the symbolic duration the LOADER gave the
    note).  All in this process, after the import and export streams (no module state is reset between documents)."""
    for fmt in ("mei", "kern"):
        nv = 0
        for i in range(n[fmt]):
            w = dict(REEXPORT_W)
            r = ctx.rng.random()
            if r < 0.3:      # tuplet values first and often, plain values of the same base after them
                w.update({"tuplet": 0.55, "dots": 0.15})
            elif r < 0.4:
                w.update({"tuplet": 0.0})
            if fmt == "kern":
                w["grace"] = 0.0     # known finding C19-K3
            doc = gen_doc(ctx.rng, fmt, w, nmeas=ctx.rng.randint(1, 3))
            b = reexport_bad(doc, "reexp")
            ctx.evaluations += 1
            ctx.count("reexport:%s" % fmt)
            fl = [e for m in doc["measures"] for st in m["content"] for layer in st for e in flat(layer)]
            bases = {e["v"] for e in fl if e.get("t")}
            if any(not e.get("t") and e.get("v") in bases for e in fl):
                ctx.count("reexport:%s:tuplet_and_plain_value_of_the_same_base" % fmt)
            if b is None:
                ctx.nontrivial("reexport" + json.dumps(doc, sort_keys=True, default=str))
                continue
            if "OverflowError" in b[1].get("error", "") and "int32" in b[1].get("error", ""):
                # tick positions beyond int32 (huge lcm of the kern divisions): Part.note_array, not the writers
                ctx.count("reexport:%s:ticks_beyond_int32(skipped)" % fmt)
                continue
            small = doc
            if nv < 3:
                try:
                    small = shrink_import(doc, None, None, "reexp_shrink", fails=lambda d: (lambda x: x is not None and "int32" not in x[1].get("error", ""))(reexport_bad(d, "reexp_shrink")))
                except Exception:
                    small = doc
            b2 = reexport_bad(small, "reexp")
            if b2 is None:
                small, b2 = doc, b
            res = ctx.violation(b2[0][:700], dict({"dir": "reexport", "fmt": fmt, "doc": small}, **b2[1]))
            if res != "known":
                nv += 1
            if nv >= 6:
                break


# --------------------------------------------------------------------------
# HISTORY stream: state carried between calls.  A history is a list of operations over live objects (Scores the
# loaders returned, Parts the harness built): load a file (the same path is overwritten with other documents), export
# a live part (Part / Score / Score whose part was replaced with score[i] = part / list; to a path, a file object, or
# the returned bytes / array, which is then scribbled over), edit a live part (pitch in place, halve the written value
# and the time span of a note by replacing or by editing its symbolic_duration dict, remove a note, swap two staves,
# turn every integer attribute into a numpy scalar), scribble over data a call returned (a loaded note's
# symbolic_duration dict, a note array).  Every observation is judged against the CURRENT state only: a load against
# the denotation of the document that is in the file now, an export against the notes read from the live objects at
# the moment of the call.

HIST_EDITS = ["pitch", "pitch", "halve", "halve_inplace", "drop", "swap_staves", "kinds"]


def hist_notes(part):
    import partitura.score as S
    return list(part.iter_all(S.Note, include_subclasses=True))


def current_rows(part):
    """{key: (onset, duration, step, alter, octave, staff)} read from the note objects of the part NOW."""
    q = part._quarter_durations[0]
    dv = int(q)
    if dv != q:
        raise ValueError("divisions %r are not integral" % (q,))
    rows = {}
    for k, n in enumerate(hist_notes(part)):
        key = n.id if (isinstance(n.id, str) and len(n.id) > 1 and n.id[0] == "n" and n.id[1:].isdigit()) else "x%d" % k
        rows[key] = (F(int(n.start.t), dv), F(int(n.end.t) - int(n.start.t), dv), str(n.step).upper(), a0(n.alter), int(n.octave), int(n.staff))
    return rows


def hist_edit_candidates(part):
    """Notes whose removal / halving leaves every (voice, staff) pair a gap-free run up to a single written value:
    plain value without dots, not tied, not beamed, alone at its onset in its voice, last of its pair in its measure and
    not the only one."""
    import partitura.score as S
    notes = [n for n in hist_notes(part) if not isinstance(n, S.GraceNote)]
    every = list(part.iter_all(S.GenericNote, include_subclasses=True))
    out = []
    for n in notes:
        sd = n.symbolic_duration or {}
        if sd.get("dots") or sd.get("actual_notes") or sd.get("type") not in ("whole", "half", "quarter", "eighth", "16th"):
            continue
        if n.tie_prev is not None or n.tie_next is not None or getattr(n, "beam", None) is not None:
            continue
        ms = [m for m in part.iter_all(S.Measure) if m.start.t <= n.start.t < m.end.t]
        if len(ms) != 1 or n.end.t > ms[0].end.t:
            continue
        a, b = ms[0].start.t, ms[0].end.t
        same = [o for o in every if o is not n and o.voice == n.voice and a <= o.start.t < b]
        if any(o.start.t >= n.start.t for o in same) or not any(o.staff == n.staff and o.start.t < n.start.t for o in same):
            continue
        if any(o.start.t < n.start.t < o.end.t for o in same):
            continue
        out.append(n)
    return out


def hist_edit(part, kind, seed):
    """Edits the live part; returns a description (None: not applicable in the current state)."""
    import numpy as np
    import partitura.score as S
    rng = random.Random(seed)
    notes = hist_notes(part)
    if not notes:
        return None
    if kind == "pitch":
        cands = [n for n in notes if n.tie_prev is None and n.tie_next is None]
        if not cands:
            return None
        n = cands[rng.randrange(len(cands))]
        old = (n.step, n.alter, n.octave)
        for _ in range(8):
            new = (STEPS[rng.randrange(7)], rng.choice([None, None, 1, -1, 2, -2, 0]), rng.randint(1, 7))
            if (new[0], a0(new[1]), new[2]) != (str(old[0]).upper(), a0(old[1]), int(old[2])):
                break
        n.step, n.alter, n.octave = new
        return "note %s at tick %d: pitch %s -> %s (attributes set in place)" % (n.id, n.start.t, old, new)
    if kind in ("halve", "halve_inplace", "drop"):
        cands = hist_edit_candidates(part)
        if kind != "drop":
            cands = [n for n in cands if (n.end.t - n.start.t) % 2 == 0]
        if not cands:
            return None
        n = cands[rng.randrange(len(cands))]
        a, b = int(n.start.t), int(n.end.t)
        part.remove(n)
        if kind == "drop":
            # the voice stays gap-free: a rest of the same written value takes the place of the note
            part.add(S.Rest(id="hr%d" % (seed % 100000), voice=n.voice, staff=n.staff, symbolic_duration={"type": n.symbolic_duration["type"]}), a, b)
            return "note %s at tick %d removed (Part.remove), a rest put in its place" % (n.id, a)
        nxt = {"whole": "half", "half": "quarter", "quarter": "eighth", "eighth": "16th", "16th": "32nd"}[n.symbolic_duration["type"]]
        if kind == "halve":
            n.symbolic_duration = {"type": nxt}
        else:
            n.symbolic_duration["type"] = nxt
        part.add(n, a, a + (b - a) // 2)
        part.add(S.Rest(id="hr%d" % (seed % 100000), voice=n.voice, staff=n.staff, symbolic_duration={"type": nxt}), a + (b - a) // 2, b)
        return "note %s at tick %d: written value and time span halved (%s)" % (n.id, a, "new dict" if kind == "halve" else "dict edited in place")
    if kind == "swap_staves":
        every = list(part.iter_all(S.GenericNote, include_subclasses=True))
        staves = sorted({int(o.staff) for o in every if o.staff is not None})
        clefs = {int(c.staff) for c in part.iter_all(S.Clef)}
        staves = [s_ for s_ in staves if s_ in clefs]
        if len(staves) < 2:
            return None
        s1, s2 = rng.sample(staves, 2)
        for o in every:
            if o.staff == s1:
                o.staff = s2
            elif o.staff == s2:
                o.staff = s1
        return "staves %d and %d of every note and rest swapped (attribute set in place)" % (s1, s2)
    if kind == "kinds":
        ity = rng.choice([np.int64, np.int32, np.int16])
        for o in part.iter_all(S.GenericNote, include_subclasses=True):
            o.staff = ity(o.staff) if o.staff is not None else None
            o.voice = ity(o.voice) if o.voice is not None else None
            if isinstance(o, S.Note):
                o.octave = ity(o.octave)
                o.alter = ity(o.alter) if o.alter is not None else None
            sd = o.symbolic_duration
            if isinstance(sd, dict):
                for k_ in ("dots", "actual_notes", "normal_notes"):
                    if sd.get(k_) is not None:
                        sd[k_] = ity(sd[k_])
        return "staff, voice, octave, alter, dots and tuplet ratio of every element turned into %s" % ity.__name__
    raise ValueError(kind)


def hist_save(part, fmt, argkind, outkind, loader, tag):
    """Exports the live part and loads the result again: (rows of the part at the moment of the call, loaded rows)."""
    import partitura as pt
    import partitura.score as S
    from partitura.io.exportkern import save_kern
    rows = current_rows(part)
    if argkind == "score":
        arg = S.Score([part])
    elif argkind == "score_set":
        arg = S.Score([S.Part("P0", "placeholder", quarter_duration=1)])
        arg[0] = part          # the public way to replace a part: Score.parts is what the writers must read
    elif argkind == "list" and fmt == "mei":
        arg = [part]
    else:
        arg = part
    path = os.path.join(work_dir(), "hist_%s.%s" % (tag, "mei" if fmt == "mei" else "krn"))
    if fmt == "mei":
        if outkind == "file":
            with open(path, "wb") as f:
                pt.save_mei(arg, f)
        elif outkind == "return":
            data = pt.save_mei(arg)
            with open(path, "wb") as f:
                f.write(data if isinstance(data, bytes) else data.encode("utf-8"))
        else:
            pt.save_mei(arg, path)
    else:
        if outkind == "return":
            arr = save_kern(arg)
            with open(path, "w") as f:
                f.write("\n".join("\t".join(str(c) for c in row) for row in arr) + "\n")
            try:
                arr[...] = "4c"        # the caller owns what it was handed
            except Exception:
                pass
        else:
            save_kern(arg, path)
    sc = getattr(pt, loader)(path)
    got = []
    for q in sc.parts:
        dv2 = int(q._quarter_durations[0])
        for n in hist_notes(q):
            got.append((n.id, F(int(n.start.t), dv2), F(int(n.end.t - n.start.t), dv2), n.step.upper(), a0(n.alter), n.octave, n.staff))
    return rows, got


def run_history(hist, stop_at_first=True):
    """Runs the operations of one history in this process; returns [(op index, clause, text)] of the observations
    that do not follow from the current state."""
    import numpy as np
    import partitura.score as S
    live = {}       # name -> {"parts": [Part...], "spoiled": bool, "fmt": .., "score": Score}
    bad = []
    nsave = 0
    for oi, op in enumerate(hist["ops"]):
        if bad and stop_at_first:
            break
        k = op[0]
        try:
            if k == "load":
                _, d, loader, fname, name = op
                doc = hist["docs"][d]
                keep = []
                st, obs, b, text = check_import(doc, loader, fname, keep)
                if b:
                    bad.append((oi, ",".join(sorted({x[0] for x in b})),
                                "%s document written to %s%s and loaded by %s differs from what its notation denotes [%s]: %s"
                                % (doc["fmt"], fname, doc["opts"]["ext"], loader, ",".join(sorted({x[0] for x in b})), b[0][1][:300])))
                if keep:
                    parts = list(keep[0].parts)
                    live[name] = {"parts": parts, "spoiled": False, "fmt": doc["fmt"], "score": keep[0]}
            elif k == "build":
                _, x, name = op
                part, rows, vmap = build_part(hist["xdocs"][x])
                live[name] = {"parts": [part], "spoiled": False, "fmt": "built", "score": None}
            elif k == "edit":
                _, name, pi, kind, seed = op
                lv = live.get(name)
                if lv is None or lv["spoiled"] or pi >= len(lv["parts"]):
                    continue
                hist_edit(lv["parts"][pi], kind, seed)
            elif k == "scribble":
                _, name, pi, what, seed = op
                lv = live.get(name)
                if lv is None or pi >= len(lv["parts"]):
                    continue
                part = lv["parts"][pi]
                if what == "sym":
                    # write into data a loader returned: later loads must not see it; the object is not exported afterwards
                    ns = [n for n in hist_notes(part) if isinstance(n.symbolic_duration, dict)]
                    if ns:
                        n = ns[random.Random(seed).randrange(len(ns))]
                        n.symbolic_duration["type"] = "long"
                        n.symbolic_duration["dots"] = 3
                        n.symbolic_duration["actual_notes"] = 7
                        n.symbolic_duration["normal_notes"] = 5
                        lv["spoiled"] = True
                elif what == "na" and not lv["spoiled"]:
                    before = observe_part(part).get("na")
                    na = part.note_array(include_staff=True)
                    if na.flags.writeable and len(na):
                        for f_ in ("onset_div", "pitch", "duration_div", "staff"):
                            na[f_] += 3
                        na["onset_quarter"] += 1.5
                    after = observe_part(part).get("na")
                    if before != after:
                        bad.append((oi, "note_array", "writing into the array Part.note_array() returned changed what the next call returns: %s -> %s"
                                    % (str(before)[:200], str(after)[:200])))
            elif k == "save":
                _, name, pi, fmt, argkind, outkind, loader = op
                lv = live.get(name)
                if lv is None or lv["spoiled"] or pi >= len(lv["parts"]):
                    continue
                part = lv["parts"][pi]
                nsave += 1
                rows, got = hist_save(part, fmt, argkind, outkind, loader, hist.get("tag", "h"))
                fm = "mei" if (fmt == "mei" and all(not key.startswith("x") for key in rows)) else "kern"
                d_ = export_diff(fm, rows, got)
                if d_:
                    i0, e0, g0 = d_[0]
                    bad.append((oi, ",".join(diff_clause(d_)),
                                "save_%s(%s, out=%s) of live part %s[%d] then %s: the notes differ from what the part holds at the moment of the "
                                "call [%s]: %d held / %d loaded, %d differ; first: %s held %s, loaded %s"
                                % (fmt, argkind, outkind, name, pi, loader, ",".join(diff_clause(d_)), len(rows), len(got), len(d_),
                                   "note %s" % i0 if i0 else "", fmt_xrow(e0), "; ".join(fmt_xrow(x) for x in (g0 or [])) or "none")))
        except Exception as ex:
            import traceback
            tb = traceback.extract_tb(ex.__traceback__)
            where = "%s:%d %s" % (os.path.basename(tb[-1].filename), tb[-1].lineno, tb[-1].name)
            if "int32" in str(ex) and "OverflowError" in type(ex).__name__:
                continue        # tick positions beyond int32: Part.note_array, not the writers (as in the re-export stream)
            bad.append((oi, "error", "operation %r raised %s: %s @ %s" % (op, type(ex).__name__, str(ex)[:200], where)))
    return bad


def kern_values_ok(doc):
    """Every tuplet value of the document has an integral kern reciprocal value (a half note 7:4 would be '3.5')."""
    return all(kern_recip_ok(e["v"], e["t"]) for m in doc["measures"] for st in m["content"] for layer in st for e in flat(layer) if e.get("t"))


def gen_history(rng, hi):
    """One history over two import documents (A, B) of one format each and one or two built parts."""
    docs, xdocs, ops = [], [], []

    def allowed(name, fmt, origin):
        # a LOADED part with tuplet values goes through the writer of its own format only (open item, design.d/C19.md);
        # a built part whose tuplet values have no integral reciprocal value cannot be written as kern at all
        if name in docof and has_tuplet(docs[docof[name]]):
            return origin
        if name[0] == "B" and fmt == "kern" and not kern_values_ok(xdocs[int(name[1:])]):
            return "mei"
        return fmt
    fmts = [rng.choice(["mei", "kern"]), rng.choice(["mei", "kern"])]
    for fmt in fmts:
        w = dict(REEXPORT_W)
        w.update({"tuplet": rng.choice([0.0, 0.2, 0.45]), "meter_change": 0.0, "key_change": 0.1, "grace": 0.0, "small": 0.6})
        docs.append(gen_doc(rng, fmt, w, nmeas=rng.randint(1, 2), nstaves=rng.choice([1, 1, 2])))
    nb = rng.choice([1, 1, 2])
    for _ in range(nb):
        fmt = rng.choice(["mei", "mei", "kern"])
        for _try in range(30):
            x = gen_xdoc(rng, fmt)
            if len(x["measures"]) <= 2 and not has_grace(x) and kern_gaps_ok(x) and (fmt == "mei" or x["xopts"]["cross"] != "free"):
                break
        x["xfmt_hint"] = fmt
        xdocs.append(x)
    names = []
    docof = {}
    # the same path for both documents when the formats agree: a cache keyed by the path would be stale
    fn = ["hist", "hist" if rng.random() < 0.6 else "hist2"]
    loaders = lambda d: rng.choice(["load_score", "load_score", "load_mei" if fmts[d] == "mei" else "load_kern"])
    for d in rng.sample([0, 1], 2):
        ops.append(["load", d, loaders(d), fn[d], "L%d" % d])
        names.append(("L%d" % d, len(docs[d]["staves"]) if not docs[d]["opts"].get("same_part") else 1, fmts[d]))
        docof["L%d" % d] = d
    for x in range(nb):
        ops.append(["build", x, "B%d" % x])
        names.append(("B%d" % x, 1, "built:" + xdocs[x]["xfmt_hint"]))
    nsteps = rng.randint(3, 6)
    k = 0
    for _ in range(nsteps):
        name, npart, origin = names[rng.randrange(len(names))]
        pi = rng.randrange(npart)
        r = rng.random()
        if r < 0.45:
            if origin == "built:kern" or origin == "kern":
                fmt = "kern" if rng.random() < 0.6 else "mei"
            else:
                fmt = "mei" if rng.random() < 0.8 else "kern"
            fmt = allowed(name, fmt, origin)
            argkind = rng.choice(["part", "part", "score", "score_set", "list"])
            outkind = rng.choice(["path", "path", "return", "file"])
            ops.append(["save", name, pi, fmt, argkind, outkind, rng.choice(["load_score", "load_score", "load_mei" if fmt == "mei" else "load_kern"])])
        elif r < 0.8:
            ops.append(["edit", name, pi, rng.choice(HIST_EDITS), rng.randrange(1 << 30)])
        elif r < 0.88 and name.startswith("L"):
            ops.append(["scribble", name, pi, "sym", rng.randrange(1 << 30)])
            d = int(name[1:])
            ops.append(["load", 1 - d, loaders(1 - d), fn[1 - d], "M%d" % k])
            ops.append(["load", d, loaders(d), fn[d], "N%d" % k])
            names.append(("N%d" % k, names[[n_[0] for n_ in names].index(name)][1], fmts[d]))
            docof["N%d" % k] = d
            k += 1
        elif r < 0.94:
            ops.append(["scribble", name, pi, "na", 0])
        else:
            d = rng.randrange(2)
            ops.append(["load", d, loaders(d), fn[d], "R%d" % k])
            k += 1
    # the core pattern, once per history at least: call -> edit -> the same call again (and its sibling)
    name, npart, origin = names[rng.randrange(len(names))]
    pi = rng.randrange(npart)
    fmt = origin.split(":")[-1]
    ldr = rng.choice(["load_score", "load_mei" if fmt == "mei" else "load_kern"])
    other = "kern" if fmt == "mei" else "mei"
    triple = [["save", name, pi, fmt, rng.choice(["part", "score", "score_set"]), rng.choice(["path", "return"]), ldr],
              ["edit", name, pi, rng.choice(["pitch", "pitch", "halve_inplace", "halve", "drop", "kinds", "swap_staves"]), rng.randrange(1 << 30)],
              ["edit", name, pi, "pitch", rng.randrange(1 << 30)],
              ["save", name, pi, fmt, "part", "path", ldr]]
    fmt = allowed(name, fmt, origin)
    for t_ in triple:
        if t_[0] == "save":
            t_[3] = fmt
            if t_[6] in ("load_mei", "load_kern"):
                t_[6] = "load_mei" if fmt == "mei" else "load_kern"
    if allowed(name, other, origin) == other:
        triple.append(["save", name, pi, other, "part", "path", "load_score"])
    at = rng.randint(len(names), len(ops))
    ops[at:at] = triple
    # every live object is exported once more at the end, in a fresh order
    tail = [(n_, pi) for n_, npart, _ in names for pi in range(npart)]
    rng.shuffle(tail)
    for n_, pi in tail[:3]:
        origin = [o for a_, _, o in names if a_ == n_][0]
        fmt = "kern" if (origin.endswith("kern") and rng.random() < 0.5) else "mei"
        fmt = allowed(n_, fmt, origin)
        ops.append(["save", n_, pi, fmt, "part", "path", "load_score"])
    return {"dir": "history", "docs": docs, "xdocs": xdocs, "ops": ops, "tag": "h"}


def mirror_history(h):
    """The same history with the two import documents (and the two built parts) in the other order."""
    import copy
    m = copy.deepcopy(h)
    first = [i for i, op in enumerate(m["ops"]) if op[0] == "load"][:2]
    if len(first) == 2:
        i, j = first
        m["ops"][i], m["ops"][j] = m["ops"][j], m["ops"][i]
    b = [i for i, op in enumerate(m["ops"]) if op[0] == "build"]
    if len(b) == 2:
        m["ops"][b[0]], m["ops"][b[1]] = m["ops"][b[1]], m["ops"][b[0]]
    saves = [i for i, op in enumerate(m["ops"]) if op[0] == "save"]
    rev = [m["ops"][i] for i in reversed(saves[-3:])]
    for i, op in zip(saves[-3:], rev):
        m["ops"][i] = op
    return m


def shrink_history(h, budget=40):
    """ddmin over the operations (an operation whose object is gone is skipped by run_history)."""
    import copy
    calls = [0]

    def fails(ops):
        calls[0] += 1
        if calls[0] > budget:
            return False
        h2 = dict(h, ops=list(ops))
        try:
            return bool(run_history(h2))
        except Exception:
            return False
    b0 = run_history(h)
    if not b0:
        return h
    ops = h["ops"][:b0[0][0] + 1]
    if not fails(ops):
        ops = h["ops"]
    ops = core.ddmin(ops, fails)
    return copy.deepcopy(dict(h, ops=ops))


def run_histories(ctx, n):
    hs = []
    for hi in range(n):
        h = gen_history(ctx.rng, hi)
        hs.append(h)
        if hi % 3 == 0:
            hs.append(mirror_history(h))
    nv = 0
    for h in hs:
        bad = run_history(h)
        ctx.evaluations += 1
        ctx.count("history")
        for op in h["ops"]:
            ctx.count("history:op=%s" % (op[0] if op[0] != "edit" else "edit:" + op[3]) + (":" + op[3] if op[0] == "save" else ""))
            if op[0] == "save":
                ctx.count("history:save_arg=%s" % op[4])
                ctx.count("history:save_out=%s" % op[5])
        if not bad:
            ctx.nontrivial("history" + json.dumps(h["ops"]))
            continue
        small = h
        if nv < 3:
            try:
                small = shrink_history(h)
            except Exception:
                small = h
        b2 = run_history(small) or bad
        if b2 is bad:
            small = h
        res = ctx.violation("history of %d operations (%s): %s" % (len(small["ops"]), " -> ".join(
            "%s%s" % (op[0], ":" + str(op[3]) if op[0] in ("edit", "save", "scribble") else "") for op in small["ops"]), b2[0][2][:600]),
            dict(small, clauses=[b2[0][1]], failing_op=small["ops"][b2[0][0]], mismatch=[x[2] for x in b2[:3]], unshrunk_ops=h["ops"],
                 note="all histories run in one process: if an earlier operation polluted module-level state the shrunk history fails from "
                      "its first operation on; unshrunk_ops is the history as generated"))
        if res != "known":
            nv += 1
        if nv >= 5:
            break


def has_tuplet(doc):
    return any(e.get("t") for m in doc["measures"] for st in m["content"] for layer in st for e in flat(layer))


def run_token_histories(ctx, n, ok):
    """One-voice parts exported by save_kern, edited, exported again: the note tokens of every export, replayed through the
    Gallina state machine Model/C19_hist.v (check_hist): every export writes the tokens of the CURRENT notes."""
    import numpy as np
    import partitura.score as S
    from partitura.io.exportkern import save_kern
    alters = [None, None, 0, 1, 2, -1, -2]
    cases, infos = [], []

    def rnd_dur():
        v = ctx.rng.choice([1, 2, 4, 4, 8, 8, 16, 32])
        a, n_ = ctx.rng.choice([(0, 0), (0, 0), (3, 2), (5, 4)])
        if a and (v * a) % n_:
            a, n_ = 0, 0
        return v, ctx.rng.choice([0, 0, 1, 2]), a, n_

    def sym(v, d, a, n_, kind):
        sd = {"type": SYM[v]}
        if d:
            sd["dots"] = kind(d)
        if a:
            sd["actual_notes"], sd["normal_notes"] = kind(a), kind(n_)
        return sd
    for hi in range(n):
        kind = ctx.rng.choice([int, int, np.int64, np.int32])
        notes = [[ctx.rng.randrange(7), ctx.rng.choice(alters), ctx.rng.randint(0, 8)] + list(rnd_dur()) for _ in range(ctx.rng.randint(3, 6))]
        part = S.Part("P1", "hist", quarter_duration=4)
        part.add(S.TimeSignature(4, 4), 0)
        part.add(S.Clef(1, "G", 2, 0), 0)
        objs = []
        for i, (st, al, oc, v, d, a, n_) in enumerate(notes):
            o = S.Note(step=STEPS[st], octave=kind(oc), alter=al if al is None else kind(al), id="h%d" % i, voice=1, staff=1, symbolic_duration=sym(v, d, a, n_, kind))
            part.add(o, 16 * i, 16 * i + 16)
            part.add(S.Measure(number=i + 1), 16 * i, 16 * i + 16)
            objs.append(o)
        ops, obs, err = [], [], None
        for _ in range(ctx.rng.randint(4, 8)):
            r = ctx.rng.random()
            if r < 0.4 or not objs:
                try:
                    data = save_kern(part) if ctx.rng.random() < 0.7 else save_kern(S.Score([part]))
                    toks = [str(c) for row in data for c in row if c and c != "." and c[0] not in "*=!" and "r" not in c]
                    try:
                        data[...] = "4c"
                    except Exception:
                        pass
                except Exception as ex:
                    err = "%s: %s" % (type(ex).__name__, str(ex)[:200])
                    break
                ops.append("(HSave false)")
                obs.append(toks)
            elif r < 0.65:
                i = ctx.rng.randrange(len(objs))
                st, al, oc = ctx.rng.randrange(7), ctx.rng.choice(alters), ctx.rng.randint(0, 8)
                objs[i].step, objs[i].alter, objs[i].octave = STEPS[st], (al if al is None else kind(al)), kind(oc)
                ops.append("(HPitch %d%%nat %s %s %s)" % (i, cz(st), coptz(al), cz(oc)))
            elif r < 0.9:
                i = ctx.rng.randrange(len(objs))
                v, d, a, n_ = rnd_dur()
                if ctx.rng.random() < 0.5:
                    objs[i].symbolic_duration = sym(v, d, a, n_, kind)
                else:      # the dict the note already has, edited in place
                    sd = objs[i].symbolic_duration
                    sd.clear()
                    sd.update(sym(v, d, a, n_, kind))
                ops.append("(HDur %d%%nat %s %s %s %s)" % (i, cz(v), cz(d), cz(a), cz(n_)))
            elif len(objs) > 1:
                i = ctx.rng.randrange(len(objs))
                part.remove(objs.pop(i))
                ops.append("(HDrop %d%%nat)" % i)
        ctx.evaluations += 1
        ctx.count("token_history")
        ctx.count("token_history:scalar_kind=%s" % kind.__name__)
        rep = {"dir": "token_history", "notes": notes, "ops": ops, "observed": obs, "scalar_kind": kind.__name__}
        if err:
            ctx.violation("save_kern raised in a history of exports and edits of a one-voice part: %s" % err, rep)
            continue
        ctx.nontrivial("token_history" + json.dumps(rep["ops"]) + json.dumps(notes))
        cases.append(ctuple([clist([ctuple([cz(x[0]), coptz(x[1])] + [cz(y) for y in x[2:]]) for x in notes]), clist(ops),
                             clist([clist([core.cstr(t) for t in toks]) for toks in obs])]))
        infos.append(rep)
    if ok and cases:
        fh = ctx.coq_failing("hist", "From PV Require Import Model.C19 Model.C19_kern Model.C19_hist.", "", cases, "check_hist", shard=200)
        ctx.obligation("correspondence: Model.C19_hist.h_run (state machine: notes of a live one-voice part, pitch / written value edited in "
                       "place or replaced, notes removed, save_kern) = the note tokens of EVERY export of the history, on %d histories "
                       "(Python and numpy integer attributes)" % len(cases), not fh, fh[:5])
        for i in fh[:3]:
            ctx.violation("history of exports and edits of a one-voice part: the tokens save_kern wrote differ from the tokens of the notes "
                          "the part held at the moment of the export (ops %s, observed %s)" % (" ".join(infos[i]["ops"]), infos[i]["observed"]),
                          dict(infos[i], clauses=["model", "history"]))


# --------------------------------------------------------------------------
# attribute probes (round j): single MEI notes / chord members whose attributes, children and ancestors are drawn from
# a grammar, loaded through load_mei / load_score, each loaded note compared (a) with what its attributes denote
# (oracle) and (b) with Model/C19_attr.v handle_note evaluated in Coq on the same element (check_attr)

ATTR_PPQ = 430080   # 2^12 * 3 * 5 * 7: every drawn value x dots x ratio is a whole number of divisions
ATTR_DURS = ["long", "breve", "1", "2", "4", "4", "8", "8", "16", "16", "32", "64", "128", "256"]
ATTR_DUR_Q = {"long": F(1, 4), "breve": F(1, 2), "0": F(1, 2)}
ATTR_RATIOS = [(3, 2), (3, 2), (5, 4), (6, 4), (7, 4), (7, 8), (2, 3), (5, 2)]
ATTR_ACC = {"s": 1, "f": -1, "ss": 2, "x": 2, "ff": -2, "n": 0, "ns": 1, "nf": -1}
ATTR_HEAD = ('<?xml version="1.0" encoding="UTF-8"?>\n<mei xmlns="http://www.music-encoding.org/ns/mei" meiversion="4.0.0"><meiHead><fileDesc>'
             '<titleStmt><title>p</title></titleStmt><pubStmt/></fileDesc></meiHead><music><body><mdiv xml:id="m"><score xml:id="s"><scoreDef xml:id="sd">'
             '<staffGrp xml:id="sg"><staffDef xml:id="P1" n="1" lines="5" ppq="%d" clef.shape="G" clef.line="2" meter.count="4" meter.unit="4" key.sig="0"/>'
             '</staffGrp></scoreDef><section xml:id="sec"><measure xml:id="m1" n="1"><staff xml:id="st" n="1"><layer xml:id="l" n="1">')
ATTR_TAIL = '</layer></staff></measure></section></score></mdiv></body></music></mei>\n'
ATTR_OUTER = [("layer", [("n", "1")]), ("staff", [("n", "1")]), ("measure", [("n", "1")]), ("section", [])]


def gen_attr_probe(rng, pi, error=None):
    """One probe: {'chord': node or None, 'notes': [note nodes with children], 'chain': containers from the element
    outwards, 'feat': [...]}.  A node is [tag, [(attribute, value)...], [child nodes]] (xml:id kept apart)."""
    feat = []
    is_chord = error is None and rng.random() < 0.3
    dur = rng.choice(ATTR_DURS)
    carrier = [("dur", dur)]
    r = rng.random()
    if r < 0.5:
        dots = rng.choice(["0", "1", "1", "2", "2", "3"])
        carrier.append(("dots", dots))
        feat.append("dots=%s" % dots)
    else:
        feat.append("dots:absent")
    feat.append("dur=%s" % dur)
    # containers from the element outwards
    chain = [("beam", [])] * rng.choice([0, 0, 1, 1, 2, 3])
    ntup = 2 if error == "nested_tuplets" else (1 if rng.random() < 0.55 else 0)
    for _ in range(ntup):
        a, b = rng.choice(ATTR_RATIOS)
        chain = list(chain)
        chain.insert(rng.randint(0, len(chain)), ("tuplet", [("num", str(a)), ("numbase", str(b))]))
    if ntup == 1:
        depth = [t for t, _ in chain].index("tuplet")
        feat.append("tuplet:behind_%s_containers" % ("0" if depth == 0 else "1" if depth == 1 else "2+"))
        if depth < len(chain) - 1:
            feat.append("tuplet:inside_a_beam")
    elif ntup == 0:
        feat.append("tuplet:none")
    if error is None and not is_chord and rng.random() < 0.2:
        g = rng.choice(["acc", "unacc", "unknown"])
        carrier.append(("grace", g))
        feat.append("grace=%s" % g)
    if error is None and rng.random() < 0.15:
        carrier.append(("dur.ppq", str(rng.choice([1, 7, 480, 999, 4321]))))
        feat.append("dur.ppq")
    if error == "unknown_dur":
        carrier[0] = ("dur", rng.choice(["3", "quarter", "512"]))
    if error == "bad_dots":
        carrier.append(("dots", "x"))
    if rng.random() < 0.2:
        carrier.append(("staff", str(rng.choice([1, 2, 3]))))
        feat.append("staff_on_%s" % ("chord" if is_chord else "note"))
    notes = []
    nfeat = []
    strict = []
    cfeat = feat
    for k in range(rng.choice([2, 3]) if is_chord else 1):
        feat = []
        nfeat.append(feat)
        na = [("pname", rng.choice("cdefgab")), ("oct", str(rng.randint(0, 8)))]
        children = []
        r = rng.random()
        places = []
        if r < 0.25:
            places = []
        elif r < 0.75:
            places = [rng.choice(["accid", "accid.ges", "child:accid", "child:accid.ges"])]
        else:
            places = sorted(rng.sample(["accid", "accid.ges", "child:accid", "child:accid.ges"], rng.choice([2, 2, 3, 4])))
        agree = rng.random() < 0.8
        sign = rng.choice(sorted(ATTR_ACC))
        child_attrs = []
        for pl in places:
            sg = sign if agree else rng.choice(sorted(ATTR_ACC))
            if error == "unknown_accid":
                sg = "su"
            (child_attrs if pl.startswith("child:") else na).append((pl.split(":")[-1], sg))
        rng.shuffle(na)
        if rng.random() < 0.4:
            children.append(["artic", [("artic", "stacc")], []])
            if child_attrs:
                feat.append("accid_child_after_another_child")
        if child_attrs or error == "empty_accid_child":
            children.append(["accid", child_attrs, []])
            if rng.random() < 0.2:
                children.append(["accid", [("accid", sign if agree else rng.choice(sorted(ATTR_ACC)))], []])
                feat.append("second_accid_child")
                if not child_attrs:
                    places = places + ["child:none"]
        if error == "no_oct":
            na = [x for x in na if x[0] != "oct"]
        feat.append("accid_places:%s" % ("+".join(places) if places else "none"))
        if len(places) > 1:
            feat.append("accid_places_%s" % ("agree" if agree else "conflict"))
        # judged: documents of the supported subset (no error class; the places an accidental is written at agree)
        strict.append(error is None and (agree or len(places) <= 1))
        if is_chord and rng.random() < 0.25:
            na.append(("staff", str(rng.choice([1, 2, 3]))))
            feat.append("staff_on_chord_member")
        if is_chord:
            feat.append("chord_member")
        notes.append(["note", na, children])
    feat = cfeat
    if error:
        feat.append("error:%s" % error)
    return {"nfeat": nfeat, "strict": strict, "chord": ["chord", carrier, []] if is_chord else None, "notes": notes if is_chord else [["note", carrier + notes[0][1], notes[0][2]]],
            "chain": chain, "feat": feat, "pi": pi}


def attr_probe_xml(pr):
    """-> (xml of the probe with its containers, ids of the notes)."""
    ids = []

    def node_xml(nd, i):
        tag, at, ch = nd
        return '<%s xml:id="%s"%s>%s</%s>' % (tag, i, "".join(' %s="%s"' % kv for kv in at),
                                               "".join(node_xml(c, "%sc%d" % (i, j)) for j, c in enumerate(ch)), tag)
    inner = []
    for k, n in enumerate(pr["notes"]):
        ids.append("p%dn%d" % (pr["pi"], k))
        inner.append(node_xml(n, ids[-1]))
    x = "".join(inner)
    if pr["chord"]:
        x = '<chord xml:id="p%dch"%s>%s</chord>' % (pr["pi"], "".join(' %s="%s"' % kv for kv in pr["chord"][1]), x)
    for j, (tag, at) in enumerate(pr["chain"]):
        x = '<%s xml:id="p%dk%d"%s>%s</%s>' % (tag, pr["pi"], j, "".join(' %s="%s"' % kv for kv in at), x, tag)
    return x, ids


def observe_attr_doc(text, ids, loader, name):
    """-> {id: [step, octave, alter, ticks, type, dots, (actual, normal), staff, grace type]} or None when the loader raised."""
    import partitura as pt
    from partitura import score as S
    path = os.path.join(work_dir(), name + ".mei")
    with open(path, "w") as f:
        f.write(text)
    try:
        sc = pt.load_score(path) if loader == "load_score" else pt.load_mei(path)
    except Exception as ex:
        return None, "%s: %s" % (type(ex).__name__, str(ex)[:120])
    out = {}
    divs = None
    for part in sc.parts:
        divs = int(part.quarter_duration_map(0))
        for n in part.iter_all(S.Note, include_subclasses=True):
            if n.id in ids:
                sd = n.symbolic_duration or {}
                tup = None
                if sd.get("actual_notes") is not None or sd.get("normal_notes") is not None:
                    tup = [int(sd.get("actual_notes")), int(sd.get("normal_notes"))]
                out[n.id] = [str(n.step), int(n.octave), None if n.alter is None else int(n.alter), int(n.end.t - n.start.t),
                             str(sd.get("type")), None if sd.get("dots") is None else int(sd.get("dots")), tup,
                             int(n.staff), getattr(n, "grace_type", None) if isinstance(n, S.GraceNote) else None, int(n.start.t)]
    return out, divs


def c_node(nd):
    return '(Nd %s %s)' % (core.cstr(nd[0]), clist([ctuple([core.cstr(k), core.cstr(v)]) for k, v in nd[1]]))


def c_attr_case(pr, k, divs, obs):
    chain = [(t, a) for t, a in pr["chain"]] + ATTR_OUTER
    anc_nodes = [c_node([t, a]) for t, a in chain]
    note = pr["notes"][k]
    if pr["chord"]:
        ch = "(Some (El %s %s %s))" % (c_node(pr["chord"]), clist([c_node(n) for n in pr["notes"]]), clist(anc_nodes))
        ne = "(El %s %s %s)" % (c_node(note), clist([c_node(c) for c in note[2]]), clist([c_node(pr["chord"])] + anc_nodes))
    else:
        ch = "None"
        ne = "(El %s %s %s)" % (c_node(note), clist([c_node(c) for c in note[2]]), clist(anc_nodes))
    if obs is None:
        ob = "None"
    else:
        st, oc, al, tk, ty, dots, tup, staff, gt = obs[:9]
        ob = "(Some (Dec %s %s %s %s (SD %s %s %s) %s %s))" % (
            core.cstr(st), cz(oc), core.copt(al, cz), cz(tk), core.cstr(ty), core.copt(dots, cz),
            core.copt(tup, lambda t: ctuple([cz(t[0]), cz(t[1])])), cz(staff), core.copt(gt, core.cstr))
    return ctuple([cz(divs), cz(1), ch, ne, ob])


def attr_expected(pr, k):
    """What the attributes of probe note k denote, clause by clause (None = the clause is not judged: conflicting
    accidental places; a duration given by @dur.ppq is taken as declared)."""
    note = pr["notes"][k]
    carrier = dict((pr["chord"] or note)[1])
    na = dict(note[1])
    exp = {"step": na["pname"].upper(), "octave": int(na["oct"])}
    src = [v for kk, v in note[1] if kk in ("accid", "accid.ges")]
    acc_children = [c for c in note[2] if c[0] == "accid"]
    if acc_children:
        src += [v for kk, v in acc_children[0][1]]
    if not src:
        exp["alter"] = (None,)
    elif len(set(src)) == 1:
        exp["alter"] = (ATTR_ACC[src[0]],)
    tups = [a for t, a in pr["chain"] if t == "tuplet"]
    ratio = (int(dict(tups[0])["num"]), int(dict(tups[0])["numbase"])) if tups else None
    exp["ratio"] = ratio
    v = ATTR_DUR_Q.get(carrier["dur"]) or F(int(carrier["dur"]))
    dots = int(carrier.get("dots", 0))
    if "grace" in carrier:
        exp["quarters"] = F(0)
    elif "dur.ppq" in carrier:
        exp["ticks"] = int(carrier["dur.ppq"])
    else:
        exp["quarters"] = F(4) / v * (2 - F(1, 2 ** dots)) * (F(ratio[1], ratio[0]) if ratio else 1)
    exp["written"] = (v, dots)
    exp["staff"] = int(na["staff"]) if ("staff" in na and pr["chord"]) else int(carrier.get("staff", 1))
    exp["grace"] = {"acc": "appoggiatura", "unacc": "acciaccatura"}.get(carrier["grace"], "grace") if "grace" in carrier else None
    return exp


def attr_oracle(pr, k, divs, ob):
    exp = attr_expected(pr, k)
    st, oc, al, tk, ty, dots, tup, staff, gt = ob[:9]
    bad = []
    if st.upper() != exp["step"] or oc != exp["octave"]:
        bad.append("pitch: step/octave %s%d, written %s%d" % (st, oc, exp["step"], exp["octave"]))
    if "alter" in exp and al != exp["alter"][0]:
        bad.append("pitch: alter %r, the accidental written denotes %r" % (al, exp["alter"][0]))
    if "quarters" in exp and F(tk, divs) != exp["quarters"]:
        bad.append("duration: %s quarters loaded, the attributes denote %s" % (F(tk, divs), exp["quarters"]))
    if "ticks" in exp and tk != exp["ticks"]:
        bad.append("duration: %d divisions loaded, @dur.ppq says %d" % (tk, exp["ticks"]))
    if (None if tup is None else tuple(tup)) != exp["ratio"]:
        bad.append("symbolic: tuplet ratio %r, enclosing tuplet %r" % (tup, exp["ratio"]))
    if SYM_VALUE.get(ty) != exp["written"][0] and F(1) / F(SYM_VALUE.get(ty, 1)) != F(1) / exp["written"][0]:
        bad.append("symbolic: type %r for @dur value %s" % (ty, exp["written"][0]))
    if (dots or 0) != exp["written"][1]:
        bad.append("symbolic: dots %r, written %d" % (dots, exp["written"][1]))
    if staff != exp["staff"]:
        bad.append("staff: %d loaded, encoded %d" % (staff, exp["staff"]))
    return bad


ATTR_ERRORS = ["nested_tuplets", "unknown_dur", "bad_dots", "unknown_accid", "empty_accid_child", "no_oct", "assertion"]


def run_attr(ctx, n_docs, ok):
    cases, info = [], []
    loose = []
    lcases, linfo = [], []
    nv = 0
    pi = 0
    docs = []
    for di in range(n_docs):
        probes = []
        for _ in range(10):
            pi += 1
            probes.append(gen_attr_probe(ctx.rng, pi))
        docs.append((probes, ATTR_PPQ, None))
    for ei in range(max(14, n_docs // 3)):
        pi += 1
        err = ATTR_ERRORS[ei % len(ATTR_ERRORS)]
        if err == "assertion":   # one division per quarter: an eighth is half a division
            pr = gen_attr_probe(ctx.rng, pi)
            pr["chain"] = [c for c in pr["chain"] if c[0] != "tuplet"]
            for nd in ([pr["chord"]] if pr["chord"] else pr["notes"]):
                nd[1] = [kv for kv in nd[1] if kv[0] not in ("dur", "dots", "grace", "dur.ppq")] + [("dur", "8")]
            pr["feat"] = ["error:assertion"]
            pr["nfeat"] = [[] for _ in pr["notes"]]
            pr["strict"] = [False for _ in pr["notes"]]
            docs.append(([pr], 1, err))
        else:
            docs.append(([gen_attr_probe(ctx.rng, pi, error=err)], ATTR_PPQ, err))
    for di, (probes, ppq, err) in enumerate(docs):
        xs, idmap = [], {}
        layer_els = []   # the elements with @dur of the layer in document order: (node, chain) -- the probes and the spaces between them
        for pr in probes:
            if err is None and ctx.rng.random() < 0.15:
                sp = [("dur", ctx.rng.choice(["4", "8", "16"]))] + ([("dots", "1")] if ctx.rng.random() < 0.3 else [])
                xs.append('<space xml:id="sp%d"%s/>' % (pr["pi"], "".join(' %s="%s"' % kv for kv in sp)))
                layer_els.append((["space", sp, []], [], None))
                ctx.count("attr:space_before_probe")
            x, ids = attr_probe_xml(pr)
            layer_els.append((pr["chord"] or pr["notes"][0], pr["chain"], ids[0]))
            xs.append(x)
            for k, i in enumerate(ids):
                idmap[i] = (pr, k)
        text = ATTR_HEAD % ppq + "".join(xs) + ATTR_TAIL
        loader = "load_score" if di % 2 else "load_mei"
        got, divs = observe_attr_doc(text, set(idmap), loader, "attr")
        ctx.evaluations += 1
        ctx.count("attr:documents")
        if got is None:
            ctx.count("attr:load_raised")
            if err is None:
                if nv < 4:
                    ctx.violation("attribute probes: %s raised on a document of the supported subset: %s" % (loader, divs),
                                  {"dir": "attr", "text": text, "loader": loader})
                nv += 1
                continue
        if err is None and got is not None and all(i_ is None or i_ in got for _, _, i_ in layer_els):
            rows = [(got[i_][9], got[i_][9] + got[i_][3]) for _, _, i_ in layer_els if i_ is not None]
            els = ["(El %s [] %s)" % (c_node(nd), clist([c_node([t, a]) for t, a in list(ch) + ATTR_OUTER])) for nd, ch, _ in layer_els]
            lcases.append(ctuple([cz(divs), clist(els), clist([ctuple([cz(a), cz(b)]) for a, b in rows])]))
            linfo.append((text, loader))
            ctx.count("attr:layers")
        for i, (pr, k) in sorted(idmap.items()):
            ob = None if got is None else got.get(i)
            for f_ in (pr["feat"] if k == 0 else []) + pr["nfeat"][k]:
                ctx.count("attr:%s" % f_)
            ctx.count("attr:probes")
            if got is not None and ob is None:
                if nv < 4:
                    ctx.violation("attribute probes: note %s is missing from the loaded score" % i, {"dir": "attr", "text": text, "loader": loader, "id": i})
                nv += 1
                continue
            if not pr["strict"][k]:
                # outside the supported subset (error classes, contradicting accidental places): the model follows the code
                # there too, the agreement is recorded but not judged
                ctx.count("attr:not_judged(outside_subset)")
                loose.append(c_attr_case(pr, k, divs if divs is not None and got is not None else ppq, ob))
                continue
            if ob is not None:
                bad = attr_oracle(pr, k, divs, ob)
                if bad:
                    if nv < 4:
                        ctx.violation("MEI note %s loaded by %s differs from what its attributes denote [%s]: %s"
                                      % (i, loader, bad[0].split(":")[0], "; ".join(bad)[:400]),
                                      {"dir": "attr", "text": text, "loader": loader, "id": i, "loaded": ob})
                    nv += 1
                ctx.nontrivial("attr:" + attr_probe_xml(dict(pr, pi=0))[0])
            cases.append(c_attr_case(pr, k, divs if divs is not None and got is not None else ppq, ob))
            info.append((text, loader, i, ob))
    if ok and cases:
        fa = ctx.coq_failing("attr", "From PV Require Import Model.C19 Model.C19_attr.", "", cases, "check_attr", shard=150,
                             ty="Z * Z * option elem * elem * option decoded")
        ctx.obligation("correspondence: Model.C19_attr.handle_note (written value, dots, the tuplet among the ancestors, tick duration by "
                       "@grace / @dur.ppq / the formula over the reflected tables, @pname / @oct / accidental by place, staff by "
                       "note / chord / enclosing staff, grace type; None = the loader raises) = the note load_mei returns, on %d probed "
                       "MEI notes" % len(cases), not fa, [info[i][2:] for i in fa[:5]])
        for i in fa[:3]:
            ctx.violation("Coq model of the MEI attribute decoding and the loaded note %s disagree (model drift or loader change): loaded %r"
                          % (info[i][2], info[i][3]), {"dir": "attr", "text": info[i][0], "loader": info[i][1], "id": info[i][2], "loaded": info[i][3]})
    if ok and lcases:
        fl_ = ctx.coq_failing("attrlayer", "From PV Require Import Model.C19 Model.C19_mei Model.C19_attr.", "", lcases, "check_attr_layer", shard=14,
                              ty="Z * list elem * list (Z * Z)")
        ctx.obligation("correspondence: Model.C19_attr.layer_run_attr (position from the order, durations by _duration_info on the attributes, a "
                       "space only moves) and, on layers of whole-number values, Model.C19_mei.layer_run on mels_of = (start, end) of every "
                       "probed note / chord, on %d probe layers" % len(lcases), not fl_, fl_[:5])
        for i in fl_[:3]:
            ctx.violation("Coq model of a layer of MEI elements (attribute level) and the loaded start / end divisions disagree (model drift "
                          "or loader change)", {"dir": "attr", "text": linfo[i][0], "loader": linfo[i][1]})
    if ok and loose:
        try:
            fl = ctx.coq_failing("attrx", "From PV Require Import Model.C19 Model.C19_attr.", "", loose, "check_attr", shard=150,
                                 ty="Z * Z * option elem * elem * option decoded")
            ctx.count("attr:outside_subset_model_agrees", len(loose) - len(fl))
            ctx.count("attr:outside_subset_model_differs", len(fl))
        except RuntimeError:
            ctx.count("attr:outside_subset_not_evaluated", len(loose))
    ctx.log("attribute probes: %d notes judged, %d outside the supported subset, in %d documents" % (len(cases), len(loose), len(docs)))


def coptz(x):
    return "(@None Z)" if x is None else "(Some %s)" % cz(int(x))


def describe_export_failure(doc, fmt, r, bad):
    if r[0] == "err":
        return "save_%s / reload raised %s" % (fmt, r[1]), {"error": r[1], "clauses": ["error"]}
    i0, e0, g0 = bad[0]
    what = ("save_%s then load_score changed notes [%s]: %d before / %d after, %d differ; first: %s before %s, after %s "
            "(voices per staff %s)" % (fmt, ",".join(diff_clause(bad)), len(r[1]), len(r[2]), len(bad),
                                       "note %s" % i0 if i0 else "", fmt_xrow(e0), "; ".join(fmt_xrow(x) for x in (g0 or [])) or "none",
                                       doc["voices"]))
    det = {"clauses": diff_clause(bad), "differences": [[i_, fmt_xrow(e_), [fmt_xrow(x) for x in (g_ or [])]] for i_, e_, g_ in bad[:6]],
           "file": r[3]}
    return what, det


def c_xcase(doc, fmt, loaded):
    nparts, obs, vmap = loaded
    by_voice = {}
    if fmt == "mei":
        # save_mei keeps the note ids: the reloaded notes are attributed to the voices of the abstract part by id
        # (the layer numbers of the file are not an observable of the export clause)
        for pi, nid, voice, a, b, dv, staff in obs:
            if nid not in vmap:
                return None
            si_, li_ = vmap[nid]
            by_voice.setdefault(voice_of(doc, si_, li_), []).append((a, b, dv))
    else:
        pairs = spine_pairs(doc)
        if nparts != len(pairs):
            return None
        for pi, nid, voice, a, b, dv, staff in obs:
            v, s = pairs[nparts - 1 - pi]
            if s != staff:
                return None
            by_voice.setdefault(v, []).append((a, b, dv))
    vs = []
    for si in range(len(doc["staves"])):
        for li in range(len(doc["measures"][0]["content"][si])):
            rows = by_voice.get(voice_of(doc, si, li), [])
            dvs = {r[2] for r in rows}
            if len(dvs) > 1:
                return None
            dv = dvs.pop() if dvs else 1
            rr = sorted({(a, b) for a, b, _ in rows})
            vs.append(ctuple([core.cnat(si), core.cnat(li), cz(dv),
                              clist([ctuple([cq(F(a, dv)), cq(F(b - a, dv)), cz(b - a)]) for a, b in rr])]))
    return ctuple([cbool(fmt == "mei"), c_doc(doc), clist(vs)])


def shrink_export(doc, fmt):
    import copy

    def fails(d):
        try:
            r = export_roundtrip(d, fmt)
        except Exception:
            return False
        return r[0] == "err" or (r[0] == "ok" and bool(export_diff(fmt, r[1], r[2])))
    if fmt == "kern" and kern_gaps_ok(doc):
        fails_ = fails

        def fails(d):
            return kern_gaps_ok(d) and fails_(d)

    def clean(d):
        fix_ties(d)
        return d
    cur = doc
    if len(doc["measures"]) > 1:
        def wm(ms):
            d = copy.deepcopy(doc)
            d["measures"] = copy.deepcopy(ms)
            return clean(d)
        cur = wm(core.ddmin(doc["measures"], lambda sub: fails(wm(sub))))
    # cross-staff placements back to the home staff, one element at a time
    for si in range(len(cur["staves"])):
        for li in range(2):
            for mi, evs in layer_events(cur, si, li):
                for idx in range(len(evs)):
                    o = evs[idx][0]
                    if o.get("st") and any(s != si + 1 for s in o["st"]):
                        d = copy.deepcopy(cur)
                        o2 = layer_events(d, si, li)[mi][1][idx][0]
                        o2["st"] = [si + 1] * len(o2["st"])
                        if fails(d):
                            cur = d
    # staves nothing refers to any more
    si = len(cur["staves"]) - 1
    while si >= 0 and len(cur["staves"]) > 1:
        used = any(s == si + 1 for sj in range(len(cur["staves"])) if sj != si for lj in range(2)
                   for _, evs in layer_events(cur, sj, lj) for o, _, _ in evs for s in o.get("st", []))
        if not used:
            d = copy.deepcopy(cur)
            del d["staves"][si]
            if d.get("voices"):
                del d["voices"][si]
            for m in d["measures"]:
                del m["content"][si]
            for k_, st in enumerate(d["staves"]):
                st["n"] = k_ + 1
            for sj in range(len(d["staves"])):
                for lj in range(2):
                    for _, evs in layer_events(d, sj, lj):
                        for o, _, _ in evs:
                            if o.get("st"):
                                o["st"] = [s - 1 if s > si + 1 else s for s in o["st"]]
            if fails(d):
                cur = d
        si -= 1
    # second layers
    cur = _shrink_layers(cur, fails)
    # single measure left: drop top-level nodes of the layers (with several measures that would open gaps in a voice)
    if len(cur["measures"]) == 1:
        for si in range(len(cur["staves"])):
            for li in range(len(cur["measures"][0]["content"][si])):
                nodes = cur["measures"][0]["content"][si][li]
                if len(nodes) < 2:
                    continue

                def sub_doc(sub):
                    d = copy.deepcopy(cur)
                    d["measures"][0]["content"][si][li] = copy.deepcopy(sub)
                    return clean(d)
                cur = sub_doc(core.ddmin(nodes, lambda s_: fails(sub_doc(s_))))
    return cur


def _shrink_layers(cur, fails):
    import copy
    for si in range(len(cur["staves"])):
        if all(len(m["content"][si]) == 2 for m in cur["measures"]):
            for li in (1, 0):
                d = copy.deepcopy(cur)
                for m in d["measures"]:
                    del m["content"][si][li]
                if d.get("voices"):
                    d["voices"][si] = [v for j, v in enumerate(d["voices"][si]) if j != li] + [None]
                if fails(d):
                    cur = d
                    break
    return cur


def load_corpus():
    d = os.path.join(core.VERIF, "corpus", "C19")
    out = []
    if os.path.isdir(d):
        for fn in sorted(os.listdir(d)):
            if fn.endswith(".json"):
                with open(os.path.join(d, fn)) as f:
                    out.append(json.load(f))
    return out


def replay(obj):
    r = obj.get("replay", obj)
    print(json.dumps({k: v for k, v in r.items() if k not in ("text", "file")}, indent=1, default=str)[:6000])
    if r.get("dir") == "import":
        fn = r.get("file_name") or "replay"
        for e_ in (".mei", ".krn", ".kern"):
            if fn.endswith(e_):
                fn = fn[:-len(e_)]
        st, obs, bad, text = check_import(r["doc"], r.get("loader", "load_score"), fn)
        print("---- file written by the harness writer:\n" + text)
        print("---- loaded:", st if st == "ok" else obs)
        if st == "ok":
            for ob in obs:
                print(json.dumps({k: ob[k] for k in ("id", "divs", "measures", "ts", "ks", "clefs")}, default=str))
                for n in ob["notes"]:
                    print("   ", n)
        print("---- expected (denotation) vs loaded:", "agree" if not bad else "")
        for b in bad:
            print("   MISMATCH [%s] %s" % b)
    elif r.get("dir") == "attr":
        print("---- MEI document:\n" + r["text"])
        import re as _re
        ids = set(_re.findall(r'<note xml:id="([^"]+)"', r["text"]))
        got, divs = observe_attr_doc(r["text"], ids, r.get("loader", "load_mei"), "attr_replay")
        print("---- loaded (id: step, octave, alter, ticks, type, dots, (actual, normal), staff, grace type); divisions / error:", divs)
        for i in sorted(got or {}):
            print("   ", i, got[i])
    elif r.get("dir") == "export":
        res = export_roundtrip(r["doc"], r["fmt"])
        print("---- export round trip:", res[0])
        if res[0] == "ok":
            print(res[3])
            bad = export_diff(r["fmt"], res[1], res[2])
            print("voices per staff:", r["doc"].get("voices"), "insertion order:", (r["doc"].get("xopts") or {}).get("order"))
            print("before (id: onset, duration, step, alter, octave, staff):")
            for i in sorted(res[1], key=lambda x: int(x[1:])):
                print("   ", i, fmt_xrow(res[1][i]))
            print("after:")
            for g in sorted(res[2], key=lambda x: (x[1], x[0] or "")):
                print("   ", g[0], fmt_xrow(g[1:]))
            print("---- every note kept onset, duration, pitch and staff:", "yes" if not bad else "NO")
            for i_, e_, g_ in bad:
                print("   DIFFERENT: %s before %s after %s" % (i_ or "", fmt_xrow(e_), [fmt_xrow(x) for x in (g_ or [])]))
        else:
            print(res[1])
    elif r.get("dir") == "reexport":
        res = reexport_roundtrip(r["doc"], "replay")
        print("---- document -> load_score -> save -> load_score:", res[0])
        if res[0] == "ok":
            for pi, rows, got, text in res[1]:
                print("---- part %d exported as:\n%s" % (pi, text))
                fm = r["doc"]["fmt"] if (r["doc"]["fmt"] == "mei" and all(not k.startswith("x") for k in rows)) else "kern"
                bad = export_diff(fm, rows, got)
                print("---- every note kept onset, duration, pitch and staff:", "yes" if not bad else "NO")
                for i_, e_, g_ in bad:
                    print("   DIFFERENT: %s before %s after %s" % (i_ or "", fmt_xrow(e_), [fmt_xrow(x) for x in (g_ or [])]))
        else:
            print(res[1])
    elif r.get("dir") == "history":
        print("---- operations (live objects L*/N*/R* = loaded Scores, B* = built parts):")
        for i, op in enumerate(r["ops"]):
            print("   %2d %s" % (i, op))
        bad = run_history(r, stop_at_first=False)
        print("---- every observation follows from the state at the moment of the call:", "yes" if not bad else "NO")
        for oi, cl, text in bad:
            print("   op %d [%s] %s" % (oi, cl, text))
    elif r.get("dir") == "token_history":
        print("one-voice part, notes (step index, alter, octave, value, dots, actual, normal): %s\noperations: %s\nnote tokens of every export "
              "as observed when the check ran: %s" % (r.get("notes"), r.get("ops"), r.get("observed")))
    elif r.get("dir") == "token":
        print("load_kern on a file holding a quarter c and the token %r gives (token, (rest, grace, step, alter, octave, quarters, tied to the "
              "previous note, (note value, dots, actual, normal))):\n  %s" % (r["token"], probe_token(r["token"])))
    elif r.get("dir") == "written":
        print(json.dumps(r, indent=1, default=str))
        if r.get("note"):
            print("save_kern writes:", written_tokens([tuple(r["note"])]))
    elif r.get("dir") == "dispatch":
        print(json.dumps(r, indent=1, default=str))
        if r.get("name"):
            ob, path = observe_dispatch(r["name"])
            print("load_score on %s: observed class %d (0 rejected, 1 MEI reader, 2 kern reader, 3 another reader, 4 both contents load)" % (path, ob))
    return 0
